//! C02 — parsers fail closed: every listed parser is run on fixtures, builder outputs, boundary
//! splices of every count/size/length field and byte-level mutations, each call inside an
//! isolated WORKER process (`c02 --worker`, same binary) with
//!   * a counting, capping `#[global_allocator]` (largest single request recorded; requests
//!     above 1.5 GiB are refused, so the worker aborts instead of exhausting the machine),
//!   * `catch_unwind` around the call, a 1 MiB stack for the parsing thread (depth cases),
//!   * a per-call wall-clock timeout enforced by the parent.
//! The parent classifies each call as ok|err|panic|abort|timeout + max single allocation.
//!   O: class ∈ {ok, err}  and  max_alloc ≤ c·len + k (+ the LZ4 size prefix below the 1 GiB cap).
//!   K: the same request stream goes through `drv_c02` (Model/ParseGuards front ends), which
//!      predicts panic / err / abort / "front end passes" and whether a front-end allocation
//!      exceeds the bound; where the front end passes, the model repeats the observed ok|err.
use std::alloc::{GlobalAlloc, Layout, System};
use std::collections::BTreeMap;
use std::io::{BufRead, BufReader, Cursor, Write};
use std::process::{Child, ChildStdin, Command, Stdio};
use std::sync::atomic::{AtomicUsize, Ordering};
use std::sync::mpsc::{Receiver, channel};
use std::sync::{Arc, Mutex};
use std::time::Duration;
use verif_harness::*;

// ---------------------------------------------------------------------------------------------
// allocator shim
// ---------------------------------------------------------------------------------------------
static MAX_REQ: AtomicUsize = AtomicUsize::new(0);
static CAP: AtomicUsize = AtomicUsize::new(0); // 0 = no cap (parent process)
const WORKER_CAP: usize = 1536 * 1024 * 1024;

struct CapAlloc;

fn note(size: usize) -> bool {
    MAX_REQ.fetch_max(size, Ordering::Relaxed);
    let cap = CAP.load(Ordering::Relaxed);
    if cap != 0 && size > cap {
        // allocation-free report on fd 2: "REFUSED <size>\n"
        let mut buf = [0u8; 40];
        let head = b"REFUSED ";
        buf[..8].copy_from_slice(head);
        let mut digits = [0u8; 24];
        let mut n = size;
        let mut k = 0;
        loop {
            digits[k] = b'0' + (n % 10) as u8;
            n /= 10;
            k += 1;
            if n == 0 {
                break;
            }
        }
        let mut p = 8;
        while k > 0 {
            k -= 1;
            buf[p] = digits[k];
            p += 1;
        }
        buf[p] = b'\n';
        let _ = std::io::stderr().write_all(&buf[..=p]);
        return false;
    }
    true
}

unsafe impl GlobalAlloc for CapAlloc {
    unsafe fn alloc(&self, l: Layout) -> *mut u8 {
        if !note(l.size()) {
            return std::ptr::null_mut();
        }
        unsafe { System.alloc(l) }
    }
    unsafe fn dealloc(&self, p: *mut u8, l: Layout) {
        unsafe { System.dealloc(p, l) }
    }
    unsafe fn alloc_zeroed(&self, l: Layout) -> *mut u8 {
        if !note(l.size()) {
            return std::ptr::null_mut();
        }
        unsafe { System.alloc_zeroed(l) }
    }
    unsafe fn realloc(&self, p: *mut u8, l: Layout, new_size: usize) -> *mut u8 {
        if !note(new_size) {
            return std::ptr::null_mut();
        }
        unsafe { System.realloc(p, l, new_size) }
    }
}

#[global_allocator]
static GLOBAL: CapAlloc = CapAlloc;

// ---------------------------------------------------------------------------------------------
// the parsers (REAL code). true = Ok(value), false = Err(..)/None
// ---------------------------------------------------------------------------------------------
const PARSERS: &[&str] = &[
    "blte", "encoding", "aidx", "aidxc", "agroup", "root", "install", "download", "size", "tvfs", "tvfsblte",
    "parchive", "pindex", "zbsdiff", "zbsparse", "cfgbuild", "cfgcdn", "cfgpatch", "cfgproduct", "cfgkeyring",
    "bpsv", "espec", "mime", "mimesniff", "idx", "updsec", "residency", "respage", "lru", "shmem", "buildinfo",
    "localhdr", "mimebpsv", "encchunk", "lruload", "lruuse", "enchdr", "mimev1",
    // sub-parsers selected by a type / version byte, reached directly; structured ZBSDIFF apply (old
    // file + inflated blocks, both patchers); list operations derived from a crafted .lru table
    "phdr", "pblock2", "pblock8", "pentry", "zbsmem", "zbsstream", "zbsstream1k", "zbsobj", "lrutouch", "lruremove",
    "lruevict", "lrumix",
    // inventory round: public entry points for untrusted bytes that no other name reaches — the second
    // V1 MIME sniffer, patch-archive payload decoding by ESpec, shmem IPC messages (one payload reader
    // per message type), archive reads sized by an index entry, index file NAMES, BLTE without keys,
    // BLTE-wrapped encoding, the byte-level BPSV / ESpec entry points, segment header, compaction
    // backup, and the accessors that walk a parsed value by offsets stored in it
    "mimesniff1", "padecomp", "ipcmsg", "archread", "idxname", "blteplain", "encblte", "bpsvbytes", "especbytes", "tvfsuse",
    "aidxuse", "seghdr", "compbackup", "rootuse", "phdrbuild",
];

/// parsers whose `run` response carries a result detail (` d=<token>`) that the model predicts
const DETAILED: &[&str] = &["zbsmem", "zbsstream", "zbsstream1k", "zbsobj", "lrutouch", "lruremove", "lruevict", "lrumix"];
const LRU_OPS: &[&str] = &["lrutouch", "lruremove", "lruevict", "lrumix"];

// ---------------------------------------------------------------------------------------------
// key store handed to the BLTE decoders. An encrypted chunk is only read beyond its key name when
// `TactKeyStore::get` finds the named key (the lookup precedes the IV / type reads), so the
// generators name keys that ARE in the store: one built into `TactKeyStore::new()` and one added
// here (the name used by the hand seed `blte_multi_enc`), next to names that are not.
// ---------------------------------------------------------------------------------------------
const KEY_BUILTIN: u64 = 0xFA50_5078_126A_CB3E;
const KEY_ADDED: u64 = 0x0807_0605_0403_0201;
const KEY_ADDED_BYTES: [u8; 16] = [0x5A; 16];
const KEYS_UNKNOWN: [u64; 2] = [0x1111_1111_1111_1111, 0xFA50_5078_126A_CB3F];

fn key_store() -> cascette_crypto::TactKeyStore {
    let mut ks = cascette_crypto::TactKeyStore::new();
    ks.add(cascette_crypto::TactKey::new(KEY_ADDED, KEY_ADDED_BYTES));
    ks
}

fn with_file<T>(dir: &std::path::Path, name: &str, data: &[u8], f: impl FnOnce(&std::path::Path) -> T) -> T {
    let p = dir.join(name);
    std::fs::write(&p, data).expect("worker temp write");
    let r = f(&p);
    let _ = std::fs::remove_file(&p);
    r
}

/// what the worker adds to `ok`/`err` for parsers whose result K observes in more detail (ESpec:
/// depth of the parsed tree / `NestingTooDeep(pos)` / any other error); one token, no blanks
static DETAIL: Mutex<String> = Mutex::new(String::new());

fn set_detail(d: String) {
    if let Ok(mut g) = DETAIL.lock() {
        *g = d;
    }
}

/// nesting depth of a parsed ESpec = number of `parse_espec` frames that produced its deepest leaf
fn espec_depth(e: &cascette_formats::espec::ESpec) -> usize {
    use cascette_formats::espec::ESpec;
    match e {
        ESpec::Encrypted { spec, .. } => 1 + espec_depth(spec),
        ESpec::BlockTable { chunks } => 1 + chunks.iter().map(|c| espec_depth(&c.spec)).max().unwrap_or(0),
        _ => 1,
    }
}

// ---- structured ZBSDIFF apply -----------------------------------------------------------------
/// FNV-1a 64 (result token of the structured apply parsers; the Lean driver computes the same)
fn fnv1a(b: &[u8]) -> u64 {
    let mut h: u64 = 0xcbf2_9ce4_8422_2325;
    for x in b {
        h ^= u64::from(*x);
        h = h.wrapping_mul(0x0000_0100_0000_01b3);
    }
    h
}

/// input of the `zbs*` parsers: `[u16le n][old][u16le n][control bytes, inflated][u16le n][diff block,
/// inflated][u16le n][extra block, inflated][u32le output_size]` — the worker deflates the three
/// blocks and frames them behind a ZBSDIFF1 header, so the patch is structurally valid whatever the
/// control entries say
fn zbs_composite(old: &[u8], ctl: &[u8], diff: &[u8], extra: &[u8], out: u32) -> Vec<u8> {
    let mut d = vec![];
    for part in [old, ctl, diff, extra] {
        d.extend_from_slice(&(part.len() as u16).to_le_bytes());
        d.extend_from_slice(part);
    }
    d.extend_from_slice(&out.to_le_bytes());
    d
}

fn zbs_split(d: &[u8]) -> Option<(Vec<Vec<u8>>, u32)> {
    let mut parts = vec![];
    let mut pos = 0usize;
    for _ in 0..4 {
        let n = u16::from_le_bytes([*d.get(pos)?, *d.get(pos + 1)?]) as usize;
        pos += 2;
        parts.push(d.get(pos..pos + n)?.to_vec());
        pos += n;
    }
    if d.len() != pos + 4 {
        return None;
    }
    Some((parts, u32::from_le_bytes([d[pos], d[pos + 1], d[pos + 2], d[pos + 3]])))
}

fn zbs_patch(ctl: &[u8], diff: &[u8], extra: &[u8], out: u32) -> Vec<u8> {
    use cascette_formats::zbsdiff::compress_zlib;
    let c = compress_zlib(ctl).unwrap_or_default();
    let df = compress_zlib(diff).unwrap_or_default();
    let e = compress_zlib(extra).unwrap_or_default();
    let mut p = b"ZBSDIFF1".to_vec();
    p.extend_from_slice(&(c.len() as i64).to_le_bytes());
    p.extend_from_slice(&(df.len() as i64).to_le_bytes());
    p.extend_from_slice(&i64::from(out).to_le_bytes());
    p.extend_from_slice(&c);
    p.extend_from_slice(&df);
    p.extend_from_slice(&e);
    p
}

/// one attacker-made (structurally valid) patch applied to a given old file through the memory
/// patcher, the parsed-object API or the streaming patcher (default / 1 KiB buffer)
fn zbs_apply(name: &str, d: &[u8]) -> bool {
    use cascette_formats::zbsdiff::{ZbsDiff, ZbsdiffHeader, ZbsdiffPatcher, apply_patch_memory};
    let Some((parts, out)) = zbs_split(d) else {
        set_detail("bad".to_string());
        return false;
    };
    let old = &parts[0];
    let patch = zbs_patch(&parts[1], &parts[2], &parts[3], out);
    let r = match name {
        "zbsmem" => apply_patch_memory(old, &patch),
        "zbsobj" => ZbsDiff::parse(&patch).and_then(|z| z.apply(old)),
        _ => ZbsdiffHeader::parse_from_patch(&patch).and_then(|h| {
            let p = ZbsdiffPatcher::new(Cursor::new(old.clone()), h.output_size as usize);
            let p = if name == "zbsstream1k" { p.with_buffer_size(1024) } else { p };
            p.apply_patch_from_data(&patch)
        }),
    };
    set_detail(match &r {
        Ok(o) => format!("{}:{:016x}", o.len(), fnv1a(o)),
        Err(_) => "-".to_string(),
    });
    r.is_ok()
}

// ---- list operations on a crafted .lru table -----------------------------------------------------
/// the distinct keyed entries of the table in slot order (at most 8): the keys the scripts use
fn lru_table_keys(d: &[u8]) -> Vec<[u8; 9]> {
    let mut keys: Vec<[u8; 9]> = vec![];
    if let Some((_, es)) = cascette_client_storage::lru::lru_file::deserialize(d) {
        for e in es {
            if e.is_active() && !keys.contains(&e.ekey) && keys.len() < 8 {
                keys.push(e.ekey);
            }
        }
    }
    keys
}

/// `LruManager::load_from_disk` on the file (no eviction in between), then a script of list
/// operations on the table's OWN keys, each followed by a complete `for_each_entry` walk. Detail =
/// `<result>:<first key byte of every entry the walk reported>` per step, joined by `/`.
fn lru_ops(name: &str, d: &[u8], tmp: &std::path::Path) -> bool {
    let dir = tmp.join("lruops");
    let _ = std::fs::remove_dir_all(&dir);
    std::fs::create_dir_all(&dir).expect("worker temp dir");
    std::fs::write(cascette_client_storage::lru::lru_file::lru_file_path(&dir, 7), d).expect("worker temp write");
    let rt = tokio::runtime::Builder::new_current_thread().enable_all().build().expect("runtime");
    let mut m = cascette_client_storage::lru::LruManager::new(4, dir.clone());
    let ok = rt.block_on(m.load_from_disk(7)).is_ok();
    if !ok {
        let _ = std::fs::remove_dir_all(&dir);
        return false;
    }
    let keys = lru_table_keys(d);
    const NEW: [u8; 9] = [0xEE; 9];
    fn walk(m: &cascette_client_storage::lru::LruManager) -> String {
        let mut w = String::new();
        m.for_each_entry(|k| w.push_str(&format!("{:02x}", k[0])));
        if w.is_empty() { "-".to_string() } else { w }
    }
    let mut steps = vec![format!("l:{}", walk(&m))];
    let mut step = |m: &cascette_client_storage::lru::LruManager, r: usize| steps.push(format!("{r}:{}", walk(m)));
    match name {
        "lrutouch" => {
            for k in &keys {
                let r = m.touch(k);
                step(&m, usize::from(r));
            }
            let r = m.touch(&NEW);
            step(&m, usize::from(r));
        }
        "lruremove" => {
            for k in &keys {
                let r = m.remove(k);
                step(&m, usize::from(r));
            }
            let r = m.touch(&NEW);
            step(&m, usize::from(r));
        }
        "lruevict" => {
            let r = m.evict_tail().is_some();
            step(&m, usize::from(r));
            if let Some(k) = keys.first() {
                let r = m.touch(k);
                step(&m, usize::from(r));
            }
            let (n, _) = m.evict_to_target(u64::MAX, 1);
            step(&m, n);
            let r = m.touch(&NEW);
            step(&m, usize::from(r));
        }
        _ => {
            for (i, k) in keys.iter().enumerate() {
                let r = if i % 2 == 0 { m.touch(k) } else { m.remove(k) };
                step(&m, usize::from(r));
            }
            for k in keys.iter().rev() {
                let r = m.touch(k);
                step(&m, usize::from(r));
            }
        }
    }
    set_detail(steps.join("/"));
    let _ = std::fs::remove_dir_all(&dir);
    true
}

fn run_parser(name: &str, d: &[u8], tmp: &std::path::Path) -> bool {
    use cascette_formats::CascFormat;
    match name {
        "blte" => match cascette_formats::blte::BlteFile::parse(d) {
            Ok(b) => {
                let ks = key_store();
                b.decompress_with_keys(&ks).is_ok()
            }
            Err(_) => false,
        },
        "encoding" => cascette_formats::encoding::EncodingFile::parse(d).is_ok(),
        "aidx" => cascette_formats::archive::ArchiveIndex::parse(Cursor::new(d)).is_ok(),
        "aidxc" => with_file(tmp, "a.index", d, |p| cascette_formats::archive::ChunkedArchiveIndex::open(p).is_ok()),
        "agroup" => cascette_formats::archive::ArchiveGroup::parse(&mut Cursor::new(d)).is_ok(),
        "root" => cascette_formats::root::RootFile::parse(d).is_ok(),
        "install" => cascette_formats::install::InstallManifest::parse(d).is_ok(),
        "download" => cascette_formats::download::DownloadManifest::parse(d).is_ok(),
        "size" => cascette_formats::size::SizeManifest::parse(d).is_ok(),
        "tvfs" => cascette_formats::tvfs::TvfsFile::parse(d).is_ok(),
        "tvfsblte" => cascette_formats::tvfs::TvfsFile::load_from_blte(d).is_ok(),
        "parchive" => <cascette_formats::patch_archive::PatchArchive as CascFormat>::parse(d).is_ok(),
        "pindex" => <cascette_formats::patch_index::PatchIndex as CascFormat>::parse(d).is_ok(),
        "zbsdiff" => {
            // old data: 64 KiB of a fixed pattern (the patch, not the old file, is the hostile input)
            let old: Vec<u8> = (0..65536u32).map(|i| (i % 251) as u8).collect();
            cascette_formats::zbsdiff::apply_patch_memory(&old, d).is_ok()
        }
        "zbsparse" => cascette_formats::zbsdiff::ZbsDiff::parse(d).is_ok(),
        "zbsmem" | "zbsstream" | "zbsstream1k" | "zbsobj" => zbs_apply(name, d),
        "phdr" => cascette_formats::patch_index::PatchIndexHeader::parse(d).is_ok(),
        "pblock2" => cascette_formats::patch_index::parser::parse_block2(d).is_ok(),
        "pblock8" => cascette_formats::patch_index::parser::parse_block8(d).is_ok(),
        // first byte = the key size handed to the entry parser, the rest = its input
        "pentry" => match d.split_first() {
            Some((ks, rest)) => cascette_formats::patch_index::PatchIndexEntry::parse(rest, *ks).is_some(),
            None => false,
        },
        "mimesniff1" => cascette_protocol::v1_mime::is_v1_mime_response(d),
        // `<spec text> 0x00 <payload>`: the patch archive's compression info applied to patch data
        "padecomp" => {
            let cut = d.iter().position(|b| *b == 0).unwrap_or(d.len());
            let spec = String::from_utf8_lossy(&d[..cut]).to_string();
            let data = d.get(cut + 1..).unwrap_or(&[]);
            match cascette_formats::patch_archive::parse_compression_spec(&spec) {
                Ok(e) => {
                    let _ = cascette_formats::patch_archive::get_compression_at_offset(&e, data.len() as u64);
                    cascette_formats::patch_archive::decompress_patch_data(data, &e).is_ok()
                }
                Err(_) => false,
            }
        }
        "ipcmsg" => match cascette_client_storage::shmem::IpcMessage::from_bytes(d) {
            Ok(m) => {
                let _ = m.to_bytes();
                true
            }
            Err(_) => false,
        },
        // `[u32le offset][u32le size][archive bytes]`: what an index entry makes the archive reader do
        "archread" => {
            if d.len() < 8 {
                return false;
            }
            let off = u64::from(u32::from_le_bytes([d[0], d[1], d[2], d[3]]));
            let size = u64::from(u32::from_le_bytes([d[4], d[5], d[6], d[7]]));
            let mut a = cascette_formats::archive::ArchiveFile::new(Cursor::new(d[8..].to_vec()));
            let r1 = a.read_at_offset(off, size).is_ok();
            let r2 = a.read_blte_at_offset(off, size).is_ok();
            r1 && r2
        }
        // the input is a FILE NAME in the index directory (content: a small valid .idx)
        "idxname" => {
            let name = String::from_utf8_lossy(d).replace(['/', '\0'], "_");
            if name.is_empty() || name == "." || name == ".." || name.len() > 200 {
                return false;
            }
            let dir = tmp.join("idxname");
            let _ = std::fs::remove_dir_all(&dir);
            std::fs::create_dir_all(&dir).expect("worker temp dir");
            if std::fs::write(dir.join(&name), seed_idx_min()).is_err() {
                let _ = std::fs::remove_dir_all(&dir);
                return false;
            }
            let rt = tokio::runtime::Builder::new_current_thread().enable_all().build().expect("runtime");
            let mut m = cascette_client_storage::index::IndexManager::new(&dir);
            let ok = rt.block_on(m.load_all()).is_ok();
            let _ = m.entry_count();
            let _ = std::fs::remove_dir_all(&dir);
            ok
        }
        "blteplain" => match cascette_formats::blte::BlteFile::parse(d) {
            Ok(b) => b.decompress().is_ok(),
            Err(_) => false,
        },
        "encblte" => cascette_formats::encoding::EncodingFile::parse_blte(d).is_ok(),
        "bpsvbytes" => {
            let a = cascette_formats::bpsv::BpsvReader::from_bytes(d).read_document().is_ok();
            let b = <cascette_formats::bpsv::BpsvDocument as CascFormat>::parse(d).is_ok();
            let _ = cascette_formats::bpsv::parse_schema(&String::from_utf8_lossy(d));
            a || b
        }
        "especbytes" => match <cascette_formats::espec::ESpec as CascFormat>::parse(d) {
            Ok(e) => {
                let _ = e.is_compressed();
                let _ = e.to_string();
                true
            }
            Err(_) => false,
        },
        "tvfsuse" => match cascette_formats::tvfs::TvfsFile::parse(d) {
            Ok(t) => {
                let n = t.enumerate_files().take(100_000).filter(|(_, v)| v.is_some()).count();
                let _ = t.resolve_path("a");
                let _ = t.resolve_path("a/f");
                std::hint::black_box(n);
                true
            }
            Err(_) => false,
        },
        "aidxuse" => {
            let keys: [&[u8]; 5] = [&[0u8; 16], &[1u8; 16], &[3u8; 16], &[0xFFu8; 16], &[5u8; 9]];
            let a = match cascette_formats::archive::ArchiveIndex::parse(Cursor::new(d)) {
                Ok(ix) => {
                    for k in keys {
                        let _ = ix.find_entry(k);
                        let _ = ix.find_all_entries(k);
                    }
                    let _ = ix.validate();
                    true
                }
                Err(_) => false,
            };
            let b = with_file(tmp, "u.index", d, |p| match cascette_formats::archive::ChunkedArchiveIndex::open(p) {
                Ok(mut ix) => {
                    for k in keys {
                        let _ = ix.find_entry(k);
                    }
                    true
                }
                Err(_) => false,
            });
            a || b
        }
        "seghdr" => cascette_client_storage::storage::segment::SegmentHeader::from_bytes(d).is_some(),
        "compbackup" => {
            let dir = tmp.join("compbackup");
            let _ = std::fs::remove_dir_all(&dir);
            std::fs::create_dir_all(&dir).expect("worker temp dir");
            std::fs::write(dir.join("extract_bu"), d).expect("worker temp write");
            let r = cascette_client_storage::storage::compaction::ExtractorCompactorBackup::load(&dir);
            let _ = std::fs::remove_dir_all(&dir);
            matches!(r, Ok(Some(_)))
        }
        "rootuse" => match cascette_formats::root::RootFile::parse(d) {
            Ok(r) => {
                let _ = r.total_files();
                let _ = r.validate();
                let _ = r.summary();
                true
            }
            Err(_) => false,
        },
        "phdrbuild" => match cascette_formats::patch_index::PatchIndexHeader::parse(d) {
            Ok(h) => {
                let _ = h.build();
                true
            }
            Err(_) => false,
        },
        "lrutouch" | "lruremove" | "lruevict" | "lrumix" => lru_ops(name, d, tmp),
        "cfgbuild" => cascette_formats::config::BuildConfig::parse(d).is_ok(),
        "cfgcdn" => cascette_formats::config::CdnConfig::parse(d).is_ok(),
        "cfgpatch" => cascette_formats::config::PatchConfig::parse(d).is_ok(),
        "cfgproduct" => cascette_formats::config::ProductConfig::parse(d).is_ok(),
        "cfgkeyring" => cascette_formats::config::KeyringConfig::parse(d).is_ok(),
        "bpsv" => cascette_formats::bpsv::parse(&String::from_utf8_lossy(d)).is_ok(),
        "espec" => {
            let r = cascette_formats::espec::parse(&String::from_utf8_lossy(d));
            set_detail(match &r {
                Ok(e) => format!("depth={}", espec_depth(e)),
                Err(cascette_formats::espec::ESpecError::NestingTooDeep(p)) => format!("deep@{p}"),
                Err(_) => "other".to_string(),
            });
            r.is_ok()
        }
        "mime" => cascette_protocol::mime_parser::parse_v1_mime_response(d).is_ok(),
        "mimesniff" => cascette_protocol::mime_parser::is_v1_mime_response(d),
        "mimebpsv" => cascette_protocol::mime_parser::parse_v1_mime_to_bpsv(d).is_ok(),
        // the second entry point (with signature handling; the CMS decoding behind it is a body)
        "mimev1" => cascette_protocol::v1_mime::parse_v1_mime_response(d, None).is_ok(),
        // one encrypted chunk payload (without the 'E' mode byte), decoded directly
        "encchunk" => cascette_formats::blte::decrypt_chunk_with_keys(d, &key_store(), 0).is_ok(),
        "idx" => with_file(tmp, "0000000001.idx", d, |p| {
            let mut m = cascette_client_storage::index::IndexManager::new(tmp);
            m.load_index(1, p).is_ok()
        }),
        "updsec" => {
            let s = cascette_client_storage::index::update::UpdateSection::from_bytes(d);
            let _ = s.entry_count();
            true
        }
        "residency" => with_file(tmp, "residency.db", d, |p| cascette_client_storage::kmt::key_state::ResidencyDb::load(p).is_ok()),
        "respage" => cascette_client_storage::kmt::key_state::ResidencyPage::from_bytes(d).is_some(),
        "lru" => cascette_client_storage::lru::lru_file::deserialize(d).is_some(),
        // the file as the newest checkpoint of a data directory: LruManager::run_cycle (load_from_disk,
        // eviction from the tail, scan, for_each_entry); "lruuse": then the list operations on what
        // was loaded
        "lruload" | "lruuse" => {
            let dir = tmp.join("lruload");
            let _ = std::fs::remove_dir_all(&dir);
            std::fs::create_dir_all(&dir).expect("worker temp dir");
            std::fs::write(cascette_client_storage::lru::lru_file::lru_file_path(&dir, 7), d).expect("worker temp write");
            let rt = tokio::runtime::Builder::new_current_thread().enable_all().build().expect("runtime");
            let mut m = cascette_client_storage::lru::LruManager::new(4, dir.clone());
            let ok = rt.block_on(m.run_cycle(1, 1)).is_ok();
            let mut n = 0usize;
            if ok {
                m.for_each_entry(|_| n += 1);
            }
            if ok && name == "lruuse" {
                for k in [[1u8; 9], [2u8; 9], [0xEEu8; 9]] {
                    m.touch(&k);
                }
                m.remove(&[3u8; 9]);
                m.for_each_entry(|_| n += 1);
                m.evict_to_target(64, 1);
                m.for_each_entry(|_| n += 1);
                m.touch(&[4u8; 9]);
                m.for_each_entry(|_| n += 1);
            }
            std::hint::black_box(n);
            let _ = std::fs::remove_dir_all(&dir);
            ok
        }
        "enchdr" => {
            use binrw::BinRead;
            cascette_formats::blte::EncryptedHeader::read_le(&mut Cursor::new(d)).is_ok()
        }
        "shmem" => cascette_client_storage::shmem::ShmemControlBlock::from_mapped(d).is_some(),
        "buildinfo" => cascette_client_storage::BuildInfoFile::parse_str(&String::from_utf8_lossy(d)).is_ok(),
        "localhdr" => match cascette_client_storage::storage::local_header::LocalHeader::from_bytes(d) {
            Some(h) => {
                let _ = h.blte_size();
                let _ = h.validate_checksums(0);
                true
            }
            None => false,
        },
        _ => false,
    }
}

// ---------------------------------------------------------------------------------------------
// worker
// ---------------------------------------------------------------------------------------------
fn worker_main() {
    // panic hook: remember file of the panic location (for the oracle's narrow sig)
    static LAST_PANIC: Mutex<String> = Mutex::new(String::new());
    std::panic::set_hook(Box::new(|info| {
        let loc = info.location().map(|l| l.file().rsplit('/').next().unwrap_or("?").to_string()).unwrap_or_else(|| "?".into());
        if let Ok(mut g) = LAST_PANIC.lock() {
            *g = loc;
        }
    }));
    let h = std::thread::Builder::new()
        .stack_size(1024 * 1024)
        .spawn(|| {
            // scratch files of the file-based entry points: tmpfs when there is one (thousands of
            // create / write / remove cycles per run)
            let base = if std::path::Path::new("/dev/shm").is_dir() { std::path::PathBuf::from("/dev/shm") } else { std::env::temp_dir() };
            let tmp = base.join(format!("c02_worker_{}", std::process::id()));
            std::fs::create_dir_all(&tmp).expect("worker tmp");
            let stdin = std::io::stdin();
            let mut out = std::io::stdout();
            let mut line = String::new();
            loop {
                line.clear();
                if stdin.lock().read_line(&mut line).unwrap_or(0) == 0 {
                    break;
                }
                let mut it = line.trim_end().splitn(2, ' ');
                let name = it.next().unwrap_or("").to_string();
                let data = unhex(it.next().unwrap_or("-")).unwrap_or_default();
                set_detail("-".to_string());
                MAX_REQ.store(0, Ordering::Relaxed);
                CAP.store(WORKER_CAP, Ordering::Relaxed);
                let r = std::panic::catch_unwind(std::panic::AssertUnwindSafe(|| run_parser(&name, &data, &tmp)));
                CAP.store(0, Ordering::Relaxed);
                let m = MAX_REQ.load(Ordering::Relaxed);
                let det = DETAIL.lock().map(|g| g.clone()).unwrap_or_else(|_| "-".into());
                let resp = match r {
                    Ok(true) => format!("ok {m} - {det}"),
                    Ok(false) => format!("err {m} - {det}"),
                    Err(_) => format!("panic {m} {}", LAST_PANIC.lock().map(|g| g.clone()).unwrap_or_default()),
                };
                writeln!(out, "{resp}").ok();
                out.flush().ok();
            }
            let _ = std::fs::remove_dir_all(&tmp);
        })
        .expect("spawn worker thread");
    let _ = h.join();
}

struct Worker {
    child: Child,
    stdin: ChildStdin,
    rx: Receiver<String>,
    refused: Arc<Mutex<Option<usize>>>,
}

#[derive(Clone, Debug)]
struct Obs {
    class: &'static str, // ok err panic abort timeout
    max_alloc: usize,
    site: String, // panic file / "alloc" for a refused allocation / "-"
    detail: String, // parser-specific detail of an ok/err result ("-" when there is none)
}

impl Worker {
    fn spawn() -> Worker {
        let exe = std::env::current_exe().expect("current_exe");
        let mut child = Command::new(exe)
            .arg("--worker")
            .stdin(Stdio::piped())
            .stdout(Stdio::piped())
            .stderr(Stdio::piped())
            .spawn()
            .expect("spawn worker");
        let stdin = child.stdin.take().expect("stdin");
        let stdout = child.stdout.take().expect("stdout");
        let stderr = child.stderr.take().expect("stderr");
        let (tx, rx) = channel();
        std::thread::spawn(move || {
            for l in BufReader::new(stdout).lines() {
                match l {
                    Ok(l) => {
                        if tx.send(l).is_err() {
                            break;
                        }
                    }
                    Err(_) => break,
                }
            }
        });
        let refused = Arc::new(Mutex::new(None));
        let r2 = refused.clone();
        std::thread::spawn(move || {
            for l in BufReader::new(stderr).lines().map_while(Result::ok) {
                if let Some(n) = l.strip_prefix("REFUSED ") {
                    if let Ok(n) = n.trim().parse::<usize>() {
                        *r2.lock().unwrap() = Some(n);
                    }
                }
            }
        });
        Worker { child, stdin, rx, refused }
    }
    fn kill(&mut self) {
        let _ = self.child.kill();
        let _ = self.child.wait();
    }
}

struct Pool {
    w: Option<Worker>,
    timeout: Duration,
    respawns: u64,
}

impl Pool {
    fn run(&mut self, parser: &str, data: &[u8]) -> Obs {
        // list operations on a table of a few entries take microseconds: a hang shows at once
        let timeout = if parser == "lruuse" || LRU_OPS.contains(&parser) {
            Duration::from_millis(1500)
        } else if parser.starts_with("zbs") && data.len() < 65536 {
            // structured patches are a few hundred bytes: a second is already "does not return"
            Duration::from_millis(3000)
        } else {
            self.timeout
        };
        if self.w.is_none() {
            self.w = Some(Worker::spawn());
            self.respawns += 1;
        }
        let w = self.w.as_mut().unwrap();
        *w.refused.lock().unwrap() = None;
        let job = format!("{parser} {}\n", hex(data));
        let sent = w.stdin.write_all(job.as_bytes()).and_then(|_| w.stdin.flush());
        if sent.is_err() {
            w.kill();
            self.w = None;
            return Obs { class: "abort", max_alloc: 0, site: "spawn".into(), detail: "-".into() };
        }
        match w.rx.recv_timeout(timeout) {
            Ok(l) => {
                let t: Vec<&str> = l.split(' ').collect();
                let class = match t.first().copied() {
                    Some("ok") => "ok",
                    Some("err") => "err",
                    _ => "panic",
                };
                Obs {
                    class,
                    max_alloc: t.get(1).and_then(|x| x.parse().ok()).unwrap_or(0),
                    site: t.get(2).unwrap_or(&"-").to_string(),
                    detail: t.get(3).unwrap_or(&"-").to_string(),
                }
            }
            Err(std::sync::mpsc::RecvTimeoutError::Timeout) => {
                w.kill();
                self.w = None;
                Obs { class: "timeout", max_alloc: 0, site: "-".into(), detail: "-".into() }
            }
            Err(std::sync::mpsc::RecvTimeoutError::Disconnected) => {
                // the worker died: refused allocation (handle_alloc_error → abort) or stack overflow
                let _ = w.child.wait();
                std::thread::sleep(Duration::from_millis(5));
                let refused = *w.refused.lock().unwrap();
                w.kill();
                self.w = None;
                match refused {
                    Some(n) => Obs { class: "abort", max_alloc: n, site: "alloc".into(), detail: "-".into() },
                    None => Obs { class: "abort", max_alloc: 0, site: "signal".into(), detail: "-".into() },
                }
            }
        }
    }
}

// ---------------------------------------------------------------------------------------------
// inputs: seeds + edit programs
// ---------------------------------------------------------------------------------------------
#[derive(Clone, Debug)]
enum Edit {
    Trunc(usize),
    Put(usize, Vec<u8>), // overwrite at offset (only the part that fits is written)
    App(Vec<u8>),
    Rep(usize, Vec<u8>), // append the bytes n times (deep nesting families stay short in req lines and replays)
}

fn apply(seed: &[u8], edits: &[Edit]) -> Vec<u8> {
    let mut d = seed.to_vec();
    for e in edits {
        match e {
            Edit::Trunc(n) => d.truncate(*n),
            Edit::Put(o, b) => {
                for (i, x) in b.iter().enumerate() {
                    if o + i < d.len() {
                        d[o + i] = *x;
                    }
                }
            }
            Edit::App(b) => d.extend_from_slice(b),
            Edit::Rep(n, b) => {
                d.reserve(n * b.len());
                for _ in 0..*n {
                    d.extend_from_slice(b);
                }
            }
        }
    }
    d
}

fn edits_text(edits: &[Edit]) -> String {
    if edits.is_empty() {
        return "-".into();
    }
    edits
        .iter()
        .map(|e| match e {
            Edit::Trunc(n) => format!("t{n}"),
            Edit::Put(o, b) => format!("p{o}:{}", hex(b)),
            Edit::App(b) => format!("a{}", hex(b)),
            Edit::Rep(n, b) => format!("r{n}:{}", hex(b)),
        })
        .collect::<Vec<_>>()
        .join(",")
}

fn parse_edits(s: &str) -> Option<Vec<Edit>> {
    if s == "-" {
        return Some(vec![]);
    }
    let mut v = vec![];
    for part in s.split(',') {
        let (k, rest) = part.split_at(1);
        match k {
            "t" => v.push(Edit::Trunc(rest.parse().ok()?)),
            "p" => {
                let (o, h) = rest.split_once(':')?;
                v.push(Edit::Put(o.parse().ok()?, unhex(h)?));
            }
            "a" => v.push(Edit::App(unhex(rest)?)),
            "r" => {
                let (n, h) = rest.split_once(':')?;
                let n: usize = n.parse().ok()?;
                let b = unhex(h)?;
                // a replay line is not trusted to be small
                if n.saturating_mul(b.len()) > 64 << 20 {
                    return None;
                }
                v.push(Edit::Rep(n, b));
            }
            _ => return None,
        }
    }
    Some(v)
}

/// per-parser bound `c·len + k` on the largest single allocation request.
/// 64·len + 8 MiB for plain parsers (tables of ≤ 64-byte records per input byte, u16-counted
/// tables, fixed I/O buffers); parsers that inflate zlib get 2100·len (deflate expands ≤ 1032×,
/// a growing Vec doubles). The LZ4 size prefix (≤ 1 GiB, documented cap) is added per input.
fn bound_ck(parser: &str) -> (usize, usize) {
    match parser {
        "blte" | "tvfsblte" | "zbsdiff" | "parchive" | "encchunk" | "zbsmem" | "zbsstream" | "zbsstream1k" | "zbsobj" | "padecomp" | "blteplain" | "encblte" | "archread" => (2100, 8 << 20),
        _ => (64, 8 << 20),
    }
}

const MAX_DECOMP: usize = 1024 * 1024 * 1024;

/// the documented exemption: an LZ4 chunk's own 8-byte size prefix, when ≤ MAX_DECOMPRESSION_SIZE,
/// is handed to lz4_flex as output size. Walks the chunk table like the parser does.
fn lz4_allow(d: &[u8]) -> usize {
    if d.len() < 8 || &d[0..4] != b"BLTE" {
        return 0;
    }
    let hs = u32::from_be_bytes([d[4], d[5], d[6], d[7]]) as usize;
    let mut sizes: Vec<usize> = vec![];
    let mut pos;
    if hs == 0 {
        pos = 8;
        sizes.push(d.len() - 8);
    } else {
        if d.len() < 12 {
            return 0;
        }
        let rec = match d[8] {
            0x0F => 24,
            0x10 => 40,
            _ => return 0,
        };
        let n = u32::from_be_bytes([0, d[9], d[10], d[11]]) as usize;
        pos = 12;
        for _ in 0..n {
            if pos + rec > d.len() {
                return 0;
            }
            sizes.push(u32::from_be_bytes([d[pos], d[pos + 1], d[pos + 2], d[pos + 3]]) as usize);
            pos += rec;
        }
    }
    let mut best = 0usize;
    if hs != 0 {
        // Σ decompressed sizes of the table, clamped to the cap: the pre-allocation of decompress()
        let mut p = 12;
        let rec = if d[8] == 0x10 { 40 } else { 24 };
        let mut tot: u64 = 0;
        for _ in 0..sizes.len() {
            tot += u64::from(u32::from_be_bytes([d[p + 4], d[p + 5], d[p + 6], d[p + 7]]));
            p += rec;
        }
        best = (tot.min(MAX_DECOMP as u64)) as usize;
    }
    for s in sizes {
        if s == 0 || pos + s > d.len() {
            break;
        }
        if d[pos] == b'4' && s >= 9 {
            let mut le = [0u8; 8];
            le.copy_from_slice(&d[pos + 1..pos + 9]);
            let v = u64::from_le_bytes(le);
            if v <= MAX_DECOMP as u64 {
                best = best.max(v as usize);
            }
        }
        pos += s;
    }
    best
}

fn allowance(parser: &str, d: &[u8]) -> usize {
    match parser {
        "blte" | "tvfsblte" | "blteplain" | "encblte" => lz4_allow(d),
        "archread" => lz4_allow(d.get(8..).unwrap_or(&[])),
        _ => 0,
    }
}

/// response of an `espec` line: the worker's detail behind ok/err, the bare class otherwise
fn espec_resp(obs: &Obs) -> String {
    match obs.class {
        "ok" | "err" => format!("{} {}", obs.class, obs.detail),
        c => c.to_string(),
    }
}

struct Ctx {
    s: Session,
    pool: Pool,
    seeds: BTreeMap<String, Vec<u8>>,
    emitted: std::collections::HashSet<String>,
    quick: bool,
    follow: Vec<String>, // follow-up request lines (`espec`, `lhdr`) the last `case` emitted by itself
    timeouts: BTreeMap<String, u32>, // calls that did not return, per family (each costs its time limit)
}

impl Ctx {
    fn seed(&mut self, id: &str, data: Vec<u8>) {
        if !self.seeds.contains_key(id) {
            self.s.line(&format!("seed {id} {}", hex(&data)), "ok");
            self.seeds.insert(id.to_string(), data);
        }
    }

    /// run one case: parser on seed+edits. Emits the K line, evaluates O.
    fn case(&mut self, parser: &str, seed_id: &str, edits: &[Edit], kind: &str) -> Obs {
        let et = edits_text(edits);
        self.follow.clear();
        let key = format!("{parser} {seed_id} {et}");
        let data = apply(&self.seeds[seed_id], edits);
        let obs = self.pool.run(parser, &data);
        let (c, k) = bound_ck(parser);
        let allow = allowance(parser, &data);
        let limit = c.saturating_mul(data.len()).saturating_add(k).saturating_add(allow);
        let big = obs.max_alloc > limit;
        let req = format!("run {parser} {seed_id} {et} c={c} k={k} cap={WORKER_CAP} obs={}", obs.class);
        let det = if DETAILED.contains(&parser) && matches!(obs.class, "ok" | "err") { format!(" d={}", obs.detail) } else { String::new() };
        self.s.line(&req, &format!("{} big={}{det}", obs.class, u8::from(big)));
        self.s.tally(&format!("parser:{parser}"));
        self.s.tally(&format!("class:{}", obs.class));
        self.s.tally(&format!("kind:{kind}"));
        let replay = vec![format!("seed {seed_id} {}", hex(&self.seeds[seed_id])), req.clone()];
        let short = |r: &Vec<String>| -> Vec<String> {
            // keep replays readable: inline the (already edited) bytes when the seed is large
            if r[0].len() > 20000 { vec![format!("seed w {}", hex(&data)), format!("run {parser} w - c={c} k={k} cap={WORKER_CAP} obs={}", obs.class)] } else { r.clone() }
        };
        match obs.class {
            "ok" | "err" => {}
            "panic" => {
                let sig = format!("panic-{parser}@{}", obs.site);
                self.s.oracle_fail(&sig, &format!("{parser} panicked (location {}) on {} bytes [{seed_id} {et}]", obs.site, data.len()), &short(&replay));
            }
            "abort" => {
                let sig = format!("abort-{}-{parser}", obs.site);
                self.s.oracle_fail(&sig, &format!("{parser} aborted the process ({}; refused request {} bytes) on {} input bytes [{seed_id} {et}]", obs.site, obs.max_alloc, data.len()), &short(&replay));
            }
            _ => {
                // narrow sig for the shape C17 records as format-level (lru-zero-key-reload): an entry
                // with the all-zero key ON the list comes back linked AND free, the next touch reuses it
                // (only a table the load is RIGHT to accept has that shape: a hang behind a load that
                // should have been refused is a different defect)
                let lru = parser == "lruuse" || LRU_OPS.contains(&parser);
                let sig = if lru && lru_zero_key_linked(&data) && lru_ref_accepts(&data) { "lruuse-zero-key-linked".to_string() } else { format!("timeout-{parser}") };
                *self.timeouts.entry(if lru { "lru".to_string() } else { parser.to_string() }).or_insert(0) += 1;
                self.s.oracle_fail(&sig, &format!("{parser} did not return within its time limit on {} bytes [{seed_id} {et}]", data.len()), &short(&replay));
            }
        }
        if big && obs.class != "abort" {
            let sig = format!("alloc-unbounded-{parser}");
            self.s.oracle_fail(&sig, &format!("{parser} requested {} bytes in one allocation for {} input bytes (bound {c}*len+{k}+{allow}) [{seed_id} {et}]", obs.max_alloc, data.len()), &short(&replay));
        }
        if parser == "localhdr" {
            // value-level tie of LocalHeader::from_bytes + blte_size (saturating since fix 84a8898)
            let r = match cascette_client_storage::storage::local_header::LocalHeader::from_bytes(&data) {
                Some(h) => format!("blte={}", h.blte_size()),
                None => "none".to_string(),
            };
            let l = format!("lhdr {}", hex(&data));
            self.s.line(&l, &r);
            self.follow.push(l);
        }
        if parser == "espec" && data.is_ascii() && (data.len() <= 65536 || !self.quick) {
            // result-level tie of the ESpec grammar model: depth of the parsed tree, or the position at
            // which the nesting guard refused, or "other". Self-contained line (edits of the empty input).
            // (quick tier: inputs up to 64 KiB; the `run` line above predicts ok|err for all of them)
            let et0 = if seed_id == "empty" { et.clone() } else { edits_text(&[Edit::App(data.clone())]) };
            let l = format!("espec {et0}");
            self.s.line(&l, &espec_resp(&obs));
            self.follow.push(l);
        }
        // non-trivial: a mutated/spliced/truncated input (not the pristine seed) that is new
        let nontrivial = !edits.is_empty() && self.emitted.insert(key.clone());
        self.s.case(if nontrivial { Some(&key) } else { None });
        obs
    }
}

// ---- hand-made seeds ------------------------------------------------------------------------
fn be32(v: u32) -> [u8; 4] {
    v.to_be_bytes()
}

fn seed_blte_multi(flags: u8, chunks: &[&[u8]]) -> Vec<u8> {
    // chunks are full chunk payloads incl. mode byte
    let rec = if flags == 0x10 { 40 } else { 24 };
    let hs = 12 + rec * chunks.len();
    let mut d = b"BLTE".to_vec();
    d.extend_from_slice(&be32(hs as u32));
    d.push(flags);
    d.extend_from_slice(&be32(chunks.len() as u32)[1..]);
    for c in chunks {
        d.extend_from_slice(&be32(c.len() as u32));
        d.extend_from_slice(&be32((c.len() - 1) as u32));
        d.extend_from_slice(&md5::compute(c).0);
        if flags == 0x10 {
            d.extend_from_slice(&md5::compute(&c[1..]).0);
        }
    }
    for c in chunks {
        d.extend_from_slice(c);
    }
    d
}

fn seed_encoding_min() -> Vec<u8> {
    // header(22) + espec block "z\0" + 1 ckey index + 1 ckey page(1 KiB) + 1 ekey index + 1 ekey page
    let mut page_c = vec![0u8; 1024];
    page_c[0] = 1; // key_count
    page_c[1..6].copy_from_slice(&[0, 0, 0, 0, 9]); // file size (40-bit BE)
    for i in 0..16 {
        page_c[6 + i] = 0x11;
        page_c[22 + i] = 0x22;
    }
    let mut page_e = vec![0u8; 1024];
    for i in 0..16 {
        page_e[i] = 0x22;
    }
    page_e[16..20].copy_from_slice(&[0, 0, 0, 0]);
    page_e[20..25].copy_from_slice(&[0, 0, 0, 0, 9]);
    // padding sentinel after first entry: espec index 0xFFFFFFFF
    for i in 0..4 {
        page_e[25 + 16 + i] = 0xFF;
    }
    let mut d = b"EN".to_vec();
    d.extend_from_slice(&[1, 16, 16, 0, 1, 0, 1]);
    d.extend_from_slice(&be32(1));
    d.extend_from_slice(&be32(1));
    d.push(0);
    d.extend_from_slice(&be32(2));
    d.extend_from_slice(b"z\0");
    d.extend_from_slice(&[0x11; 16]);
    d.extend_from_slice(&md5::compute(&page_c).0);
    d.extend_from_slice(&page_c);
    d.extend_from_slice(&[0x22; 16]);
    d.extend_from_slice(&md5::compute(&page_e).0);
    d.extend_from_slice(&page_e);
    d
}

fn seed_install_min() -> Vec<u8> {
    let mut d = b"IN".to_vec();
    d.extend_from_slice(&[1, 16]); // version, ckey_length
    d.extend_from_slice(&[0, 1]); // tag_count
    d.extend_from_slice(&be32(2)); // entry_count
    d.extend_from_slice(b"Windows\0");
    d.extend_from_slice(&[0, 1]); // tag type
    d.push(0b1100_0000); // bitmask
    for n in [&b"a.txt\0"[..], &b"dir\\b.bin\0"[..]] {
        d.extend_from_slice(n);
        d.extend_from_slice(&[0x33; 16]);
        d.extend_from_slice(&be32(100));
    }
    d
}

fn seed_download_min(version: u8) -> Vec<u8> {
    let mut d = b"DL".to_vec();
    d.extend_from_slice(&[version, 16, 0]); // version, ekey_length, has_checksum
    d.extend_from_slice(&be32(2)); // entry_count
    d.extend_from_slice(&[0, 1]); // tag_count
    if version >= 2 {
        d.push(0); // flag_size
    }
    if version >= 3 {
        d.extend_from_slice(&[0, 0, 0, 0]); // base_priority + reserved
    }
    for i in 0..2u8 {
        d.extend_from_slice(&[0x40 + i; 16]);
        d.extend_from_slice(&[0, 0, 0, 1, 0]); // 40-bit size
        d.push(1); // priority
    }
    d.extend_from_slice(b"Windows\0");
    d.extend_from_slice(&[0, 1]);
    d.push(0b1100_0000);
    d
}

fn seed_pindex_min() -> Vec<u8> {
    // header: header_size, version=1, data_size, extra_header_len=0, block_count=1, [type=2,size]
    let mut block = vec![];
    block.extend_from_slice(&1u32.to_le_bytes());
    block.push(16);
    block.extend_from_slice(&[0x51; 16]);
    block.extend_from_slice(&10u32.to_le_bytes());
    block.extend_from_slice(&[0x52; 16]);
    block.extend_from_slice(&20u32.to_le_bytes());
    block.extend_from_slice(&15u32.to_le_bytes());
    block.push(1);
    block.extend_from_slice(&[0x53; 16]);
    let header_size = 14 + 4 + 8;
    let total = header_size + block.len();
    let mut d = vec![];
    d.extend_from_slice(&(header_size as u32).to_le_bytes());
    d.extend_from_slice(&1u32.to_le_bytes());
    d.extend_from_slice(&(total as u32).to_le_bytes());
    d.extend_from_slice(&0u16.to_le_bytes());
    d.extend_from_slice(&1u32.to_le_bytes());
    d.extend_from_slice(&2u32.to_le_bytes());
    d.extend_from_slice(&(block.len() as u32).to_le_bytes());
    d.extend_from_slice(&block);
    d
}

/// a well-formed patch index whose single block-2 entry uses key size `ks` (the entry is
/// 3*ks+13 bytes long, so every size field is consistent and the entry decoder is reached)
fn seed_pindex_ks(ks: u8) -> Vec<u8> {
    let mut block = vec![];
    block.extend_from_slice(&1u32.to_le_bytes());
    block.push(ks);
    block.extend(std::iter::repeat(0x5A).take(3 * ks as usize + 13));
    let header_size = 14 + 4 + 8;
    let total = header_size + block.len();
    let mut d = vec![];
    d.extend_from_slice(&(header_size as u32).to_le_bytes());
    d.extend_from_slice(&1u32.to_le_bytes());
    d.extend_from_slice(&(total as u32).to_le_bytes());
    d.extend_from_slice(&0u16.to_le_bytes());
    d.extend_from_slice(&1u32.to_le_bytes());
    d.extend_from_slice(&2u32.to_le_bytes());
    d.extend_from_slice(&(block.len() as u32).to_le_bytes());
    d.extend_from_slice(&block);
    d
}

fn seed_zbsdiff_min() -> Vec<u8> {
    use cascette_formats::zbsdiff::ZbsdiffBuilder;
    let old: Vec<u8> = (0..65536u32).map(|i| (i % 251) as u8).collect();
    let mut new = old[..4000].to_vec();
    new[100] ^= 0x55;
    new.extend_from_slice(b"tail tail tail");
    ZbsdiffBuilder::new(old, new).build().unwrap_or_default()
}

fn seed_tvfs_nested(depth: usize) -> Vec<u8> {
    // a TVFS whose path table is `depth` nested folder nodes: FF 80 00 xx xx each
    let mut path = vec![];
    for i in 0..depth {
        let remaining = (depth - i - 1) * 5 + 4; // children length + 4
        path.push(0xFF);
        path.extend_from_slice(&be32(0x8000_0000 | remaining as u32));
    }
    path
}

fn seed_idx_min() -> Vec<u8> {
    // guarded header block (size=16, hash) + 16-byte V2 header + 8 pad + guarded entry block + 2 entries
    let mut d = vec![];
    d.extend_from_slice(&16u32.to_le_bytes());
    d.extend_from_slice(&0u32.to_le_bytes());
    d.extend_from_slice(&7u16.to_le_bytes()); // version
    d.push(1); // bucket
    d.push(0); // extra
    d.push(4); // encoded_size_length
    d.push(5); // storage_offset_length
    d.push(9); // ekey_length
    d.push(30); // file_offset_bits
    d.extend_from_slice(&0x4000_0000u64.to_le_bytes()); // segment size
    d.extend_from_slice(&[0u8; 8]);
    d.extend_from_slice(&36u32.to_le_bytes());
    d.extend_from_slice(&0u32.to_le_bytes());
    for i in 0..2u8 {
        d.extend_from_slice(&[0x61 + i; 9]);
        d.extend_from_slice(&[0, 0, 0, 1, 0]);
        d.extend_from_slice(&77u32.to_le_bytes());
    }
    d
}

fn seed_shmem_v5(max_slots: u32, total: usize) -> Vec<u8> {
    let mut d = vec![0u8; total];
    d[0] = 5;
    d[2] = 1;
    // PID tracking region starts at V5_BASE_HEADER_SIZE (0x154); max_slots at +0x18
    let base = 0x154;
    if total >= base + 0x1C {
        d[base + 0x18..base + 0x1C].copy_from_slice(&max_slots.to_le_bytes());
    }
    d
}

fn seed_lru(n: usize) -> Vec<u8> {
    use cascette_client_storage::lru::lru_file::{LruFileEntry, LruFileHeader, serialize};
    let h = LruFileHeader::from_bytes(&{
        let mut b = [0u8; 0x1C];
        b[0] = 1;
        b
    });
    let entries: Vec<LruFileEntry> = (0..n).map(|_| LruFileEntry::empty()).collect();
    match h {
        Some(h) => serialize(&h, &entries),
        None => vec![0u8; 0x1C + n * 0x14],
    }
}

const ESPEC_FORMS: &[&str] = &[
    "n", "z", "z:9", "z:0", "z:10", "z:256", "z:{9,mpq}", "z:{,mpq}", "z:{6,15}", "z:{6,7}", "z:{9,zlib,15}", "z:{9,lz4hc}", "z:{}",
    "z:{9,foo}", "z:{9,mpq,16}", "z:mpq", "z:{9", "c", "c:{3}", "c:{8}", "c:{0}", "c:3", "g", "g:{12}", "g:{13}", "g:{1}",
    "e:{237DA26C65073F42,06FC152E,z}", "e:{237DA26C65073F42,06FC152E0011223344,z}", "e:{237DA26C65073F42,06FC15,z}",
    "e:{237DA26C65073F4,06FC152E,z}", "e:{237DA26C65073F42,06FG152E,z}", "e:{237DA26C65073F42,,z}", "e:{237DA26C65073F42,06FC152E",
    "e:{237DA26C65073F42,06FC152E,b:{*=e:{237DA26C65073F42,06FC152E,n}}}", "b:n", "b:z:9", "b:256K*=z", "b:*=n", "b:*", "b:256K", "b:",
    "b:{164=z,16K*565=z:{6,mpq},1M*=n}", "b:{*=z,*=n}", "b:{1G=z}", "b:{1T=z}", "b:{16K*4294967295=z}", "b:{16K*4294967296=z}",
    "b:{*5=n}", "b:{*4294967296=n}", "b:{18446744073709551615=n}", "b:{18446744073709551616=n}", "b:{18446744073709551615M=n}",
    // a size whose K/M-scaled value does not fit u64 (fix 2261323), the largest that fit, both forms
    "b:{18014398509481983K=n}", "b:{18014398509481984K=n}", "b:{17592186044415M=n}", "b:{17592186044416M=n}",
    "b:18446744073709551615K=n", "b:18014398509481984K*=n", "b:18014398509481983K*=n", "b:{1=n,18446744073709551615M*2=z}",
    "b:18446744073709551615=n", "b:{0K=n}", "b:0M*0=n",
    "b:{1M*=b:{1K*=b:{256*=z}}}", "b:{1=n,}", "b:{1=n", "b:{=n}", "b:{1K*3=n,2M=z:{9,mpq},*=c:{4}}", "x", "nn", "n}", "b:{1=n}}",
];

fn seed_root(v: u8) -> Vec<u8> {
    // v: 1 = V1 (no header), 2 = classic MFST header, 3 = extended V3, 4 = extended V4, 5 = extended V4 with 24-byte header
    let mut d = vec![];
    let n = 2u32;
    if v >= 2 {
        d.extend_from_slice(b"TSFM");
        if v >= 3 {
            d.extend_from_slice(&(if v == 5 { 24u32 } else { 20 }).to_le_bytes());
            d.extend_from_slice(&(if v == 3 { 3u32 } else { 4 }).to_le_bytes());
        }
        d.extend_from_slice(&n.to_le_bytes());
        d.extend_from_slice(&n.to_le_bytes());
        if v == 5 {
            d.extend_from_slice(&0u32.to_le_bytes());
        }
    }
    for blk in 0..2u32 {
        d.extend_from_slice(&n.to_le_bytes());
        match v {
            1 => {
                d.extend_from_slice(&0u32.to_le_bytes());
                d.extend_from_slice(&(1u32 << blk).to_le_bytes());
            }
            2 | 3 => {
                d.extend_from_slice(&(1u32 << blk).to_le_bytes());
                d.extend_from_slice(&(if blk == 1 { 0x1000_0000u32 } else { 0 }).to_le_bytes());
                d.extend_from_slice(&0u32.to_le_bytes());
                d.push(0);
            }
            _ => {
                d.extend_from_slice(&(1u32 << blk).to_le_bytes());
                d.extend_from_slice(&(if blk == 1 { 0x1000_0000u32 } else { 0 }).to_le_bytes());
                d.push(0);
                d.extend_from_slice(&0u32.to_le_bytes());
                d.push(0);
            }
        }
        let names = v == 1 || blk == 0;
        d.extend_from_slice(&(10 + blk).to_le_bytes());
        d.extend_from_slice(&0u32.to_le_bytes());
        if v == 1 {
            for r in 0..n {
                d.extend_from_slice(&[0x70 + r as u8; 16]);
                d.extend_from_slice(&(0x1122_3344_5566_7700u64 + u64::from(r)).to_le_bytes());
            }
        } else {
            for r in 0..n {
                d.extend_from_slice(&[0x70 + r as u8; 16]);
            }
            if names {
                for r in 0..n {
                    d.extend_from_slice(&(0x1122_3344_5566_7700u64 + u64::from(r)).to_le_bytes());
                }
            }
        }
    }
    d
}

const SIZE_SEED: &[u8] = &[
    b'D', b'S', 1, 9, 0, 0, 0, 1, 0, 0, 0, 0, 0, 0, 0, 0, 0, 100, 4, // header V1: 1 entry, 0 tags, total 100, esize 4 bytes
    1, 2, 3, 4, 5, 6, 7, 8, 9, 0, 0, 0, 100,
];

const BOUNDARY: [u64; 9] = [0, 1, 2, 0x100, 0x1_0000, 0xFF_FFFF, 0x8000_0000, 0xFFFF_FFFF, 0x7FFF_FFFF];

fn enc(v: u64, w: usize, be: bool) -> Vec<u8> {
    let b = v.to_le_bytes();
    let mut x: Vec<u8> = b[..w].to_vec();
    if be {
        x.reverse();
    }
    x
}

fn dec(d: &[u8], o: usize, w: usize, be: bool) -> u64 {
    let mut x = [0u8; 8];
    for i in 0..w {
        let b = *d.get(o + i).unwrap_or(&0);
        if be { x[w - 1 - i] = b } else { x[i] = b }
    }
    u64::from_le_bytes(x)
}

/// named count/size/length fields per parser: (offset from start (≥0) or from end (<0), width, big-endian)
fn fields(parser: &str) -> Vec<(i64, usize, bool)> {
    match parser {
        "archread" => vec![(0, 4, false), (4, 4, false), (12, 4, true), (16, 1, true), (17, 3, true), (20, 4, true)],
        "ipcmsg" => vec![(0, 4, true), (4, 2, true), (6, 2, true), (8, 4, true), (40, 4, true), (44, 4, true), (64, 4, true)],
        "compbackup" => vec![(0, 1, false), (1, 4, false)],
        "blte" | "tvfsblte" | "blteplain" | "encblte" => vec![(4, 4, true), (8, 1, true), (9, 3, true), (12, 4, true), (16, 4, true), (36, 4, true), (40, 4, true)],
        "encoding" => vec![(2, 1, true), (3, 1, true), (4, 1, true), (5, 2, true), (7, 2, true), (9, 4, true), (13, 4, true), (17, 1, true), (18, 4, true)],
        "aidx" | "aidxc" | "agroup" | "aidxuse" => vec![(-13, 1, false), (-20, 1, false), (-17, 1, false), (-16, 1, false), (-15, 1, false), (-14, 1, false), (-12, 4, false), (-21, 1, false), (-5, 1, false)],
        "install" => vec![(2, 1, true), (3, 1, true), (4, 2, true), (6, 4, true)],
        "download" => vec![(2, 1, true), (3, 1, true), (4, 1, true), (5, 4, true), (9, 2, true), (11, 1, true)],
        "size" => vec![(2, 1, true), (3, 1, true), (4, 4, true), (8, 2, true), (10, 4, true), (14, 1, true)],
        "pindex" | "phdr" | "phdrbuild" => vec![(0, 4, false), (4, 4, false), (8, 4, false), (12, 2, false), (14, 4, false), (14, 1, false), (18, 4, false), (22, 4, false), (26, 4, false), (30, 1, false)],
        "zbsdiff" | "zbsparse" => vec![(8, 8, false), (16, 8, false), (24, 8, false)],
        "tvfs" | "tvfsuse" => vec![(4, 1, true), (5, 1, true), (6, 1, true), (7, 1, true), (8, 4, true), (12, 4, true), (16, 4, true), (20, 4, true), (24, 4, true), (28, 4, true), (32, 2, true), (34, 4, true), (38, 4, true)],
        "root" | "rootuse" => vec![(0, 4, false), (4, 4, false), (8, 4, false), (12, 4, false), (16, 4, false), (20, 4, false), (24, 4, false), (28, 4, false), (32, 4, false), (16, 1, false), (12, 1, false), (24, 1, false), (28, 1, false)],
        "parchive" => vec![(2, 1, true), (3, 1, true), (4, 1, true), (5, 1, true), (6, 1, true), (7, 2, true), (9, 1, true), (50, 1, true), (42, 4, true), (46, 4, true), (86, 4, true), (46, 4, true)],
        "idx" => vec![(0, 4, false), (8, 2, false), (12, 1, false), (13, 1, false), (14, 1, false), (15, 1, false), (32, 4, false)],
        "shmem" => vec![(0, 1, false), (0x154 + 0x18, 4, false)],
        "lru" => vec![(0, 2, false), (2, 2, false), (20, 4, false), (24, 4, false)],
        "residency" => vec![(0, 1, false), (1, 4, false)],
        "localhdr" => vec![(0x10, 4, true), (0x14, 2, false)],
        // key-name size, first/last key-name byte, IV size, the type byte behind a 4- and an 8-byte IV
        "encchunk" => vec![(0, 1, false), (1, 1, false), (8, 1, false), (9, 1, false), (14, 1, false), (18, 1, false)],
        _ => vec![],
    }
}

fn splice_cases(c: &mut Ctx, parser: &str, sid: &str) {
    let seed = c.seeds[sid].clone();
    for (off, w, be) in fields(parser) {
        let o = if off >= 0 { off as usize } else if seed.len() as i64 + off >= 0 { (seed.len() as i64 + off) as usize } else { continue };
        if o + w > seed.len() {
            continue;
        }
        let actual = dec(&seed, o, w, be);
        let mask = if w >= 8 { u64::MAX } else { (1u64 << (8 * w)) - 1 };
        let mut vals: Vec<u64> = BOUNDARY.iter().map(|v| v & mask).collect();
        vals.push(actual.wrapping_add(1) & mask);
        vals.push(actual.wrapping_sub(1) & mask);
        vals.push(mask);
        if w == 8 {
            vals.extend_from_slice(&[1_000_000_000, 1_000_000_001, 0x8000_0000_0000_0000, seed.len() as u64, 999_999_999]);
        }
        if w == 1 && seed.len() <= 8192 {
            vals.extend(0..=255u64); // every value of a one-byte field (sums of widths wrap at 256)
        } else if w == 1 {
            vals.extend_from_slice(&[7, 8, 9, 15, 16, 17, 0x7F, 0x80, 0xFE]);
        }
        vals.sort_unstable();
        vals.dedup();
        if c.quick && seed.len() > 100_000 {
            // quick tier, very large seed (the 150 KB nested-folder TVFS; the model copies the rest of the
            // table per level): two values per field
            vals = vec![mask, actual.wrapping_add(1) & mask];
        }
        for v in vals {
            if v == actual {
                continue;
            }
            c.case(parser, sid, &[Edit::Put(o, enc(v, w, be))], "splice");
        }
    }
}

fn mutate_cases(c: &mut Ctx, rng: &mut Rng, parser: &str, sid: &str, n: usize) {
    let len = c.seeds[sid].len();
    for _ in 0..n {
        let mut edits = vec![];
        match rng.below(8) {
            0 => edits.push(Edit::Trunc(rng.below(len as u64 + 1) as usize)),
            1 => edits.push(Edit::Trunc(rng.below(len.min(64) as u64 + 1) as usize)),
            2 => {
                // overwrite a block with 0xFF / 0x00 / random
                let o = rng.below(len.max(1) as u64) as usize;
                let l = rng.range(1, 16) as usize;
                let b = match rng.below(3) {
                    0 => vec![0xFF; l],
                    1 => vec![0x00; l],
                    _ => rng.bytes(l),
                };
                edits.push(Edit::Put(o, b));
            }
            3 => {
                // header-biased byte flips
                for _ in 0..rng.range(1, 3) {
                    let o = rng.below(len.min(48).max(1) as u64) as usize;
                    edits.push(Edit::Put(o, vec![rng.byte()]));
                }
            }
            4 => {
                // tail-biased byte flips (footers)
                for _ in 0..rng.range(1, 3) {
                    let o = len.saturating_sub(1 + rng.below(len.min(40).max(1) as u64) as usize);
                    edits.push(Edit::Put(o, vec![rng.byte()]));
                }
            }
            5 => {
                let o = rng.below(len.max(1) as u64) as usize;
                edits.push(Edit::Put(o, vec![rng.byte()]));
                let n = rng.range(0, 24) as usize;
                edits.push(Edit::App(rng.bytes(n)));
            }
            6 => {
                // boundary word anywhere in the first 64 bytes
                let o = rng.below(len.min(64).max(1) as u64) as usize;
                let w = *rng.pick(&[1usize, 2, 3, 4, 8]);
                let v = *rng.pick(&BOUNDARY);
                edits.push(Edit::Put(o, enc(v, w.min(8), rng.chance(1, 2))));
            }
            _ => {
                edits.push(Edit::Trunc(rng.below(len as u64 + 1) as usize));
                let n = rng.range(1, 40) as usize;
                edits.push(Edit::App(rng.bytes(n)));
            }
        }
        c.case(parser, sid, &edits, "mutate");
    }
}

fn load_fixture_seeds(c: &mut Ctx, thorough: bool) -> Vec<(String, String)> {
    // (parser, seed id)
    let root = std::path::Path::new("/repo/crates/cascette-formats/test_fixtures");
    let mut out = vec![];
    let map: &[(&str, &[&str], &str)] = &[
        ("patch_index", &["pindex", "phdr", "phdrbuild"], ".bin"),
        ("root", &["root", "rootuse"], ".root"),
        ("install", &["install"], ".install"),
        ("tvfs", &["tvfs", "tvfsuse"], ".bin"),
        ("tvfs", &["tvfsblte", "blte", "blteplain"], ".blte"),
        ("encoding", &["encoding"], ".bin"),
        ("patch_archive", &["parchive"], ".bin"),
        ("zbsdiff", &["zbsdiff", "zbsparse"], ".zbsdiff"),
        ("archive", &["aidx", "aidxc", "aidxuse"], ".index"),
        ("config", &["cfgbuild", "cfgcdn", "cfgpatch"], "build_config.txt"),
        ("config", &["cfgkeyring"], "keyring_config.txt"),
    ];
    for (dir, parsers, suffix) in map {
        let mut files: Vec<_> = std::fs::read_dir(root.join(dir)).map(|r| r.filter_map(|e| e.ok()).map(|e| e.path()).collect()).unwrap_or_default();
        files.sort();
        let mut taken = 0;
        for f in files {
            let name = f.file_name().and_then(|n| n.to_str()).unwrap_or("").to_string();
            if !name.ends_with(suffix) {
                continue;
            }
            let data = std::fs::read(&f).unwrap_or_default();
            // quick tier: at most two fixtures per directory and none above 64 KiB (stream budget)
            if !thorough && (taken >= 2 || data.len() > 64 * 1024) {
                continue;
            }
            taken += 1;
            let stem: String = name.chars().filter(|ch| ch.is_ascii_alphanumeric()).take(24).collect();
            let id = format!("fx_{dir}_{stem}");
            c.seed(&id, data);
            for p in *parsers {
                out.push((p.to_string(), id.clone()));
            }
        }
    }
    out
}

fn hand_seeds(c: &mut Ctx) -> Vec<(String, String)> {
    let mut out: Vec<(String, String)> = vec![];
    let mut add = |c: &mut Ctx, parsers: &[&str], id: &str, d: Vec<u8>| {
        c.seed(id, d);
        for p in parsers {
            out.push((p.to_string(), id.to_string()));
        }
    };
    // BLTE
    let mut single_n = b"BLTE\0\0\0\0N".to_vec();
    single_n.extend_from_slice(b"hello world");
    add(c, &["blte", "blteplain"], "blte_single_n", single_n);
    let lz: Vec<u8> = {
        use cascette_formats::CascFormat;
        cascette_formats::blte::BlteFile::compress(&vec![7u8; 300], 1 << 20, cascette_formats::blte::CompressionMode::LZ4).ok().and_then(|b| b.build().ok()).unwrap_or_default()
    };
    add(c, &["blte", "blteplain"], "blte_single_lz4", lz);
    let z: Vec<u8> = {
        use cascette_formats::CascFormat;
        cascette_formats::blte::BlteFile::compress(&vec![9u8; 3000], 1000, cascette_formats::blte::CompressionMode::ZLib).ok().and_then(|b| b.build().ok()).unwrap_or_default()
    };
    add(c, &["blte", "blteplain"], "blte_multi_z", z);
    add(c, &["blte"], "blte_multi_n_std", seed_blte_multi(0x0F, &[b"Nabcdef", b"Nxyz"]));
    add(c, &["blte", "blteplain"], "blte_multi_n_ext", seed_blte_multi(0x10, &[b"Nabcdef", b"Nxyz"]));
    let mut lz4chunk = b"4".to_vec();
    lz4chunk.extend_from_slice(&5u64.to_le_bytes());
    lz4chunk.extend_from_slice(&[0x50, b'a', b'b', b'c', b'd', b'e']);
    add(c, &["blte", "blteplain"], "blte_multi_lz4", seed_blte_multi(0x0F, &[&lz4chunk, b"Nq"]));
    let mut enc_chunk = b"E".to_vec();
    enc_chunk.extend_from_slice(&[8, 1, 2, 3, 4, 5, 6, 7, 8, 4, 9, 9, 9, 9, 0x53, 1, 2, 3]);
    add(c, &["blte", "blteplain"], "blte_multi_enc", seed_blte_multi(0x0F, &[&enc_chunk]));
    // encrypted chunks naming keys that ARE in the key store (`key_store()`), 4- and 8-byte IV,
    // Salsa20 and ARC4, inner mode N and Z; directly and inside a BLTE file
    {
        let zin: Vec<u8> = {
            let mut z = b"Z".to_vec();
            z.extend_from_slice(&cascette_formats::blte::compress_chunk(&[7u8; 200], cascette_formats::blte::CompressionMode::ZLib).unwrap_or_default());
            z
        };
        let forms: [(&str, u64, &[u8], u8, &[u8]); 5] = [
            ("s4n", KEY_BUILTIN, &[1, 2, 3, 4], 0x53, b"Nhello encrypted"),
            ("s8n", KEY_BUILTIN, &[1, 2, 3, 4, 5, 6, 7, 8], 0x53, b"Nhello encrypted"),
            ("s8z", KEY_ADDED, &[9, 8, 7, 6, 5, 4, 3, 2], 0x53, &zin),
            ("a4n", KEY_ADDED, &[1, 2, 3, 4], 0x41, b"Nhello encrypted"),
            ("s8e", KEY_BUILTIN, &[1, 2, 3, 4, 5, 6, 7, 8], 0x53, b""),
        ];
        for (tag, name, iv, et, plain) in forms {
            let p = enc_wellformed(name, iv, et, plain, 0);
            let mut chunk = b"E".to_vec();
            chunk.extend_from_slice(&p);
            add(c, &["encchunk"], &format!("encchunk_{tag}"), p);
            add(c, &["blte"], &format!("blte_enc_{tag}"), seed_blte_multi(0x0F, &[&chunk]));
        }
    }
    // encoding
    add(c, &["encoding"], "enc_min", seed_encoding_min());
    {
        // the same file BLTE-wrapped: one raw chunk, and two raw chunks behind a chunk table
        let e = seed_encoding_min();
        let mut one = b"BLTE\0\0\0\0N".to_vec();
        one.extend_from_slice(&e);
        add(c, &["encblte"], "encblte_single", one);
        let (a, b) = e.split_at(1000);
        let (mut ca, mut cb) = (b"N".to_vec(), b"N".to_vec());
        ca.extend_from_slice(a);
        cb.extend_from_slice(b);
        add(c, &["encblte", "blteplain"], "encblte_multi", seed_blte_multi(0x0F, &[&ca, &cb]));
    }
    // install / download / size
    add(c, &["install"], "install_min", seed_install_min());
    add(c, &["download"], "dl_v1", seed_download_min(1));
    add(c, &["download"], "dl_v2", seed_download_min(2));
    add(c, &["download"], "dl_v3", seed_download_min(3));
    let size_seed: Vec<u8> = SIZE_SEED.to_vec();
    add(c, &["size"], "size_min", size_seed);
    // patch index
    add(c, &["pindex", "phdr", "phdrbuild"], "pindex_min", seed_pindex_min());
    for ks in [0u8, 1, 9, 15, 17, 32, 255] {
        add(c, &["pindex"], &format!("pindex_ks{ks}"), seed_pindex_ks(ks));
    }
    // zbsdiff
    add(c, &["zbsdiff", "zbsparse"], "zbs_min", seed_zbsdiff_min());
    // archive index: 28 zero bytes with a self-consistent footer shape is produced by splicing;
    // the pristine footer of a real builder output:
    let aidx: Vec<u8> = {
        let mut b = cascette_formats::archive::ArchiveIndexBuilder::new();
        for i in 0..5u8 {
            b.add_entry(vec![i + 1; 16], 100 + u32::from(i), u64::from(i) * 4096);
        }
        let mut cur = Cursor::new(Vec::new());
        b.build(&mut cur).map(|_| cur.into_inner()).unwrap_or_default()
    };
    add(c, &["aidx", "aidxc", "agroup", "aidxuse"], "aidx_built", aidx);
    add(c, &["aidx", "aidxc"], "aidx_zero28", vec![0u8; 28]);
    add(c, &["aidx", "aidxc"], "aidx_zero40", vec![0u8; 40]);
    // tvfs: nested-folder path tables inside the smallest header
    for depth in [4usize, 2000, 30000] {
        let path = seed_tvfs_nested(depth);
        let mut d = b"TVFS".to_vec();
        d.extend_from_slice(&[1, 38, 9, 9]); // format_version, header_size, ekey_size, pkey_size
        d.extend_from_slice(&be32(0)); // flags
        d.extend_from_slice(&be32(38)); // path_table_offset
        d.extend_from_slice(&be32(path.len() as u32));
        d.extend_from_slice(&be32(38 + path.len() as u32)); // vfs offset
        d.extend_from_slice(&be32(0));
        d.extend_from_slice(&be32(38 + path.len() as u32)); // cft offset
        d.extend_from_slice(&be32(0));
        d.extend_from_slice(&[0, 16]); // max depth
        d.extend_from_slice(&path);
        if depth == 4 {
            add(c, &["tvfs", "tvfsuse"], &format!("tvfs_nest{depth}"), d);
        } else {
            add(c, &["tvfs"], &format!("tvfs_nest{depth}"), d);
        }
    }
    // text formats
    add(c, &["bpsv", "buildinfo", "bpsvbytes"], "bpsv_min", b"Region!STRING:0|BuildId!DEC:4|Key!HEX:16\n## seqn = 12\nus|123|00112233445566778899aabbccddeeff\n".to_vec());
    add(c, &["buildinfo"], "buildinfo_min", b"Branch!STRING:0|Active!DEC:1|Build Key!HEX:16|CDN Key!HEX:16|Install Key!HEX:16|IM Size!DEC:4|CDN Path!STRING:0|CDN Hosts!STRING:0|CDN Servers!STRING:0|Tags!STRING:0|Armadillo!STRING:0|Last Activated!STRING:0|Version!STRING:0|Product!STRING:0\nus|1|00112233445566778899aabbccddeeff|00112233445566778899aabbccddeeff|00112233445566778899aabbccddeeff|5|tpr/wow|a.b c.d|http://a/?maxhosts=4|Windows x86_64 US? enUS speech?:Windows x86_64 US? enUS text?||2024-01-01T00:00:00Z|1.15.7.60000|wow_classic_era\n".to_vec());
    add(c, &["espec", "especbytes"], "espec_block", b"b:{164=z,16K*565=z:{6,mpq},1M*=n}".to_vec());
    add(c, &["espec", "especbytes"], "espec_enc", b"e:{237DA26C65073F42,06FC152E,z}".to_vec());
    add(c, &["espec"], "espec_nest", b"b:{1M*=b:{1K*=b:{256*=z}}}".to_vec());
    add(c, &["cfgproduct"], "product_min", br#"{"all":{"config":{"product":"wow","supported_locales":["enUS"]}},"platform":{"win":{"config":{"binaries":{"game":{"relative_path":"Wow.exe"}}}}}}"#.to_vec());
    add(c, &["cfgcdn"], "cdn_min", b"# CDN Configuration\n\narchives = 0017a402f556fbece46c38dc431a2c9b 00b79cc0eebdd26437c7e92e57ac7f5c\narchives-index-size = 173068 53588\narchive-group = 00872b40344ef1a3dac4aff09588603c\nfile-index = 00872b40344ef1a3dac4aff09588603c\nfile-index-size = 41228\n".to_vec());
    add(c, &["cfgpatch"], "patchcfg_min", b"# Patch Configuration\n\npatch = 00112233445566778899aabbccddeeff\npatch-size = 1234\npatch-entry = encoding 00112233445566778899aabbccddeeff 10 00112233445566778899aabbccddeeff 20 b:{*=z} 00112233445566778899aabbccddeeff 5 00112233445566778899aabbccddeeff 7\n".to_vec());
    let mime = b"MIME-Version: 1.0\r\nContent-Type: multipart/alternative; boundary=\"abc\"\r\n\r\n--abc\r\nContent-Type: text/plain\r\nContent-Disposition: version\r\n\r\nRegion!STRING:0|BuildId!DEC:4\n## seqn = 1\nus|5\n\r\n--abc--\r\nChecksum: 0123456789abcdef0123456789abcdef0123456789abcdef0123456789abcdef\r\n".to_vec();
    add(c, &["mime", "mimebpsv", "mimesniff", "mimesniff1", "mimev1"], "mime_min", mime);
    // complete replies whose epilogue carries the RIGHT checksum (the MIME body behind it is reached):
    // multipart and plain, CRLF / LF / no terminator
    add(c, &["mime", "mimebpsv", "mimesniff", "mimesniff1", "mimev1"], "mime_ok_multi", mime_with_checksum(MIME_MULTIPART, b"\r\n"));
    add(c, &["mime", "mimebpsv", "mimesniff", "mimesniff1", "mimev1"], "mime_ok_plain", mime_with_checksum(MIME_PLAIN, b"\n"));
    add(c, &["mime", "mimebpsv"], "mime_ok_noterm", mime_with_checksum(MIME_PLAIN, b""));
    // a multi-byte character straddling byte 512 (the repaired [..512] site)
    let mut m2 = vec![b'a'; 511];
    m2.extend_from_slice("é content-type: multipart/mixed".as_bytes());
    add(c, &["mime", "mimebpsv", "mimesniff", "mimesniff1", "mimev1"], "mime_utf8_512", m2);
    // client storage
    add(c, &["idx"], "idx_min", seed_idx_min());
    add(c, &["updsec"], "updsec_zero", vec![0u8; 1024]);
    add(c, &["updsec"], "updsec_ff", vec![0xFFu8; 1024]);
    let mut res = vec![0u8];
    res.extend_from_slice(&1u32.to_le_bytes());
    res.extend_from_slice(&[0u8; 1024]);
    add(c, &["residency"], "res_min", res);
    add(c, &["respage"], "respage_zero", vec![0u8; 1024]);
    add(c, &["lru"], "lru_4", seed_lru(4));
    add(c, &["shmem"], "shmem_v4", {
        let mut d = vec![0u8; 0x150];
        d[0] = 4;
        d
    });
    add(c, &["shmem"], "shmem_v5", seed_shmem_v5(2, 0x154 + 0x1C + 16));
    add(c, &["shmem"], "shmem_v5_big", seed_shmem_v5(2, 0x400));
    for (i, sz) in [0u32, 1, 29, 30, 31, 0xFFFF_FFFF].iter().enumerate() {
        let mut d = vec![0x11u8; 30];
        d[0x10..0x14].copy_from_slice(&be32(*sz));
        add(c, &["localhdr"], &format!("localhdr_sz{i}"), d);
    }
    // root: hand-framed V1 / classic V2 / extended V3, V4 (header 20 and 24 bytes)
    for v in 1..=5u8 {
        add(c, &["root", "rootuse"], &format!("root_v{v}"), seed_root(v));
    }
    // patch archive: builder output and a hand-framed header with the extended (encoding info) header
    {
        let mut b = cascette_formats::patch_archive::PatchArchiveBuilder::new();
        b.add_file_entry([2; 16], 1000, vec![([1; 16], 500, [3; 16], 200, 0)]);
        b.add_file_entry([4; 16], 2000, vec![([5; 16], 700, [6; 16], 300, 1), ([7; 16], 800, [8; 16], 400, 2)]);
        if let Ok(d) = b.build() {
            add(c, &["parchive"], "pa_built", d);
        }
        let mut d = b"PA".to_vec();
        d.extend_from_slice(&[2, 16, 16, 16, 16, 0, 1, 2]); // version, 3 key sizes, bits, block_count=1, flags=2
        d.extend_from_slice(&[0xA1; 16]);
        d.extend_from_slice(&[0xA2; 16]);
        d.extend_from_slice(&be32(100));
        d.extend_from_slice(&be32(80));
        d.push(3);
        d.extend_from_slice(b"b:n");
        d.extend_from_slice(&[0xB1; 16]); // block table: last ckey, md5, offset
        d.extend_from_slice(&[0xB2; 16]);
        let off = d.len() as u32 + 4;
        d.extend_from_slice(&be32(off));
        d.push(0); // sentinel
        add(c, &["parchive"], "pa_ext", d);
    }
    // inventory round: the entry points no other seed reaches
    {
        // patch-archive payloads: `<compression info> 0x00 <data>`
        let zl = cascette_formats::zbsdiff::compress_zlib(b"hello hello hello").unwrap_or_default();
        let mut z = b"z\0".to_vec();
        z.extend_from_slice(&zl);
        add(c, &["padecomp"], "pad_z", z);
        add(c, &["padecomp"], "pad_n", b"n\0hello".to_vec());
        add(c, &["padecomp"], "pad_block", b"b:{2=n,*=n}\0abcdef".to_vec());
        let mut bz = b"{2=n,*=z}\0ab".to_vec();
        bz.extend_from_slice(&zl);
        add(c, &["padecomp"], "pad_braces", bz);
        add(c, &["padecomp"], "pad_count", b"b:{1=n,2*2=n,16K*=n}\0abcdefghij".to_vec());
        // shmem IPC messages: one per message type (payload reader selected by the type field)
        let ipc = |ty: u16, payload: &[u8]| -> Vec<u8> {
            let mut d = 0x4341_5343u32.to_be_bytes().to_vec();
            d.extend_from_slice(&1u16.to_be_bytes());
            d.extend_from_slice(&ty.to_be_bytes());
            d.extend_from_slice(&(payload.len() as u32).to_be_bytes());
            d.extend_from_slice(&7u64.to_be_bytes());
            d.extend_from_slice(&1_700_000_000u64.to_be_bytes());
            d.extend_from_slice(&[0u8; 8]);
            d.extend_from_slice(payload);
            d
        };
        let mut p1 = vec![0, 1, 0, 0];
        p1.extend_from_slice(&7u32.to_be_bytes());
        p1.extend_from_slice(b"a/b.txt");
        add(c, &["ipcmsg"], "ipc_file_request", ipc(1, &p1));
        let mut p2 = vec![0, 0, 0, 0];
        p2.extend_from_slice(&5u32.to_be_bytes());
        p2.extend_from_slice(&5u32.to_be_bytes());
        p2.extend_from_slice(&[0x33; 16]);
        p2.extend_from_slice(b"hello");
        add(c, &["ipcmsg"], "ipc_file_response", ipc(2, &p2));
        let mut p3 = vec![1, 0, 0, 0];
        p3.extend_from_slice(&3u32.to_be_bytes());
        p3.extend_from_slice(b"wow");
        add(c, &["ipcmsg"], "ipc_status_request", ipc(3, &p3));
        let mut p4 = vec![0, 1, 0, 0];
        p4.extend_from_slice(&1000u64.to_be_bytes());
        p4.extend_from_slice(&10u64.to_be_bytes());
        p4.extend_from_slice(&3u32.to_be_bytes());
        p4.extend_from_slice(&60u32.to_be_bytes());
        p4.extend_from_slice(&2u32.to_be_bytes());
        p4.extend_from_slice(b"ok");
        add(c, &["ipcmsg"], "ipc_status_response", ipc(4, &p4));
        add(c, &["ipcmsg"], "ipc_keepalive", ipc(5, &[0u8; 24]));
        add(c, &["ipcmsg"], "ipc_error", ipc(0xFFFF, b"raw bytes"));
        // archive reads as an index entry asks for them: [offset][size][archive = one BLTE file]
        let mut ar = 0u32.to_le_bytes().to_vec();
        let blte = seed_blte_multi(0x0F, &[b"Nabcdef", b"Nxyz"]);
        ar.extend_from_slice(&(blte.len() as u32).to_le_bytes());
        ar.extend_from_slice(&blte);
        add(c, &["archread"], "archread_blte", ar);
        // names in the index directory
        add(c, &["idxname"], "idxname_ok", b"0100000001.idx".to_vec());
        add(c, &["idxname"], "idxname_upper", b"0A0000000B.IDX".to_vec());
        add(c, &["idxname"], "idxname_utf8_2", "0\u{e9}0000000.idx".as_bytes().to_vec());
        add(c, &["idxname"], "idxname_utf8_3", "\u{20ac}0000000.idx".as_bytes().to_vec());
        add(c, &["idxname"], "idxname_utf8_mid", "010000\u{e9}00.idx".as_bytes().to_vec());
        add(c, &["idxname"], "idxname_utf8_4", "0\u{1F600}00000.idx".as_bytes().to_vec());
        // segment header (16 local headers), compaction backup
        add(c, &["seghdr"], "seghdr_11", vec![0x11u8; 480]);
        add(c, &["seghdr"], "seghdr_zero", vec![0u8; 480]);
        let mut bu = vec![1u8];
        bu.extend_from_slice(&3u32.to_le_bytes());
        for v in [5u32, 6, 0xFFFF_FFFF] {
            bu.extend_from_slice(&v.to_le_bytes());
        }
        add(c, &["compbackup"], "compbackup_3", bu);
    }
    // ESpec grammar: valid and invalid forms of every production, nesting at the limit
    for (i, e) in ESPEC_FORMS.iter().enumerate() {
        add(c, &["espec"], &format!("espec_f{i}"), e.as_bytes().to_vec());
    }
    for n in [62usize, 63, 64, 65, 30000] {
        let mut e = "b:".repeat(n);
        e.push('n');
        add(c, &["espec"], &format!("espec_b{n}"), e.into_bytes());
    }
    for n in [63usize, 64] {
        let mut e = "e:{237DA26C65073F42,06FC152E,".repeat(n);
        e.push('n');
        e.push_str(&"}".repeat(n));
        add(c, &["espec"], &format!("espec_e{n}"), e.into_bytes());
        let mut e = "b:{*=".repeat(n);
        e.push('z');
        e.push_str(&"}".repeat(n));
        add(c, &["espec"], &format!("espec_bb{n}"), e.into_bytes());
    }
    // residency db: page counts far beyond the file
    for (i, cnt) in [0u32, 1, 2, 0xFFFF_FFFF].iter().enumerate() {
        let mut d = vec![3u8];
        d.extend_from_slice(&cnt.to_le_bytes());
        d.extend_from_slice(&[0u8; 2048]);
        d.push(1);
        d.extend_from_slice(&1u32.to_le_bytes());
        add(c, &["residency"], &format!("res_cnt{i}"), d);
    }
    add(c, &["lru"], "lru_0", seed_lru(0));
    add(c, &["lru"], "lru_20", seed_lru(20));
    add(c, &["localhdr"], "localhdr_min", {
        let mut d = vec![0x77u8; 30];
        d[0x10..0x14].copy_from_slice(&be32(130));
        d
    });
    out
}


// ---- SHA-256 (FIPS 180-4), for V1 MIME epilogues whose checksum is the right one ---------------
fn sha256(msg: &[u8]) -> [u8; 32] {
    const K: [u32; 64] = [
        0x428a2f98, 0x71374491, 0xb5c0fbcf, 0xe9b5dba5, 0x3956c25b, 0x59f111f1, 0x923f82a4, 0xab1c5ed5, 0xd807aa98, 0x12835b01,
        0x243185be, 0x550c7dc3, 0x72be5d74, 0x80deb1fe, 0x9bdc06a7, 0xc19bf174, 0xe49b69c1, 0xefbe4786, 0x0fc19dc6, 0x240ca1cc,
        0x2de92c6f, 0x4a7484aa, 0x5cb0a9dc, 0x76f988da, 0x983e5152, 0xa831c66d, 0xb00327c8, 0xbf597fc7, 0xc6e00bf3, 0xd5a79147,
        0x06ca6351, 0x14292967, 0x27b70a85, 0x2e1b2138, 0x4d2c6dfc, 0x53380d13, 0x650a7354, 0x766a0abb, 0x81c2c92e, 0x92722c85,
        0xa2bfe8a1, 0xa81a664b, 0xc24b8b70, 0xc76c51a3, 0xd192e819, 0xd6990624, 0xf40e3585, 0x106aa070, 0x19a4c116, 0x1e376c08,
        0x2748774c, 0x34b0bcb5, 0x391c0cb3, 0x4ed8aa4a, 0x5b9cca4f, 0x682e6ff3, 0x748f82ee, 0x78a5636f, 0x84c87814, 0x8cc70208,
        0x90befffa, 0xa4506ceb, 0xbef9a3f7, 0xc67178f2,
    ];
    let mut h: [u32; 8] = [0x6a09e667, 0xbb67ae85, 0x3c6ef372, 0xa54ff53a, 0x510e527f, 0x9b05688c, 0x1f83d9ab, 0x5be0cd19];
    let mut p = msg.to_vec();
    p.push(0x80);
    while p.len() % 64 != 56 {
        p.push(0);
    }
    p.extend_from_slice(&((msg.len() as u64) * 8).to_be_bytes());
    for blk in p.chunks(64) {
        let mut w = [0u32; 64];
        for i in 0..16 {
            w[i] = u32::from_be_bytes([blk[4 * i], blk[4 * i + 1], blk[4 * i + 2], blk[4 * i + 3]]);
        }
        for i in 16..64 {
            let s0 = w[i - 15].rotate_right(7) ^ w[i - 15].rotate_right(18) ^ (w[i - 15] >> 3);
            let s1 = w[i - 2].rotate_right(17) ^ w[i - 2].rotate_right(19) ^ (w[i - 2] >> 10);
            w[i] = w[i - 16].wrapping_add(s0).wrapping_add(w[i - 7]).wrapping_add(s1);
        }
        let mut v = h;
        for i in 0..64 {
            let s1 = v[4].rotate_right(6) ^ v[4].rotate_right(11) ^ v[4].rotate_right(25);
            let ch = (v[4] & v[5]) ^ (!v[4] & v[6]);
            let t1 = v[7].wrapping_add(s1).wrapping_add(ch).wrapping_add(K[i]).wrapping_add(w[i]);
            let s0 = v[0].rotate_right(2) ^ v[0].rotate_right(13) ^ v[0].rotate_right(22);
            let maj = (v[0] & v[1]) ^ (v[0] & v[2]) ^ (v[1] & v[2]);
            let t2 = s0.wrapping_add(maj);
            v = [t1.wrapping_add(t2), v[0], v[1], v[2], v[3].wrapping_add(t1), v[4], v[5], v[6]];
        }
        for i in 0..8 {
            h[i] = h[i].wrapping_add(v[i]);
        }
    }
    let mut out = [0u8; 32];
    for i in 0..8 {
        out[4 * i..4 * i + 4].copy_from_slice(&h[i].to_be_bytes());
    }
    out
}

const MIME_MULTIPART: &[u8] = b"MIME-Version: 1.0\r\nContent-Type: multipart/alternative; boundary=\"abc\"\r\n\r\n--abc\r\nContent-Type: text/plain\r\nContent-Disposition: version\r\n\r\nRegion!STRING:0|BuildId!DEC:4\n## seqn = 1\nus|5\n\r\n--abc--\r\n";
const MIME_PLAIN: &[u8] = b"Content-Type: text/plain\r\n\r\nRegion!STRING:0|BuildId!DEC:4\n## seqn = 1\nus|5\n";
const MIME_PARSERS: [&str; 3] = ["mime", "mimebpsv", "mimesniff"];

/// a V1 reply: `message` followed by the epilogue line carrying ITS SHA-256 (the checksum passes,
/// so the MIME body behind it is reached)
fn mime_with_checksum(message: &[u8], term: &[u8]) -> Vec<u8> {
    let mut d = message.to_vec();
    d.extend_from_slice(b"Checksum: ");
    d.extend_from_slice(hex(&sha256(message)).as_bytes());
    d.extend_from_slice(term);
    d
}

/// V1 MIME epilogue family: after each message, a `Checksum: ` line whose content has EVERY length
/// 0..=80 (the digest is 64), ending the input with no terminator / LF / CRLF / a bare CR / more data
/// behind it, filled with hex digits (for length 64: the right digest, and a wrong one), hex digits
/// with a non-hex last character, or bytes that `from_utf8_lossy` expands. Together with the
/// truncation of the complete replies at every byte offset (section 3) this is "a reply cut off
/// anywhere while the epilogue line was arriving", through all three entry points.
fn mime_epilogue_cases(c: &mut Ctx, thorough: bool) {
    let two = mime_with_checksum(MIME_PLAIN, b"\r\n");
    let bases: [(&str, Vec<u8>); 4] =
        [("mimeb_multi", MIME_MULTIPART.to_vec()), ("mimeb_plain", MIME_PLAIN.to_vec()), ("mimeb_none", vec![]), ("mimeb_two", two)];
    let maxl = if thorough { 140 } else { 80 };
    for (id, base) in bases {
        let digest = hex(&sha256(&base));
        c.seed(id, base);
        for l in 0..=maxl {
            // fill kinds: 0 = digest characters (cycled), 1 = the same with a non-hex last character,
            // 2 = 0xFF bytes (each becomes a 3-byte U+FFFD in the lossy string), 3 = a wrong digest
            for fill in 0..4u8 {
                if fill == 3 && l != 64 {
                    continue;
                }
                let mut content: Vec<u8> = match fill {
                    2 => vec![0xFF; l],
                    3 => vec![b'0'; l],
                    _ => digest.as_bytes().iter().cycle().take(l).copied().collect(),
                };
                if fill == 1 {
                    if let Some(x) = content.last_mut() {
                        *x = b'g';
                    }
                }
                let terms: &[&[u8]] = if fill == 0 { &[b"", b"\n", b"\r\n", b"\r", b"\r\n\r\n--abc--\r\n"] } else { &[b"", b"\n", b"\r\n"] };
                for term in terms {
                    let mut line = b"Checksum: ".to_vec();
                    line.extend_from_slice(&content);
                    line.extend_from_slice(term);
                    for p in MIME_PARSERS {
                        c.case(p, id, &[Edit::App(line.clone())], "mime-epilogue");
                    }
                    c.s.tally(&format!("mime-epilogue:len{}", if l < 54 { "<54" } else if l < 64 { "54..63" } else if l == 64 { "64" } else { ">64" }));
                }
            }
        }
    }
}

/// `[key_name_size][key name LE][iv_size][IV …][type][ciphertext]`, cut or zero-padded to `total`
/// bytes: the payload of an encrypted chunk (without the 'E' mode byte). The type byte sits where
/// the decoder looks for it behind an IV of min(iv_size, 16) bytes.
fn enc_payload(kns: u8, key: u64, ivs: u8, et: u8, total: usize) -> Vec<u8> {
    let mut d = vec![kns];
    d.extend_from_slice(&key.to_le_bytes());
    d.push(ivs);
    d.extend((0..ivs.min(16)).map(|i| 0x11 + i));
    d.push(et);
    d.extend((0..48u8).map(|i| 0xC0 ^ i));
    d.resize(total, 0);
    d
}

/// how far `decrypt_chunk_with_keys` gets on a payload (input-distribution tally only; the verdict
/// itself is predicted by the Lean front end `Blte.encFront`)
fn enc_stage(d: &[u8]) -> &'static str {
    if d.len() < 16 {
        return "floor";
    }
    if d[0] != 8 {
        return "key-name-size";
    }
    let mut n = [0u8; 8];
    n.copy_from_slice(&d[1..9]);
    if key_store().get(u64::from_le_bytes(n)).is_none() {
        return "key-unknown";
    }
    let iv = d[9] as usize;
    if iv != 4 && iv != 8 {
        return "known-key:iv-size";
    }
    if d.len() < 10 + iv {
        return "known-key:iv-short";
    }
    if d.len() < 11 + iv {
        return "known-key:type-short";
    }
    match d[10 + iv] {
        0x53 | 0x41 => "known-key:decrypt",
        _ => "known-key:type-unknown",
    }
}

/// encrypted-chunk header family: key names that ARE in the key store (built-in, added) and that
/// are not × iv_size {0,1,4,8,9,255} × type {Salsa20, ARC4, unknown} × EVERY payload length 0..=40,
/// plus key-name sizes other than 8; each payload decoded directly (`decrypt_chunk_with_keys`) and
/// as the single chunk / the second chunk of a BLTE file (`BlteFile::parse` + `decompress_with_keys`).
fn enc_header_cases(c: &mut Ctx, thorough: bool) {
    let maxl = if thorough { 64 } else { 40 };
    let mut combos: Vec<(u8, u64, u8, u8)> = vec![];
    for key in [KEY_BUILTIN, KEY_ADDED, KEYS_UNKNOWN[0], KEYS_UNKNOWN[1]] {
        for ivs in [0u8, 1, 4, 8, 9, 255] {
            for et in [0x53u8, 0x41, 0x00] {
                combos.push((8, key, ivs, et));
            }
        }
    }
    for kns in [0u8, 7, 9, 255] {
        for ivs in [4u8, 8] {
            combos.push((kns, KEY_BUILTIN, ivs, 0x53));
        }
    }
    for (kns, key, ivs, et) in combos {
        for l in 0..=maxl {
            let p = enc_payload(kns, key, ivs, et, l);
            c.s.tally(&format!("enc-stage:{}", enc_stage(&p)));
            c.case("encchunk", "empty", &[Edit::App(p.clone())], "enc-header");
            let mut chunk = b"E".to_vec();
            chunk.extend_from_slice(&p);
            c.case("blte", "empty", &[Edit::App(seed_blte_multi(0x0F, &[&chunk]))], "enc-header");
            if ivs == 8 || thorough {
                // second chunk: block index 1 enters the Salsa20 nonce
                c.case("blte", "empty", &[Edit::App(seed_blte_multi(0x10, &[b"Nab", &chunk]))], "enc-header");
            }
        }
    }
}

/// a well-formed encrypted chunk payload: `plain` (mode byte + data) under Salsa20 / ARC4 with the
/// key `name` of the key store and a 4- or 8-byte IV
fn enc_wellformed(name: u64, iv: &[u8], et: u8, plain: &[u8], index: usize) -> Vec<u8> {
    let ks = key_store();
    let key = ks.get(name).copied().unwrap_or([0; 16]);
    let ct = if et == 0x53 {
        cascette_crypto::salsa20::encrypt_salsa20(plain, &key, iv, index).unwrap_or_default()
    } else {
        cascette_crypto::Arc4Cipher::new(&key).map(|mut a| a.encrypt(plain)).unwrap_or_default()
    };
    let mut d = vec![8];
    d.extend_from_slice(&name.to_le_bytes());
    d.push(iv.len() as u8);
    d.extend_from_slice(iv);
    d.push(et);
    d.extend_from_slice(&ct);
    d
}

// ---------------------------------------------------------------------------------------------
// recursion families: EVERY recursive production of every recursive grammar, nested across the
// parser's own limit and far beyond it (the worker's parsing thread has a 1 MiB stack)
// ---------------------------------------------------------------------------------------------
/// the recursive productions of the ESpec grammar as (tag, text before the nested spec, text after
/// it): plain `b:<spec>`; the brace-less shorthand with a size spec (size, size+unit+count,
/// size+unit+`*`, `*`); one chunk of a braced table (every chunk-head form; as the only, the first
/// and a later chunk); `e:{key,iv,<spec>}` (IV of 1, 4 and 8 bytes). Each costs one `parse_espec`
/// level.
const ESPEC_PRODS: &[(&str, &str, &str)] = &[
    ("plain", "b:", ""),
    ("sized-n", "b:1=", ""),
    ("sized-kcount", "b:256K*4=", ""),
    ("sized-krest", "b:16K*=", ""),
    ("sized-m", "b:1M=", ""),
    ("sized-star", "b:*=", ""),
    ("braces-star", "b:{*=", "}"),
    ("braces-size", "b:{256=", "}"),
    ("braces-kcount", "b:{1K*2=", "}"),
    ("braces-starcount", "b:{*3=", "}"),
    ("braces-later", "b:{1=n,*=", "}"),
    ("braces-middle", "b:{1=z,2K*3=", ",*=n}"),
    ("braces-first", "b:{1=", ",*=n}"),
    ("enc-iv4", "e:{237DA26C65073F42,06FC152E,", "}"),
    ("enc-iv1", "e:{0123456789abcdef,00,", "}"),
    ("enc-iv8", "e:{0123456789ABCDEF,0011223344556677,", "}"),
];
const ESPEC_CORES: &[&str] = &["n", "z", "z:{9,mpq}", "c:{3}", "g:{5}", "b:{1=n,*=z}", "x", ""];

/// `levels` productions (the block of production indices, cycled) around `core`:
/// prefix-blockᵐ, the remainder with the core and its closers, closer-blockᵐ (closers reversed)
fn espec_nest_edits(block: &[usize], levels: usize, core: &str) -> Vec<Edit> {
    let k = block.len();
    let (m, rem) = (levels / k, levels % k);
    let pre: String = block.iter().map(|&i| ESPEC_PRODS[i].1).collect();
    let post: String = block.iter().rev().map(|&i| ESPEC_PRODS[i].2).collect();
    let mut mid: String = block[..rem].iter().map(|&i| ESPEC_PRODS[i].1).collect();
    mid.push_str(core);
    mid.extend(block[..rem].iter().rev().map(|&i| ESPEC_PRODS[i].2));
    let mut e = vec![];
    if m > 0 {
        e.push(Edit::Rep(m, pre.into_bytes()));
    }
    e.push(Edit::App(mid.into_bytes()));
    if m > 0 && !post.is_empty() {
        e.push(Edit::Rep(m, post.into_bytes()));
    }
    e
}

/// ESpec: every production alone, every ordered pair of productions alternating, and random
/// blocks of 3..8 productions, each nested to 62/63/64/65 levels (64 is the last accepted: the core
/// is the 65th frame at 64 prefixes), 1000 and "far beyond any stack" (100 000 levels, fewer for
/// long prefixes so that one input stays near 600 KB, never below 20 000).
fn espec_nesting_cases(c: &mut Ctx, rng: &mut Rng, thorough: bool) {
    c.seed("empty", vec![]);
    let np = ESPEC_PRODS.len();
    let deep = |block: &[usize]| -> usize {
        let per: usize = block.iter().map(|&i| ESPEC_PRODS[i].1.len() + ESPEC_PRODS[i].2.len()).sum::<usize>().max(1);
        let target = if block.len() == 1 || thorough { 600_000 } else { 250_000 };
        (target * block.len() / per).clamp(20_000, 100_000)
    };
    let run = |c: &mut Ctx, block: &[usize], levels: usize, core: &str, kind: &str| {
        let e = espec_nest_edits(block, levels, core);
        c.case("espec", "empty", &e, kind);
        c.s.tally(&format!("espec-nest-levels:{}", match levels { 0..=61 => "<62", 62..=65 => "62..65", 66..=4096 => "66..4096", _ => ">4096" }));
    };
    let small: &[usize] = if thorough { &[1, 2, 3, 31, 32, 61, 62, 63, 64, 65, 66, 127, 128, 129, 1000, 4096] } else { &[62, 63, 64, 65, 1000] };
    // 1. every production alone
    for i in 0..np {
        for (j, &l) in small.iter().enumerate() {
            run(c, &[i], l, "n", "espec-nest-one");
            run(c, &[i], l, ESPEC_CORES[(i + j) % ESPEC_CORES.len()], "espec-nest-one");
        }
        run(c, &[i], deep(&[i]), "n", "espec-nest-one");
        c.s.tally(&format!("espec-nest-prod:{}", ESPEC_PRODS[i].0));
    }
    // 2. every ordered pair, alternating
    for i in 0..np {
        for j in 0..np {
            if i == j {
                continue;
            }
            for &l in if thorough { &[63usize, 64, 65, 66, 1000][..] } else { &[63usize, 64, 65][..] } {
                run(c, &[i, j], l, "n", "espec-nest-pair");
            }
            if thorough || j == (i + 1) % np || j == (i + 7) % np {
                run(c, &[i, j], 1000, "z", "espec-nest-pair");
            }
            if j == (i + 1) % np || (thorough && j == (i + 5) % np) {
                run(c, &[i, j], deep(&[i, j]), "n", "espec-nest-pair");
            }
        }
    }
    // 3. random blocks
    for t in 0..if thorough { 200 } else { 40 } {
        let k = rng.range(3, 8) as usize;
        let block: Vec<usize> = (0..k).map(|_| rng.below(np as u64) as usize).collect();
        for l in [62usize, 63, 64, 65, 66] {
            run(c, &block, l, *rng.pick(ESPEC_CORES), "espec-nest-mix");
        }
        run(c, &block, rng.range(67, 3000) as usize, "n", "espec-nest-mix");
        if t % 4 == 0 {
            run(c, &block, deep(&block), "n", "espec-nest-mix");
        }
    }
    if thorough {
        // a million levels through the short brace-less prefixes
        for i in 0..6 {
            run(c, &[i], 1_000_000, "n", "espec-nest-one");
        }
    }
}

/// one folder entry of a TVFS path table in each shape `parse_directory` accepts in front of the
/// node value: (tag, bytes before the 0xFF marker)
const TVFS_FOLDER_SHAPES: &[(&str, &[u8])] = &[
    ("bare", &[]),
    ("lead-sep", &[0]),
    ("named", &[1, b'a']),
    ("named-sep", &[1, b'a', 0]),
    ("lead-sep-named", &[0, 1, b'a']),
    ("two-frags", &[1, b'a', 2, b'b', b'c']),
    ("two-frags-sep", &[1, b'a', 0, 1, b'b']),
    ("empty-frag", &[0, 0]),
];

/// a path table of `shapes.len()` nested folders (outermost first), each folder optionally preceded
/// (`before`) or followed (`after`) by a file entry in its parent
fn tvfs_nested_path(shapes: &[usize], before: bool, after: bool) -> Vec<u8> {
    let file: &[u8] = &[1, b'f', 0xFF, 0, 0, 0, 1];
    let mut inner: Vec<u8> = vec![];
    for &sh in shapes.iter().rev() {
        let mut d = vec![];
        if before {
            d.extend_from_slice(file);
        }
        d.extend_from_slice(TVFS_FOLDER_SHAPES[sh].1);
        d.push(0xFF);
        d.extend_from_slice(&be32(0x8000_0000 | (inner.len() as u32 + 4)));
        d.extend_from_slice(&inner);
        if after {
            d.extend_from_slice(file);
        }
        inner = d;
    }
    inner
}

/// the smallest TVFS file around a path table (empty VFS and container tables behind it)
fn tvfs_with_path(path: &[u8]) -> Vec<u8> {
    let mut d = b"TVFS".to_vec();
    d.extend_from_slice(&[1, 38, 9, 9]); // format_version, header_size, ekey_size, pkey_size
    d.extend_from_slice(&be32(0)); // flags
    d.extend_from_slice(&be32(38)); // path_table_offset
    d.extend_from_slice(&be32(path.len() as u32));
    d.extend_from_slice(&be32(38 + path.len() as u32)); // vfs offset
    d.extend_from_slice(&be32(0));
    d.extend_from_slice(&be32(38 + path.len() as u32)); // cft offset
    d.extend_from_slice(&be32(0));
    d.extend_from_slice(&[0, 16]); // max depth
    d.extend_from_slice(path);
    d
}

/// TVFS: the one recursive production (a folder node) in every shape of the entry that carries it,
/// alone, with file siblings before / after it and in random mixtures, nested to 511..514 folders
/// (512 is the last accepted) and far beyond (3 000; thorough 30 000 / 200 000).
fn tvfs_nesting_cases(c: &mut Ctx, rng: &mut Rng, thorough: bool) {
    c.seed("empty", vec![]);
    let ns = TVFS_FOLDER_SHAPES.len();
    let run = |c: &mut Ctx, shapes: &[usize], before: bool, after: bool, kind: &str| {
        let d = tvfs_with_path(&tvfs_nested_path(shapes, before, after));
        c.case("tvfs", "empty", &[Edit::App(d)], kind);
        c.s.tally(&format!("tvfs-nest-levels:{}", match shapes.len() { 0..=510 => "<511", 511..=514 => "511..514", _ => ">514" }));
    };
    let near: &[usize] = if thorough { &[1, 2, 255, 256, 510, 511, 512, 513, 514, 515, 1024] } else { &[512, 513] };
    let variants = [(true, false), (false, true), (true, true)];
    for sh in 0..ns {
        for &l in near {
            run(c, &vec![sh; l], false, false, "tvfs-nest-one");
        }
        // named folders make the joined path grow with the depth: keep the far case moderate
        run(c, &vec![sh; if thorough { 30_000 } else if sh == 0 { 3_000 } else { 1_500 }], false, false, "tvfs-nest-one");
        // file siblings before / after / around the folder (quick tier: one arrangement per shape, rotating)
        for (vi, (b, a)) in variants.iter().enumerate() {
            if thorough || vi == sh % 3 {
                for l in [512usize, 513] {
                    run(c, &vec![sh; l], *b, *a, "tvfs-nest-sibling");
                }
            }
        }
        c.s.tally(&format!("tvfs-nest-shape:{}", TVFS_FOLDER_SHAPES[sh].0));
    }
    if !thorough {
        run(c, &vec![0; 511], false, false, "tvfs-nest-one");
        run(c, &vec![0; 514], false, false, "tvfs-nest-one");
    }
    for t in 0..if thorough { 60 } else { 6 } {
        for l in [512usize, 513, 514] {
            let shapes: Vec<usize> = (0..l).map(|_| rng.below(ns as u64) as usize).collect();
            run(c, &shapes, t % 3 == 1, t % 3 == 2, "tvfs-nest-mix");
        }
        let shapes: Vec<usize> = (0..rng.range(515, 3000) as usize).map(|_| rng.below(ns as u64) as usize).collect();
        run(c, &shapes, false, false, "tvfs-nest-mix");
    }
    // (bare folders 30 000 deep: hand seed `tvfs_nest30000`; the model copies the rest of the table
    // per level, so the far cases stay moderate in the quick tier)
    if thorough {
        run(c, &vec![0; 200_000], false, false, "tvfs-nest-one");
    }
}

/// the library-backed recursive grammars behind oracle-only entry points: JSON (product config,
/// serde_json has its own recursion limit) nested through arrays, objects and both; MIME (V1
/// replies, mail_parser) nested through multipart bodies and message/rfc822 parts. BPSV, the
/// `key = value` configs, `.build.info` and all binary table formats other than the TVFS path table
/// are flat: they have no recursive production.
fn library_nesting_cases(c: &mut Ctx, thorough: bool) {
    c.seed("empty", vec![]);
    let depths: &[usize] = if thorough { &[64, 127, 128, 129, 1000, 100_000, 1_000_000] } else { &[127, 128, 129, 1000, 100_000] };
    for &n in depths {
        let forms: [(&[u8], &[u8], &[u8]); 4] = [
            (b"[", b"1", b"]"),
            (b"{\"a\":", b"1", b"}"),
            (b"[{\"a\":", b"1", b"}]"),
            (b"{\"all\":{\"config\":{\"product\":[", b"1", b"]}}}"),
        ];
        for (pre, core, post) in forms {
            c.case("cfgproduct", "empty", &[Edit::Rep(n, pre.to_vec()), Edit::App(core.to_vec()), Edit::Rep(n, post.to_vec())], "json-nest");
            // unclosed: the input ends at the deepest point
            c.case("cfgproduct", "empty", &[Edit::Rep(n, pre.to_vec())], "json-nest");
        }
    }
    // multipart inside multipart (the same boundary text on every level is legal and is the worst
    // case for a boundary scanner; distinct boundaries per level as well) and chains of
    // message/rfc822 parts (kept by mail_parser as NESTED values: 16 levels are accepted since fix
    // d1b4b99), through all V1 entry points
    let leaf: &[u8] = b"Content-Type: text/plain\r\nContent-Disposition: version\r\n\r\nRegion!STRING:0|BuildId!DEC:4\nus|5\n\r\n";
    let parsers = ["mime", "mimebpsv", "mimesniff", "mimev1"];
    let mdepths: &[usize] = if thorough { &[1, 2, 16, 100, 1000, 20_000] } else { &[2, 16, 100, 1000, 5_000] };
    for &n in mdepths {
        let mut distinct = Vec::new();
        for i in 0..n {
            distinct.extend_from_slice(format!("Content-Type: multipart/mixed; boundary=\"b{i}\"\r\n\r\n--b{i}\r\n").as_bytes());
        }
        distinct.extend_from_slice(leaf);
        for i in (0..n).rev() {
            distinct.extend_from_slice(format!("--b{i}--\r\n").as_bytes());
        }
        let same = vec![
            Edit::Rep(n, b"Content-Type: multipart/mixed; boundary=\"b\"\r\n\r\n--b\r\n".to_vec()),
            Edit::App(leaf.to_vec()),
            Edit::Rep(n, b"--b--\r\n".to_vec()),
        ];
        for p in parsers {
            c.case(p, "empty", &[Edit::App(distinct.clone())], "mime-nest");
            c.case(p, "empty", &same, "mime-nest");
        }
        c.s.tally("mime-nest:multipart");
    }
    let rdepths: &[usize] = if thorough { &[1, 2, 15, 16, 17, 18, 100, 1000, 5_000, 20_000, 50_000, 500_000] } else { &[15, 16, 17, 18, 100, 1000, 5_000, 50_000] };
    for &n in rdepths {
        for hdr in [&b"Content-Type: message/rfc822\r\n\r\n"[..], &b"Content-Type: message/rfc822\r\nContent-Disposition: version\r\n\r\n"[..]] {
            for p in parsers {
                c.case(p, "empty", &[Edit::Rep(n, hdr.to_vec()), Edit::App(leaf.to_vec())], "mime-nest");
                // the chain alone: the input ends at the deepest point
                c.case(p, "empty", &[Edit::Rep(n, hdr.to_vec())], "mime-nest");
            }
        }
        // a chain inside a multipart body
        let mixed = vec![
            Edit::App(b"Content-Type: multipart/mixed; boundary=\"b\"\r\n\r\n--b\r\n".to_vec()),
            Edit::Rep(n, b"Content-Type: message/rfc822\r\n\r\n".to_vec()),
            Edit::App(leaf.to_vec()),
            Edit::App(b"--b--\r\n".to_vec()),
        ];
        for p in parsers {
            c.case(p, "empty", &mixed, "mime-nest");
        }
        c.s.tally("mime-nest:rfc822");
    }
}


/// does the table (accepted by `deserialize`) have an entry with the all-zero key on its `next`
/// chain from the LRU tail? (own bounded walk)
fn lru_zero_key_linked(d: &[u8]) -> bool {
    let Some((h, es)) = cascette_client_storage::lru::lru_file::deserialize(d) else {
        return false;
    };
    let mut idx = h.lru_tail;
    for _ in 0..=es.len() {
        let Some(e) = es.get(idx as usize) else {
            return false;
        };
        if !e.is_active() {
            return true;
        }
        idx = e.next;
    }
    false
}

/// the harness' own statement of what `load_from_disk` has to establish before the list operations
/// may run: following `next` from the LRU tail visits distinct slots of the table and ends at the
/// sentinel, each visited slot points back at the one before it, the last one is the MRU head, and
/// every keyed slot was visited (written independently of `links_are_valid`)
fn lru_ref_accepts(d: &[u8]) -> bool {
    const S: u32 = 0xFFFF_FFFF;
    let Some((h, es)) = cascette_client_storage::lru::lru_file::deserialize(d) else {
        return false;
    };
    let mut order: Vec<u32> = vec![];
    let mut idx = h.lru_tail;
    while idx != S {
        if idx as usize >= es.len() || order.contains(&idx) {
            return false;
        }
        order.push(idx);
        idx = es[idx as usize].next;
    }
    for (i, &sl) in order.iter().enumerate() {
        if es[sl as usize].prev != if i == 0 { S } else { order[i - 1] } {
            return false;
        }
    }
    h.mru_head == order.last().copied().unwrap_or(S) && es.iter().enumerate().all(|(i, e)| !e.is_active() || order.contains(&(i as u32)))
}

/// one crafted table through the load (`lruload` = run_cycle, `lru` = deserialize) and — unless it
/// has the known shape (a table the load is right to accept, with the all-zero key on the list:
/// finding lruuse-zero-key-linked, every use hangs and costs the time limit) — through the list
/// operations: the fixed script `lruuse` and the four scripts on the table's own keys
fn lru_table_case(c: &mut Ctx, d: Vec<u8>, kind: &str) {
    c.case("lruload", "empty", &[Edit::App(d.clone())], kind);
    c.case("lru", "empty", &[Edit::App(d.clone())], kind);
    if lru_zero_key_linked(&d) && lru_ref_accepts(&d) {
        c.s.tally("lru-links:zero-key-linked");
    } else if c.timeouts.get("lru").copied().unwrap_or(0) >= 6 {
        c.s.tally("lru-links:ops-skipped-after-6-hangs");
    } else {
        c.case("lruuse", "empty", &[Edit::App(d.clone())], kind);
        for p in LRU_OPS {
            c.case(p, "empty", &[Edit::App(d.clone())], kind);
        }
        c.s.tally(if lru_ref_accepts(&d) { "lru-ops:load-should-accept" } else { "lru-ops:load-should-refuse" });
    }
}

/// STRUCTURAL family: a well-formed list over l slots of which any subset is KEY-LESS (all-zero key,
/// linked), plus 0..2 slots OFF the list that are keyed (fresh key, or the key of a listed slot) or
/// key-less, whose own prev / next are every combination of {sentinel, each listed slot, itself,
/// one past the table}; duplicates of a key on the list. The load has to refuse every table with a
/// keyed slot off the list — `touch` / `remove` unlink such a slot through its own links and splice
/// a cycle into the list — whatever else the table contains (e.g. as many key-less linked slots as
/// keyed unlinked ones, so that counts match).
fn lru_struct_cases(c: &mut Ctx, rng: &mut Rng, thorough: bool) {
    c.seed("empty", vec![]);
    const S: u32 = 0xFFFF_FFFF;
    let maxl: u32 = if thorough { 4 } else { 3 };
    for l in 1..=maxl {
        for rev in [false, true] {
            // list position i (0 = LRU tail) lives in slot order[i]
            let order: Vec<u32> = if rev { (0..l).rev().collect() } else { (0..l).collect() };
            for zmask in 0..(1u32 << l) {
                let mut base = vec![(S, S, 0u8); l as usize];
                for (i, &sl) in order.iter().enumerate() {
                    let key = if zmask >> i & 1 == 1 { 0 } else { 0xB0 + sl as u8 };
                    base[sl as usize] = (if i == 0 { S } else { order[i - 1] }, if i + 1 == order.len() { S } else { order[i + 1] }, key);
                }
                let (head, tail) = (order[l as usize - 1], order[0]);
                lru_table_case(c, lru_links_file(head, tail, &base), "lru-struct-list");
                // a duplicate key ON the list
                if l >= 2 && zmask == 0 {
                    let mut e = base.clone();
                    e[order[1] as usize].2 = e[order[0] as usize].2;
                    lru_table_case(c, lru_links_file(head, tail, &e), "lru-struct-dup-listed");
                }
                // one slot off the list
                let x = l;
                let mut opts: Vec<u32> = vec![S, x, x + 1];
                opts.extend(0..l);
                for xkey in [0xE0u8, 0xB0 + order[0] as u8, 0] {
                    if xkey != 0xE0 && (zmask != 0 && !thorough) {
                        continue; // duplicate-of-listed / key-less stale slot: with the fully keyed list only (quick)
                    }
                    for &p in &opts {
                        for &n in &opts {
                            let mut e = base.clone();
                            e.push((p, n, xkey));
                            lru_table_case(c, lru_links_file(head, tail, &e), match xkey { 0xE0 => "lru-struct-off-keyed", 0 => "lru-struct-off-keyless", _ => "lru-struct-off-dup" });
                        }
                    }
                }
                // two slots off the list, both keyed (as many as two key-less listed slots): links drawn
                // from the same set, 10 samples (thorough 60) per list
                if l >= 2 {
                    let (x1, x2) = (l, l + 1);
                    let mut o2: Vec<u32> = vec![S, x1, x2];
                    o2.extend(0..l);
                    for _ in 0..if thorough { 60 } else { 10 } {
                        let mut e = base.clone();
                        e.push((*rng.pick(&o2), *rng.pick(&o2), 0xE0));
                        e.push((*rng.pick(&o2), *rng.pick(&o2), if rng.chance(1, 4) { 0 } else { 0xE1 }));
                        lru_table_case(c, lru_links_file(head, tail, &e), "lru-struct-off-two");
                    }
                }
                c.s.tally(&format!("lru-struct:keyless-listed={}", zmask.count_ones()));
            }
        }
    }
}

/// a `.lru` file (right MD5) with the given head, tail and entries (prev, next, key byte; key byte 0
/// = an inactive entry)
fn lru_links_file(head: u32, tail: u32, entries: &[(u32, u32, u8)]) -> Vec<u8> {
    use cascette_client_storage::lru::lru_file::{LruFileEntry, LruFileHeader, serialize};
    let h = LruFileHeader { version: 1, hash: [0; 16], mru_head: head, lru_tail: tail };
    let es: Vec<LruFileEntry> = entries.iter().map(|&(prev, next, k)| LruFileEntry { prev, next, ekey: [k; 9], flags: 0 }).collect();
    serialize(&h, &es)
}

/// LRU tables with the RIGHT checksum and every link field (head, tail, each prev / next) set to
/// every boundary index (0, 1, n-1, n, n+1, its own slot, 2^31-1, 2^31, 2^32-2, the sentinel), on
/// well-formed lists of 0..5 entries in three slot orders; `next` cycles of every length at every
/// position; random tables whose links are drawn from {sentinel, 0..n+1}. Loaded through
/// `LruManager::run_cycle` and then used (touch / remove / evict / for_each_entry).
fn lru_link_cases(c: &mut Ctx, rng: &mut Rng, thorough: bool) {
    c.seed("empty", vec![]);
    const S: u32 = 0xFFFF_FFFF;
    let run = |c: &mut Ctx, head: u32, tail: u32, es: &[(u32, u32, u8)], kind: &str| {
        lru_table_case(c, lru_links_file(head, tail, es), kind);
    };
    // a well-formed list over the slots in `order` (tail first)
    let list = |order: &[u32], slots: usize| -> (u32, u32, Vec<(u32, u32, u8)>) {
        let mut es = vec![(S, S, 0u8); slots];
        for (i, &sl) in order.iter().enumerate() {
            es[sl as usize] = (if i == 0 { S } else { order[i - 1] }, if i + 1 == order.len() { S } else { order[i + 1] }, 1 + sl as u8);
        }
        (order.last().copied().unwrap_or(S), order.first().copied().unwrap_or(S), es)
    };
    for n in 0..=5u32 {
        let orders: Vec<Vec<u32>> = vec![(0..n).collect(), (0..n).rev().collect(), (0..n).map(|i| (i * 2 + 1) % n.max(1)).collect::<Vec<_>>()];
        for (oi, order) in orders.iter().enumerate() {
            if oi == 2 && n % 2 == 0 {
                continue; // not a permutation for even n
            }
            // one free slot behind the list for n in 1..=3
            let slots = n as usize + usize::from((1..=3).contains(&n));
            let (head, tail, es) = list(order, slots);
            run(c, head, tail, &es, "lru-links-wellformed");
            let ns = slots as u32;
            let fields = 2 + 2 * slots;
            for f in 0..fields {
                for v in [0u32, 1, ns.wrapping_sub(1), ns, ns + 1, 0x7FFF_FFFF, 0x8000_0000, 0xFFFF_FFFE, S, f.saturating_sub(2) as u32 / 2] {
                    let (mut h2, mut t2, mut e2) = (head, tail, es.clone());
                    match f {
                        0 => h2 = v,
                        1 => t2 = v,
                        _ => {
                            let slot = (f - 2) / 2;
                            if (f - 2) % 2 == 0 { e2[slot].0 = v } else { e2[slot].1 = v }
                        }
                    }
                    run(c, h2, t2, &e2, "lru-links-field");
                }
            }
            // next cycles: the entry at list position i points back to position j <= i
            for i in 0..order.len() {
                for j in 0..=i {
                    let mut e2 = es.clone();
                    e2[order[i] as usize].1 = order[j];
                    run(c, head, tail, &e2, "lru-links-cycle");
                }
            }
        }
    }
    // the known shape: one slot, linked (head = tail = 0), all-zero key
    c.case("lruuse", "empty", &[Edit::App(lru_links_file(0, 0, &[(S, S, 0)]))], "lru-links-zero-key");
    for _ in 0..if thorough { 4000 } else { 400 } {
        let n = rng.range(1, 6) as u32;
        let pick = |rng: &mut Rng| -> u32 { if rng.chance(1, 4) { S } else { rng.below(u64::from(n) + 2) as u32 } };
        let head = pick(rng);
        let tail = pick(rng);
        let es: Vec<(u32, u32, u8)> = (0..n).map(|i| (pick(rng), pick(rng), if rng.chance(1, 5) { 0 } else { 1 + (i as u8 % 3) })).collect();
        run(c, head, tail, &es, "lru-links-random");
    }
}

// ---------------------------------------------------------------------------------------------
// patch index: every block parser reached DIRECTLY and through whole files in which it is the one
// that runs (block 8 is only parsed when no block 2 precedes it; the CDN fixtures and the builder
// always put block 2 first)
// ---------------------------------------------------------------------------------------------
/// a patch index file: 14-byte preamble, optional extra header, descriptors, block data
fn pindex_file(extra: &[u8], blocks: &[(u32, Vec<u8>)]) -> Vec<u8> {
    let header_size = 14 + extra.len() + 4 + 8 * blocks.len();
    let total = header_size + blocks.iter().map(|b| b.1.len()).sum::<usize>();
    let mut d = vec![];
    d.extend_from_slice(&(header_size as u32).to_le_bytes());
    d.extend_from_slice(&1u32.to_le_bytes());
    d.extend_from_slice(&(total as u32).to_le_bytes());
    d.extend_from_slice(&(extra.len() as u16).to_le_bytes());
    d.extend_from_slice(extra);
    d.extend_from_slice(&(blocks.len() as u32).to_le_bytes());
    for (t, b) in blocks {
        d.extend_from_slice(&t.to_le_bytes());
        d.extend_from_slice(&(b.len() as u32).to_le_bytes());
    }
    for (_, b) in blocks {
        d.extend_from_slice(b);
    }
    d
}

/// block type 2: `count`, `key_size`, then `avail` bytes of entry data
fn pblock2(count: u32, ks: u8, avail: usize) -> Vec<u8> {
    let mut b = count.to_le_bytes().to_vec();
    b.push(ks);
    b.extend((0..avail).map(|i| 0x40 | (i % 61) as u8));
    b
}

/// block type 8: version, key_size, data_offset, count, three unknown fields, padding up to
/// `data_offset` when that lies behind the 14-byte header, then `avail` bytes of entry data
fn pblock8(version: u8, ks: u8, data_offset: u16, count: u32, avail: usize) -> Vec<u8> {
    let mut b = vec![version, ks];
    b.extend_from_slice(&data_offset.to_le_bytes());
    b.extend_from_slice(&count.to_le_bytes());
    b.extend_from_slice(&(3 * u32::from(ks) + 14).to_le_bytes());
    b.extend_from_slice(&[0, 0]);
    if (data_offset as usize) > b.len() && (data_offset as usize) < 4096 {
        b.resize(data_offset as usize, 0xDD);
    }
    b.extend((0..avail).map(|i| 0x80 | (i % 61) as u8));
    b
}

const PINDEX_KS: [u8; 16] = [0, 1, 2, 8, 9, 15, 16, 17, 18, 31, 32, 85, 86, 128, 254, 255];

fn pindex_struct_cases(c: &mut Ctx, rng: &mut Rng, thorough: bool) {
    c.seed("empty", vec![]);
    let esz = |ks: u8| 3 * ks as usize + 13;
    // what a block parser is given: directly, as the only block of a file, behind a type-1 block, and
    // (type 8) in front of / behind a type-2 block
    let b1: Vec<u8> = vec![3, 0, 0, 0, 0, 0x6E, 0];
    let good2 = pblock2(1, 16, 61);
    let emit = |c: &mut Ctx, ty: u32, block: &[u8], kind: &str, whole: bool| {
        c.case(if ty == 2 { "pblock2" } else { "pblock8" }, "empty", &[Edit::App(block.to_vec())], kind);
        if whole {
            c.case("pindex", "empty", &[Edit::App(pindex_file(&[], &[(ty, block.to_vec())]))], kind);
            c.case("pindex", "empty", &[Edit::App(pindex_file(&[0], &[(1, b1.clone()), (ty, block.to_vec())]))], kind);
            if ty == 8 {
                c.case("pindex", "empty", &[Edit::App(pindex_file(&[0], &[(8, block.to_vec()), (2, good2.clone())]))], kind);
                c.case("pindex", "empty", &[Edit::App(pindex_file(&[0], &[(2, good2.clone()), (8, block.to_vec())]))], kind);
            }
        }
    };
    // 1. the key-size byte: ALL 256 values with one complete entry (the entry decoder is reached),
    //    through the entry parser, block 2 and block 8
    for ks in 0..=255u8 {
        let mut e = vec![ks];
        e.extend((0..esz(ks)).map(|i| i as u8));
        c.case("pentry", "empty", &[Edit::App(e)], "pindex-keysize");
        emit(c, 2, &pblock2(1, ks, esz(ks)), "pindex-keysize", true);
        emit(c, 8, &pblock8(3, ks, 14, 1, esz(ks)), "pindex-keysize", true);
        c.s.tally(&format!("pindex-keysize:{}", match ks { 0..=15 => "<16", 16 => "16", 17..=85 => "17..85", _ => ">85" }));
    }
    // 2. key size x entry count x bytes available (one entry short by 1 byte, exact, one byte / one
    //    entry more), block 8 also x data_offset
    for &ks in &PINDEX_KS {
        let e = esz(ks);
        // the entry parser on its own: every length around the entry size
        for len in [0usize, 1, e.saturating_sub(1), e, e + 1] {
            let mut d = vec![ks];
            d.extend((0..len).map(|i| i as u8));
            c.case("pentry", "empty", &[Edit::App(d)], "pindex-entry-len");
        }
        for count in [0u32, 1, 2, 3] {
            let need = count as usize * e;
            for avail in [need.saturating_sub(1), need, need + 1, need + e] {
                let whole = count <= 2 && (avail == need || avail + 1 == need);
                emit(c, 2, &pblock2(count, ks, avail), "pindex-block2", whole);
                for off in [0u16, 1, 13, 14, 15, 16, 40] {
                    // entries are read from data_offset: the bytes that count are those behind it
                    let behind = if off >= 14 { avail } else { avail.saturating_sub(14 - off as usize) };
                    emit(c, 8, &pblock8(3, ks, off, count, behind), "pindex-block8", whole && (off == 14 || off == 0 || off == 40));
                }
            }
        }
        // counts that cannot fit
        for count in [0x100u32, 0x1_0000, 0x00FF_FFFF, 0x7FFF_FFFF, 0xFFFF_FFFF] {
            emit(c, 2, &pblock2(count, ks, 2 * e), "pindex-count", ks == 16 || ks == 17);
            emit(c, 8, &pblock8(3, ks, 14, count, 2 * e), "pindex-count", ks == 16 || ks == 17);
        }
    }
    // 3. block 8 header bytes: ALL 256 version bytes, data offsets around and beyond the block
    for v in 0..=255u8 {
        for ks in [16u8, 17] {
            emit(c, 8, &pblock8(v, ks, 14, 1, esz(ks)), "pindex-block8-version", v <= 4 || v == 255);
        }
    }
    for ks in [16u8, 17, 255] {
        let len = 14 + esz(ks);
        for off in [len as u16 - 1, len as u16, len as u16 + 1, 0x00FF, 0x0100, 0x7FFF, 0x8000, 0xFFFF] {
            for count in [0u32, 1] {
                let mut b = pblock8(3, ks, 14, count, esz(ks));
                b[2..4].copy_from_slice(&off.to_le_bytes());
                emit(c, 8, &b, "pindex-block8-offset", true);
            }
        }
    }
    // 4. both block parsers cut at EVERY length (a well-formed block of 2 entries, key sizes 16 and 17)
    for ks in [16u8, 17] {
        let b2 = pblock2(2, ks, 2 * esz(ks));
        let b8 = pblock8(3, ks, 14, 2, 2 * esz(ks));
        for l in 0..b2.len().min(if thorough { 400 } else { 80 }) {
            emit(c, 2, &b2[..l], "pindex-block-cut", false);
        }
        for l in 0..b8.len().min(if thorough { 400 } else { 80 }) {
            emit(c, 8, &b8[..l], "pindex-block-cut", false);
        }
    }
    // 5. block lists: every ordered pair and some triples of the types {1, 2, 8, 6, 10, 0, 2^32-1} with
    //    well-formed and oversized-key contents (which block parser runs depends on the ORDER)
    let types: [u32; 7] = [1, 2, 8, 6, 10, 0, 0xFFFF_FFFF];
    let content = |t: u32, ks: u8| -> Vec<u8> {
        match t {
            2 => pblock2(1, ks, 3 * ks as usize + 13),
            8 | 6 | 10 => pblock8(3, ks, 14, 1, 3 * ks as usize + 13),
            _ => vec![3, 0, 0, 0, 0, 0x6E, 0],
        }
    };
    for &t1 in &types {
        for &t2 in &types {
            for (k1, k2) in [(16u8, 16u8), (16, 17), (17, 16), (255, 255)] {
                c.case("pindex", "empty", &[Edit::App(pindex_file(&[0], &[(t1, content(t1, k1)), (t2, content(t2, k2))]))], "pindex-block-order");
            }
        }
    }
    for _ in 0..if thorough { 2000 } else { 150 } {
        let n = rng.range(1, 4) as usize;
        let blocks: Vec<(u32, Vec<u8>)> = (0..n)
            .map(|_| {
                let t = *rng.pick(&types);
                let ks = *rng.pick(&PINDEX_KS);
                let mut b = content(t, ks);
                if rng.chance(1, 4) {
                    let cut = rng.below(b.len() as u64 + 1) as usize;
                    b.truncate(cut);
                }
                (t, b)
            })
            .collect();
        c.case("pindex", "empty", &[Edit::App(pindex_file(&[0], &blocks))], "pindex-block-order");
    }
    // 6. the header's own extra block: extra_header_len x its key-size byte, complete and cut, through
    //    the header parser and the whole-file parser
    for xl in [0u16, 1, 2, 16, 17, 18, 255, 256, 257, 0xFFFF] {
        for hks in [0u8, 1, 15, 16, 17, 254, 255] {
            for have in [0usize, 1, hks as usize, hks as usize + 1, xl as usize, (xl as usize).max(hks as usize + 1)] {
                if have > 600 {
                    continue;
                }
                let mut extra = vec![hks];
                extra.extend((0..have.saturating_sub(1)).map(|i| i as u8));
                extra.truncate(have);
                let mut d = pindex_file(&extra, &[(2, good2.clone())]);
                d[12..14].copy_from_slice(&xl.to_le_bytes());
                c.case("phdr", "empty", &[Edit::App(d.clone())], "pindex-extra-header");
                c.case("phdrbuild", "empty", &[Edit::App(d.clone())], "pindex-extra-header");
                c.case("pindex", "empty", &[Edit::App(d)], "pindex-extra-header");
            }
        }
    }
}

// ---------------------------------------------------------------------------------------------
// ZBSDIFF: structurally valid patches (valid header, well-formed zlib blocks) whose CONTROL ENTRIES
// are adversarial, applied to old files of chosen lengths through both patchers
// ---------------------------------------------------------------------------------------------
fn offtout(v: i64) -> [u8; 8] {
    // bsdiff sign-magnitude; `NEG_ZERO` = sign bit on a zero magnitude
    if v == i64::MIN {
        return [0, 0, 0, 0, 0, 0, 0, 0x80];
    }
    let mut b = v.unsigned_abs().to_le_bytes();
    if v < 0 {
        b[7] |= 0x80;
    }
    b
}
const NEG_ZERO: i64 = i64::MIN;

fn zbs_ctl(entries: &[(i64, i64, i64)]) -> Vec<u8> {
    let mut c = vec![];
    for (d, x, s) in entries {
        c.extend_from_slice(&offtout(*d));
        c.extend_from_slice(&offtout(*x));
        c.extend_from_slice(&offtout(*s));
    }
    c
}

const ZBS_APPLY: [&str; 4] = ["zbsmem", "zbsstream", "zbsstream1k", "zbsobj"];

fn zbs_struct_cases(c: &mut Ctx, rng: &mut Rng, thorough: bool) {
    c.seed("empty", vec![]);
    let run = |c: &mut Ctx, old: &[u8], entries: &[(i64, i64, i64)], dshort: i64, xshort: i64, oadj: i64, kind: &str| {
        let nd: i64 = entries.iter().map(|e| e.0.clamp(0, 70_000)).sum();
        let nx: i64 = entries.iter().map(|e| e.1.clamp(0, 70_000)).sum();
        let diff: Vec<u8> = (0..(nd + dshort).clamp(0, 60_000)).map(|i| 1 + (i % 7) as u8).collect();
        let extra: Vec<u8> = (0..(nx + xshort).clamp(0, 60_000)).map(|i| 0x60 + (i % 26) as u8).collect();
        let out = (nd + nx + oadj).clamp(0, i64::from(u32::MAX)) as u32;
        let d = zbs_composite(old, &zbs_ctl(entries), &diff, &extra, out);
        for p in ZBS_APPLY {
            if c.timeouts.get(p).copied().unwrap_or(0) < 4 {
                c.case(p, "empty", &[Edit::App(d.clone())], kind);
            }
        }
    };
    let pat = |n: usize| -> Vec<u8> { (0..n).map(|i| (i % 251) as u8 ^ 0x5A).collect() };
    // 1. small old files: first entry (diff window, seek) across / beyond / before the old file, then
    //    every follow-up entry shape
    let follow: [(i64, i64, i64); 7] = [(0, 0, 0), (0, 1, 0), (1, 0, 0), (3, 0, 0), (0, 0, -1), (2, 1, 5), (0, 0, NEG_ZERO)];
    for n in [0usize, 1, 4, 5] {
        let old = pat(n);
        let ni = n as i64;
        for d1 in [0i64, 1, ni - 1, ni, ni + 1, ni + 7] {
            if d1 < 0 {
                continue;
            }
            let seeks = [0i64, 1, -1, -d1, -d1 - 1, ni - d1, ni - d1 + 1, 10, -1000, 1 << 31, 1 << 62, i64::MAX, -i64::MAX, NEG_ZERO];
            for s1 in seeks {
                // the offending entry LAST (nothing follows), and followed by each shape
                run(c, &old, &[(d1, 0, s1)], 0, 0, 0, "zbs-ctl-last");
                for f in follow {
                    run(c, &old, &[(d1, 0, s1), f], 0, 0, 0, "zbs-ctl-then");
                }
                run(c, &old, &[(d1, 1, s1), (1, 0, 0), (0, 0, 0), (2, 0, -2)], 0, 0, 0, "zbs-ctl-then");
            }
        }
        c.s.tally(&format!("zbs-old-len:{n}"));
    }
    // 2. block lengths and the announced output size off by one, empty / invalid control blocks
    for n in [0usize, 4] {
        let old = pat(n);
        for (ds, xs, oa) in [(-1i64, 0i64, 0i64), (1, 0, 0), (0, -1, 0), (0, 1, 0), (0, 0, -1), (0, 0, 1), (-1, -1, 0)] {
            run(c, &old, &[(2, 1, 0), (3, 2, 1)], ds, xs, oa, "zbs-block-lengths");
            run(c, &old, &[(6, 0, 0), (0, 1, 0)], ds, xs, oa, "zbs-block-lengths");
        }
        run(c, &old, &[], 0, 0, 0, "zbs-ctl-invalid");
        for bad in [(-1i64, 0i64, 0i64), (0, -1, 0), (10_000_000, 0, 0), (10_000_001, 0, 0), (0, 10_000_001, 0), (i64::MAX, 0, 0), (NEG_ZERO, NEG_ZERO, NEG_ZERO)] {
            run(c, &old, &[bad], 0, 0, 0, "zbs-ctl-invalid");
            run(c, &old, &[(1, 1, 0), bad, (1, 0, 0)], 0, 0, 0, "zbs-ctl-invalid");
        }
        // a control block that is not a whole number of records
        for cut in [1usize, 8, 23, 25, 47] {
            let mut ctl = zbs_ctl(&[(1, 1, 0), (1, 0, 0)]);
            ctl.truncate(cut);
            let d = zbs_composite(&old, &ctl, &[1, 2], &[3], 3);
            for p in ZBS_APPLY {
                c.case(p, "empty", &[Edit::App(d.clone())], "zbs-ctl-invalid");
            }
        }
    }
    // 3. old files around the streaming buffer sizes: a diff window that starts inside the old file and
    //    ends beyond it, cut by the 1 KiB / 8 KiB read chunks; then one more entry
    for n in [1023usize, 1024, 1025, 8191, 8192, 8193] {
        let old = pat(n);
        let ni = n as i64;
        for (start, len) in [(0i64, ni + 1), (ni - 1, 2), (ni - 1, 1030), (ni, 5), (ni + 1, 5), (ni - 1024, 1025), (ni - 1024, 2049), (0, ni)] {
            for f in [(0i64, 0i64, 0i64), (2, 0, 0), (0, 1, -3)] {
                run(c, &old, &[(0, 0, start), (len, 0, 0), f], 0, 0, 0, "zbs-window-over-eof");
            }
        }
        c.s.tally(&format!("zbs-old-len:{n}"));
    }
    // 4. random control lists on small old files
    for _ in 0..if thorough { 3000 } else { 250 } {
        let old = pat(*rng.pick(&[0usize, 1, 3, 8, 20]));
        let k = rng.range(1, 5) as usize;
        let entries: Vec<(i64, i64, i64)> = (0..k)
            .map(|_| {
                let s = match rng.below(6) {
                    0 => 0,
                    1 => rng.range(0, 30) as i64,
                    2 => -(rng.range(0, 30) as i64),
                    3 => *rng.pick(&[i64::MAX, -i64::MAX, 1 << 40, -(1 << 40), NEG_ZERO]),
                    _ => rng.range(0, 12) as i64 - 6,
                };
                (rng.below(12) as i64, rng.below(4) as i64, s)
            })
            .collect();
        let (ds, xs, oa) = if rng.chance(1, 6) { (rng.range(0, 2) as i64 - 1, rng.range(0, 2) as i64 - 1, rng.range(0, 2) as i64 - 1) } else { (0, 0, 0) };
        run(c, &old, &entries, ds, xs, oa, "zbs-ctl-random");
    }
}

/// inventory round, structure-aware families for the entry points added there
fn inventory_cases(c: &mut Ctx, thorough: bool) {
    c.seed("empty", vec![]);
    // 1. both V1 MIME sniffers look at "the first 512 bytes" of a lossily decoded reply: a multi-byte
    //    character (2 / 3 / 4 bytes) or an invalid byte (decoded to a 3-byte U+FFFD) at every offset
    //    around byte 512, behind ASCII and behind other multi-byte characters
    let chars: [&[u8]; 5] = ["\u{e9}".as_bytes(), "\u{20ac}".as_bytes(), "\u{1F600}".as_bytes(), &[0xFF], &[0xC3]];
    for pre in 505..=514usize {
        for ch in chars {
            for lead in [&b"a"[..], "\u{e9}".as_bytes(), &[0xFF]] {
                let mut d: Vec<u8> = lead.iter().cycle().take(pre / lead.len() * lead.len()).copied().collect();
                d.resize(pre, b'a');
                for _ in 0..3 {
                    d.extend_from_slice(ch);
                }
                d.extend_from_slice(b" Content-Type: multipart/mixed; boundary=x\r\n\r\n--x--\r\n");
                for p in ["mimesniff", "mimesniff1", "mime", "mimev1"] {
                    c.case(p, "empty", &[Edit::App(d.clone())], "mime-utf8-boundary");
                }
            }
        }
    }
    // 2. patch-archive payload decoding: chunk sizes and counts of the compression info at the u32 /
    //    u64 limits (the chunk end is offset + size * count), in every position of the table, on
    //    payloads of 0..5 bytes
    let lim: [&str; 12] = ["0", "1", "2", "4294967295", "4294967296", "4294967297", "9223372036854775807", "9223372036854775808", "18446744073709551615", "16K", "4194304K", "17592186044415M"];
    let counts: [&str; 7] = ["", "*1", "*2", "*4294967295", "*4294967296", "*0", "*"];
    for size in lim {
        for count in counts {
            if size.ends_with(['K', 'M']) && (count == "*4294967296") && !thorough {
                continue;
            }
            for form in 0..4 {
                let spec = match form {
                    0 => format!("b:{{{size}{count}=n,*=n}}"),
                    1 => format!("b:{{1=n,{size}{count}=n}}"),
                    2 => format!("{{1=n,{size}{count}=n,{size}{count}=z,*=n}}"),
                    _ => format!("b:{{{size}{count}=n}}"),
                };
                for dl in [0usize, 1, 2, 5] {
                    let mut d = spec.as_bytes().to_vec();
                    d.push(0);
                    d.extend((0..dl).map(|i| b'a' + i as u8));
                    c.case("padecomp", "empty", &[Edit::App(d)], "padecomp-sizes");
                }
            }
        }
    }
    // 3. shmem IPC: every message type value around the known ones x every seed payload (the payload
    //    reader is chosen by the type, the bytes behind it belong to another type)
    for sid in ["ipc_file_request", "ipc_file_response", "ipc_status_request", "ipc_status_response", "ipc_keepalive", "ipc_error"] {
        for ty in [0u16, 1, 2, 3, 4, 5, 6, 7, 0x00FF, 0x0100, 0x7FFF, 0x8000, 0xFFFE, 0xFFFF] {
            c.case("ipcmsg", sid, &[Edit::Put(6, ty.to_be_bytes().to_vec())], "ipc-type");
            // and a length field of the payload that says "4 GiB follow" / "16 MiB follow"
            for (off, v) in [(40usize, 0xFFFF_FFFFu32), (40, 0x0100_0000), (44, 0xFFFF_FFFF), (64, 0xFFFF_FFFF), (8, 0x0100_0000), (8, 0x0100_0001)] {
                c.case("ipcmsg", sid, &[Edit::Put(6, ty.to_be_bytes().to_vec()), Edit::Put(off, v.to_be_bytes().to_vec())], "ipc-type-length");
            }
        }
    }
    // 4. names in the index directory: 14 BYTES ending in .idx with a 2 / 3 / 4-byte character at every
    //    position of the ten "digits"
    for ch in ["\u{e9}", "\u{20ac}", "\u{1F600}"] {
        for pos in 0..=(10 - ch.len()) {
            let mut n = "0".repeat(pos);
            n.push_str(ch);
            n.push_str(&"1".repeat(10 - pos - ch.len()));
            for ext in [".idx", ".IDX", ".iDx"] {
                let mut name = n.clone();
                name.push_str(ext);
                c.case("idxname", "empty", &[Edit::App(name.into_bytes())], "idxname-utf8");
            }
        }
    }
}

/// `blte::EncryptedHeader::read`: key-name size x IV size x the type byte (ALL 256 values for the
/// usual 8/4 and 8/8 shapes), complete and cut at every length
fn enc_hdr_cases(c: &mut Ctx, thorough: bool) {
    c.seed("empty", vec![]);
    for kns in [0u8, 1, 8, 9, 255] {
        for ivs in [0u8, 4, 8, 255] {
            let usual = kns == 8 && (ivs == 4 || ivs == 8);
            let types: Vec<u8> = if usual || thorough { (0..=255).collect() } else { vec![0x53, 0x41, 0x00, 0x45, 0x73, 0xFF] };
            for t in types {
                let mut d = vec![kns];
                d.extend((0..kns).map(|i| i.wrapping_mul(3)));
                d.push(ivs);
                d.extend((0..ivs).map(|i| 0x11u8.wrapping_add(i)));
                d.push(t);
                c.case("enchdr", "empty", &[Edit::App(d.clone())], "enchdr");
                if t == 0x53 || t == 0x00 {
                    if usual {
                        for l in 0..d.len() {
                            c.case("enchdr", "empty", &[Edit::App(d[..l].to_vec())], "enchdr");
                        }
                    } else {
                        for l in [0, 1, d.len() / 2, d.len() - 1] {
                            c.case("enchdr", "empty", &[Edit::App(d[..l].to_vec())], "enchdr");
                        }
                    }
                    d.extend_from_slice(&[1, 2, 3]);
                    c.case("enchdr", "empty", &[Edit::App(d)], "enchdr");
                }
            }
        }
    }
}

/// element sizes of the vectors the parsers pre-size (taken by the model as parameters)
fn cfg_line(c: &mut Ctx) {
    use std::mem::size_of;
    let l = format!(
        "cfg enc_idx={} enc_pagec={} enc_pagee={} in_tag={} in_entry={} dl_entry={} dl_tag={} sz_entry={} root_hash={} root_rec={} pa_block={} lru_entry={} pi_entry={}",
        size_of::<cascette_formats::encoding::IndexEntry>(),
        size_of::<cascette_formats::encoding::Page<cascette_formats::encoding::CKeyPageEntry>>(),
        size_of::<cascette_formats::encoding::Page<cascette_formats::encoding::EKeyPageEntry>>(),
        size_of::<cascette_formats::install::InstallTag>(),
        size_of::<cascette_formats::install::InstallFileEntry>(),
        size_of::<cascette_formats::download::DownloadFileEntry>(),
        size_of::<cascette_formats::download::DownloadTag>(),
        size_of::<cascette_formats::size::SizeEntry>(),
        size_of::<Option<u64>>(),
        size_of::<cascette_formats::root::RootRecord>(),
        size_of::<cascette_formats::patch_archive::PatchBlock>(),
        size_of::<cascette_client_storage::lru::lru_file::LruFileEntry>(),
        size_of::<cascette_formats::patch_index::PatchIndexEntry>(),
    );
    c.s.line(&l, "ok");
    // the key names of the key store handed to the BLTE decoders (decimal, sorted)
    let mut names: Vec<u64> = key_store().iter().map(|k| k.id).collect();
    names.sort_unstable();
    let l = format!("keys {}", names.iter().map(|n| n.to_string()).collect::<Vec<_>>().join(" "));
    c.s.line(&l, "ok");
}

fn main() {
    if std::env::args().any(|a| a == "--worker") {
        worker_main();
        return;
    }
    let args = Args::parse();
    quiet_panics();
    let timeout = Duration::from_secs(if args.thorough() { 20 } else { 10 });
    let mut c = Ctx { s: Session::new(&args.out), pool: Pool { w: None, timeout, respawns: 0 }, seeds: BTreeMap::new(), emitted: Default::default(), quick: !args.thorough(), follow: vec![], timeouts: BTreeMap::new() };
    c.s.rule = "a case is non-trivial when the parser ran on a seed with at least one edit (field splice, truncation, byte mutation) not run before".into();
    let mut rng = Rng::new(args.seed);

    if let Some(rp) = &args.replay {
        cfg_line(&mut c);
        // single-line replays of the nesting families refer to the empty input
        c.seed("empty", vec![]);
        for l in read_case(rp) {
            if l.starts_with("cfg ") || l.starts_with("keys ") {
                continue; // sizes and key names always come from the compiled crates / this harness
            }
            let t: Vec<&str> = l.split(' ').collect();
            match t.as_slice() {
                ["seed", id, h] => match unhex(h) {
                    Some(d) => {
                        // a replay may redefine a seed id
                        c.seeds.remove(*id);
                        c.seed(id, d)
                    }
                    None => c.s.line(&l, "bad-op"),
                },
                ["run", parser, sid, et, ..] if PARSERS.contains(parser) && c.seeds.contains_key(*sid) => match parse_edits(et) {
                    Some(e) => {
                        c.case(parser, sid, &e, "replay");
                    }
                    None => c.s.line(&l, "bad-op"),
                },
                // follow-up lines of a `run` are re-emitted by `case`; replayed on their own they are
                // self-contained
                ["espec", _] | ["lhdr", _] if c.follow.contains(&l) => c.follow.retain(|x| x != &l),
                ["espec", et] => match parse_edits(et) {
                    Some(e) => {
                        let data = apply(&[], &e);
                        if data.is_ascii() {
                            let obs = c.pool.run("espec", &data);
                            c.s.line(&l, &espec_resp(&obs));
                        } else {
                            c.s.line(&l, "nonascii");
                        }
                    }
                    None => c.s.line(&l, "bad-op"),
                },
                ["lhdr", h] => match unhex(h) {
                    Some(d) => {
                        let r = match cascette_client_storage::storage::local_header::LocalHeader::from_bytes(&d) {
                            Some(h) => format!("blte={}", h.blte_size()),
                            None => "none".to_string(),
                        };
                        c.s.line(&l, &r);
                    }
                    None => c.s.line(&l, "bad-op"),
                },
                _ => c.s.line(&l, "bad-op"),
            }
        }
        if let Some(mut w) = c.pool.w.take() {
            w.kill();
        }
        c.s.finish();
        return;
    }

    let thorough = args.thorough();
    cfg_line(&mut c);
    let mut pairs = hand_seeds(&mut c);
    pairs.extend(load_fixture_seeds(&mut c, thorough));
    // 1. pristine seeds
    for (p, sid) in &pairs {
        c.case(p, sid, &[], "pristine");
    }
    // 2. boundary values spliced into every named count/size/length field
    for (p, sid) in &pairs {
        splice_cases(&mut c, p, sid);
    }
    // 3. truncation (at every length up to 40 AND at every one of the last 96 offsets: trailers,
    //    footers and epilogue lines are cut off too; the V1 MIME replies and the encrypted chunks at
    //    EVERY byte offset) and byte-level mutation
    for (p, sid) in &pairs {
        let len = c.seeds[sid].len();
        let tmax = if thorough { 96 } else { 40 };
        let tail = if thorough { 160 } else { 96 };
        let every = matches!(p.as_str(), "mime" | "mimebpsv" | "mimesniff" | "mimesniff1" | "mimev1" | "encchunk" | "ipcmsg" | "padecomp" | "idxname") || sid.starts_with("blte_enc_");
        if len <= 4096 {
            for n in 0..len {
                if n < tmax || n + tail >= len || every {
                    c.case(p, sid, &[Edit::Trunc(n)], "truncate");
                }
            }
        }
        let per = if thorough { 400 } else if len > 100_000 { 4 } else if len > 16 * 1024 { 12 } else { 60 };
        mutate_cases(&mut c, &mut rng, p, sid, per);
    }
    // 3b. ESpec: random token sequences (grammar-level exploration for the complete Lean grammar model)
    {
        const TOK: [&str; 36] = [
            "b:", "b:{", "{", "}", "}", "=", ",", "*", "z", "n", "c", "g", "e:{237DA26C65073F42,06FC152E,", "e:{", ":", "z:{", "z:", "9", "6",
            "15", "16", "256", "K", "M", "G", "mpq", "zlib", "lz4hc", "*=", "=n", "=z", "1K*=", "c:{3}", "g:{5}", "4294967296", "0",
        ];
        c.seed("empty", vec![]);
        let n = if thorough { 20000 } else { 2500 };
        for _ in 0..n {
            let k = rng.range(1, 12) as usize;
            let mut e = String::new();
            for _ in 0..k {
                e.push_str(*rng.pick(&TOK));
            }
            c.case("espec", "empty", &[Edit::App(e.into_bytes())], "espec-tokens");
        }
    }
    // 3e. recursion: every recursive production of every recursive grammar across its limit
    espec_nesting_cases(&mut c, &mut rng, thorough);
    tvfs_nesting_cases(&mut c, &mut rng, thorough);
    library_nesting_cases(&mut c, thorough);
    // 3f. LRU tables with the right checksum and hostile links; the public EncryptedHeader reader
    lru_link_cases(&mut c, &mut rng, thorough);
    lru_struct_cases(&mut c, &mut rng, thorough);
    // 3g. patch index block parsers by type / order / key size; ZBSDIFF patches with adversarial control entries
    pindex_struct_cases(&mut c, &mut rng, thorough);
    zbs_struct_cases(&mut c, &mut rng, thorough);
    inventory_cases(&mut c, thorough);
    enc_hdr_cases(&mut c, thorough);
    // 3c. V1 MIME epilogue lines of every length; 3d. encrypted-chunk headers with known key names
    mime_epilogue_cases(&mut c, thorough);
    enc_header_cases(&mut c, thorough);
    // 4. thorough: every offset of the first 48 bytes × width × endianness × boundary value
    if thorough {
        for (p, sid) in &pairs {
            let len = c.seeds[sid].len();
            if len > 8192 {
                continue;
            }
            for o in 0..len.min(48) {
                for w in [1usize, 2, 4] {
                    for be in [true, false] {
                        for v in [0u64, 1, 0xFF, 0xFFFF, 0xFF_FFFF, 0x8000_0000, 0xFFFF_FFFF] {
                            let mask = (1u64 << (8 * w)) - 1;
                            c.case(p, sid, &[Edit::Put(o, enc(v & mask, w, be))], "sweep");
                        }
                    }
                }
            }
        }
    }
    let respawns = c.pool.respawns;
    c.s.extra.insert("worker_respawns".into(), serde_json::json!(respawns));
    c.s.extra.insert("worker_cap_bytes".into(), serde_json::json!(WORKER_CAP));
    c.s.extra.insert("parsers".into(), serde_json::json!(PARSERS));
    if let Some(mut w) = c.pool.w.take() {
        w.kill();
    }
    c.s.finish();
}
