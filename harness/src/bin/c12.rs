//! C12 — MultiLayerCacheImpl: real code vs the Lean model (K) and the property's own oracle (O).
//!
//! Protocol (one case = one `begin` line followed by operations), see lean/Driver/C12.lean:
//!   begin L=<layer>;<layer>… strat=onhit|after:<n>|manual|freq|age hooks=none|md5|ngdp|noop|err skip=<n>
//!         layer = m:<max_entries>:<max_bytes|none>:<lru|fifo|lfu|random|ttl>:<long|short> | d:<long|short>
//!   put k hex | putttl k hex long|short | putl k hex layer | get k | getl k layer
//!   promote k from to | remove k | clear | bget k,k,… | bput k=hex,… | putv k ck hex
//!   getv k ck|- | stats | fdel layer k | fset layer k hex | skipprobe len
//!   put / putttl / putl / promote / bput / putv may carry a last token `ev=k1,k2|-`: the victims the
//!   memory layer written by the call was SEEN to evict, given where the policy does not determine
//!   them (Lfu ties, Random); the model checks that the choice is one the policy allows
//!   (`victimsOk`, answer `bad-choice` otherwise) and follows it. A `bput` of two or more items is
//!   outside the protocol (`bad-op`, not executed) when the first layer is an Lfu / Random memory
//!   layer (victims cannot be observed item by item) or a Ttl-policy memory layer with a short
//!   default TTL (an item is not yet expired when the next item of the same call is put, which
//!   the TTL classes of the model cannot express).
//!
//! Values (`hex` above) may also be written `g<len>:<seed>` followed by `^<pos>:<xx>` edits: the
//! generated payload (byte i = `gen_byte(seed, i)`, the same definition in the Lean driver) with
//! byte `pos` xor-ed with `xx`; a truncation / extension of a generated payload is the same seed
//! with another length. Values longer than 64 bytes are ANSWERED as `#<len>:<fnv-1a 64>` on both
//! sides (`val …`, items of `vals …`), so payloads of hundreds of KiB cost a few bytes of request
//! and response text; the oracle always sees the full bytes.
//!
//! Payload-size family (`payload_family`): validation has to depend on EVERY byte of the payload at
//! EVERY length. For payload lengths around the MD5 block / padding boundaries, every power of two,
//! multiples of 4 KiB and of 64 KiB (len-1, len, len+1) up to 256 KiB and beyond, with MD5 and NGDP
//! hooks over memory and disk layers: the valid payload must be accepted by put_with_validation
//! and served unchanged by get_with_validation from the memory layer and from the disk layer; a
//! payload with one flipped bit in the first / middle / last byte, in the first byte of the last
//! 64 KiB block, truncated by a byte / by a block, extended by a byte / by a block, or empty must
//! be refused by put_with_validation, reported as corruption by get_with_validation (disk file
//! changed behind the cache, unvalidated put into the first layer) and not served afterwards.
//! The lengths the property's boundary set names are run through the request stream (K and O);
//! the dense sweep runs the same scripts on the real code under the oracle only (`silent` cases:
//! no request lines; a failure carries the full replay) because the model's RFC 1321 MD5 costs
//! ~0.3 s per 256 KiB in the compiled driver.
//!
//! Every real call runs on a worker thread that owns the tokio runtime and the cache; the main
//! thread waits for the answer with a deadline (WATCHDOG). A call that does not answer is the
//! observable `timeout`; the worker is abandoned (it is blocked inside std's RwLock) and the rest
//! of the case is answered `dead`.
//!
//! Clocks: the layers read std::time, so TTL class `short` = 1 ms followed by a real sleep, and
//! between two calls the harness spins until Instant and SystemTime have both advanced (LRU /
//! FIFO stamps strictly increasing, the victim choice of the model is then determined; the Ttl
//! policy evicts exactly the expired entries). For Lfu / Random layers the victims are observed:
//! before a put that is due to evict, every key of the case is read from that layer with real
//! `getl` calls (request lines like any other) except at most ONE key that may still be stored
//! with an ended TTL (so that expired-at-capacity states stay reachable); after the put the keys
//! that were there are read again, and the one unobserved key is settled by the entry count
//! (`layer_stats`, no side effects).
//!
//! O (independent of the model): a shadow of what each (layer, key) definitely holds / definitely
//! does not hold / may hold, derived only from the calls made (a memory layer may evict on any
//! put into it; a disk layer never does), and `latest` = value of the latest put per key.
use bytes::Bytes;
use cascette_cache::config::{DiskCacheConfig, MemoryCacheConfig, MultiLayerCacheConfig, PromotionStrategy};
use cascette_cache::key::RibbitKey;
use cascette_cache::traits::{AsyncCache, EvictionPolicy, MultiLayerCache};
use cascette_cache::validation::{Md5ValidationHooks, NgdpValidationHooks, NoOpValidationHooks, ValidationHooks, ValidationResult};
use cascette_cache::{CacheError, CacheResult, MultiLayerCacheImpl};
use cascette_crypto::ContentKey;
use std::cell::RefCell;
use std::collections::{BTreeMap, BTreeSet, HashMap};
use std::future::Future;
use std::path::PathBuf;
use std::pin::Pin;
use std::sync::Arc;
use std::sync::mpsc::{Receiver, Sender, channel};
use std::time::{Duration, Instant, SystemTime};
use verif_harness::*;

const WATCHDOG: Duration = Duration::from_secs(6);
const LONG: Duration = Duration::from_secs(3600);
const SHORT: Duration = Duration::from_millis(1);
const SHORT_SLEEP: Duration = Duration::from_micros(3500);
/// `MAX_VALIDATION_SIZE` inside `Md5ValidationHooks::should_skip_validation` (a private const)
const SKIP_ABOVE: usize = 100 * 1024 * 1024;

// ---------------------------------------------------------------- configuration

#[derive(Clone, Copy, Debug, PartialEq)]
enum Pol { Lru, Fifo, Lfu, Random, Ttl }

impl Pol {
    const ALL: [Pol; 5] = [Pol::Lru, Pol::Fifo, Pol::Lfu, Pol::Random, Pol::Ttl];
    fn text(self) -> &'static str {
        match self { Pol::Lru => "lru", Pol::Fifo => "fifo", Pol::Lfu => "lfu", Pol::Random => "random", Pol::Ttl => "ttl" }
    }
    fn parse(t: &str) -> Option<Pol> { Pol::ALL.into_iter().find(|p| p.text() == t) }
    fn real(self) -> EvictionPolicy {
        match self { Pol::Lru => EvictionPolicy::Lru, Pol::Fifo => EvictionPolicy::Fifo, Pol::Lfu => EvictionPolicy::Lfu, Pol::Random => EvictionPolicy::Random, Pol::Ttl => EvictionPolicy::Ttl }
    }
    /// the victims are not a function of the history: they have to be observed
    fn hinted(self) -> bool { matches!(self, Pol::Lfu | Pol::Random) }
}

#[derive(Clone, Debug, PartialEq)]
enum LSpec {
    Mem { max: usize, bytes: Option<usize>, pol: Pol, dshort: bool },
    Disk { dshort: bool },
}

impl LSpec {
    fn text(&self) -> String {
        let c = |s: &bool| if *s { "short" } else { "long" };
        match self {
            LSpec::Mem { max, bytes, pol, dshort } => format!(
                "m:{max}:{}:{}:{}",
                bytes.map_or("none".to_string(), |b| b.to_string()),
                pol.text(),
                c(dshort)
            ),
            LSpec::Disk { dshort } => format!("d:{}", c(dshort)),
        }
    }
    fn parse(t: &str) -> Option<LSpec> {
        let cl = |s: &str| match s { "short" => Some(true), "long" => Some(false), _ => None };
        let p: Vec<&str> = t.split(':').collect();
        match p.as_slice() {
            ["m", mx, by, pol, dt] => {
                let max = mx.parse().ok()?;
                let bytes = if *by == "none" { None } else { Some(by.parse().ok()?) };
                Some(LSpec::Mem { max, bytes, pol: Pol::parse(pol)?, dshort: cl(dt)? })
            }
            ["d", dt] => Some(LSpec::Disk { dshort: cl(dt)? }),
            _ => None,
        }
    }
    fn is_mem(&self) -> bool { matches!(self, LSpec::Mem { .. }) }
    fn dshort(&self) -> bool { match self { LSpec::Mem { dshort, .. } | LSpec::Disk { dshort } => *dshort } }
    fn pol(&self) -> Option<Pol> { match self { LSpec::Mem { pol, .. } => Some(*pol), LSpec::Disk { .. } => None } }
}

#[derive(Clone, Debug)]
struct Cfg {
    layers: Vec<LSpec>,
    strat: String,
    hooks: String,
    skip: usize,
}

impl Cfg {
    fn line(&self) -> String {
        format!(
            "begin L={} strat={} hooks={} skip={}",
            self.layers.iter().map(|l| l.text()).collect::<Vec<_>>().join(";"),
            self.strat, self.hooks, self.skip
        )
    }
    /// Err(true) = a layer list the configuration validation must reject, Err(false) = not a begin line
    fn parse(toks: &[&str]) -> Result<Cfg, bool> {
        let [b, ls, st, hk, sk] = toks else { return Err(false) };
        if *b != "begin" { return Err(false); }
        let (Some(ls), Some(st), Some(hk), Some(sk)) = (ls.strip_prefix("L="), st.strip_prefix("strat="), hk.strip_prefix("hooks="), sk.strip_prefix("skip=")) else { return Err(false) };
        let skip: usize = sk.parse().map_err(|_| false)?;
        if strategy(st).is_none() { return Err(false); }
        if !["none", "md5", "ngdp", "noop", "err"].contains(&hk) { return Err(false); }
        let mut layers = vec![];
        for t in ls.split(';') {
            match LSpec::parse(t) {
                Some(l) => layers.push(l),
                None => return Err(true),
            }
        }
        Ok(Cfg { layers, strat: st.to_string(), hooks: hk.to_string(), skip })
    }
}

fn strategy(s: &str) -> Option<PromotionStrategy> {
    match s {
        "onhit" => Some(PromotionStrategy::OnHit),
        "manual" => Some(PromotionStrategy::Manual),
        "freq" => Some(PromotionStrategy::FrequencyBased { threshold: 0.5 }),
        "age" => Some(PromotionStrategy::AgeBased { min_age: Duration::from_micros(50) }),
        _ => s.strip_prefix("after:").and_then(|n| n.parse::<u32>().ok()).map(PromotionStrategy::AfterNHits),
    }
}

/// hooks whose `validate_content` fails with a `CacheError` (hand-desugared `#[async_trait]`)
struct ErrHooks;
impl ValidationHooks for ErrHooks {
    fn validate_content<'a, 'b, 'c, 't>(&'a self, _ck: &'b ContentKey, _data: &'c [u8]) -> Pin<Box<dyn Future<Output = CacheResult<ValidationResult>> + Send + 't>>
    where 'a: 't, 'b: 't, 'c: 't, Self: 't {
        Box::pin(async { Err(CacheError::Backend("validation backend unavailable".to_string())) })
    }
}

fn hooks(kind: &str) -> Option<Arc<dyn ValidationHooks>> {
    match kind {
        "md5" => Some(Arc::new(Md5ValidationHooks::new())),
        "ngdp" => Some(Arc::new(NgdpValidationHooks::new())),
        "noop" => Some(Arc::new(NoOpValidationHooks)),
        "err" => Some(Arc::new(ErrHooks)),
        _ => None,
    }
}

fn key(n: usize) -> RibbitKey { RibbitKey::new(format!("k{n}"), "us") }

// ---------------------------------------------------------------- generated payloads

/// values longer than this are answered as `#<len>:<fnv64>` and written as `g…` tokens when known
const ABBREV: usize = 64;
const GEN_MAX_LEN: usize = 1 << 28;
const GEN_MAX_SEED: u64 = 1 << 32;

fn fnv64(b: &[u8]) -> u64 {
    let mut h = 0xcbf2_9ce4_8422_2325u64;
    for x in b {
        h ^= *x as u64;
        h = h.wrapping_mul(0x0000_0100_0000_01b3);
    }
    h
}

/// byte `i` of the generated payload with seed `seed` (Lean: `genByte`)
fn gen_byte(seed: u64, i: usize) -> u8 {
    // only bits 16..23 of the sum are used: wrapping 64-bit arithmetic gives the same byte
    ((i as u64).wrapping_mul(2_654_435_761).wrapping_add(seed.wrapping_mul(2_246_822_519)).wrapping_add(374_761_393) >> 16) as u8
}

/// `g<len>:<seed>[^<pos>:<xx>]…`
#[derive(Clone, Debug, PartialEq)]
struct GVal { len: usize, seed: u64, edits: Vec<(usize, u8)> }

impl GVal {
    fn new(len: usize, seed: u64) -> GVal { GVal { len, seed, edits: vec![] } }
    fn bytes(&self) -> Vec<u8> {
        let mut v: Vec<u8> = (0..self.len).map(|i| gen_byte(self.seed, i)).collect();
        for (p, x) in &self.edits { v[*p] ^= *x; }
        v
    }
    fn token(&self) -> String {
        let mut t = format!("g{}:{}", self.len, self.seed);
        for (p, x) in &self.edits { t.push_str(&format!("^{p}:{x:02x}")); }
        t
    }
    fn parse(t: &str) -> Option<GVal> {
        let mut parts = t.strip_prefix('g')?.split('^');
        let (l, sd) = parts.next()?.split_once(':')?;
        let (len, seed) = (l.parse::<usize>().ok()?, sd.parse::<u64>().ok()?);
        if len > GEN_MAX_LEN || seed >= GEN_MAX_SEED { return None; }
        let mut edits = vec![];
        for e in parts {
            let (p, x) = e.split_once(':')?;
            let (p, x) = (p.parse::<usize>().ok()?, unhex(x)?);
            if p >= len || x.len() != 1 { return None; }
            edits.push((p, x[0]));
        }
        Some(GVal { len, seed, edits })
    }
    /// the same payload with byte `pos` xor-ed with `mask`
    fn flip(&self, pos: usize, mask: u8) -> GVal { let mut g = self.clone(); g.edits.push((pos, mask)); g }
    /// the same payload truncated / extended to `len` bytes
    fn resized(&self, len: usize) -> GVal { GVal { len, seed: self.seed, edits: self.edits.iter().copied().filter(|(p, _)| *p < len).collect() } }
}

thread_local! {
    /// (length, fnv64) of every long generated payload made or parsed on this (the main) thread →
    /// its description, so that request lines and messages can name it by its token
    static REG: RefCell<HashMap<(usize, u64), GVal>> = RefCell::new(HashMap::new());
}

/// the bytes of a generated payload; long ones are remembered under their token
fn reg(g: &GVal) -> Vec<u8> {
    let b = g.bytes();
    if b.len() > ABBREV { REG.with(|r| r.borrow_mut().insert((b.len(), fnv64(&b)), g.clone())); }
    b
}

fn gval_of(v: &[u8]) -> Option<GVal> {
    if v.len() <= ABBREV { return None; }
    REG.with(|r| r.borrow().get(&(v.len(), fnv64(v))).cloned())
}

/// a value as it is written on a request line
fn tok(v: &[u8]) -> String { gval_of(v).map_or_else(|| hex(v), |g| g.token()) }

/// a value as it is written in a message
fn show_v(v: &[u8]) -> String {
    if v.len() <= ABBREV { hex(v) } else { format!("#{}:{:016x}{}", v.len(), fnv64(v), gval_of(v).map_or(String::new(), |g| format!(" (= {})", g.token()))) }
}

fn parse_val(t: &str) -> Option<Vec<u8>> {
    if t.starts_with('g') { GVal::parse(t).map(|g| reg(&g)) } else { unhex(t) }
}

/// `v` with one bit flipped / with another length, keeping the token when `v` is a generated payload
fn flipped(v: &[u8], pos: usize, mask: u8) -> Vec<u8> {
    match gval_of(v) {
        Some(g) => reg(&g.flip(pos, mask)),
        None => { let mut b = v.to_vec(); b[pos] ^= mask; b }
    }
}
fn resized(v: &[u8], len: usize) -> Vec<u8> {
    match gval_of(v) {
        Some(g) => reg(&g.resized(len)),
        None => { let mut b = v.to_vec(); let n0 = b.len(); b.resize(len, 0); for i in n0..len { b[i] = (i as u8).wrapping_mul(29).wrapping_add(7); } b }
    }
}

/// hex of an answered value → what is compared with the model (`#<len>:<fnv64>` when long)
fn abbr(h: &str) -> String {
    if h.len() <= 2 * ABBREV { return h.to_string(); }
    match unhex(h) { Some(b) => format!("#{}:{:016x}", b.len(), fnv64(&b)), None => h.to_string() }
}

/// the canonical (compared) form of an answer
fn canon(resp: &str) -> String {
    if resp.len() <= 2 * ABBREV { return resp.to_string(); }
    if let Some(h) = resp.strip_prefix("val ") { return format!("val {}", abbr(h)); }
    if let Some(t) = resp.strip_prefix("vals ") { return format!("vals {}", t.split('|').map(abbr).collect::<Vec<_>>().join("|")); }
    resp.to_string()
}

// ---------------------------------------------------------------- operations

#[derive(Clone, Debug, PartialEq)]
enum Op {
    Put(usize, Vec<u8>),
    PutTtl(usize, Vec<u8>, bool),
    PutL(usize, Vec<u8>, usize),
    Get(usize),
    GetL(usize, usize),
    Promote(usize, usize, usize),
    Remove(usize),
    Clear,
    BGet(Vec<usize>),
    BPut(Vec<(usize, Vec<u8>)>),
    PutV(usize, [u8; 16], Vec<u8>),
    GetV(usize, Option<[u8; 16]>),
    Stats,
    FDel(usize, usize),
    FSet(usize, usize, Vec<u8>),
    SkipProbe(usize),
    Raw(String),
}

fn ck_of(s: &str) -> Option<[u8; 16]> {
    let v = unhex(s)?;
    <[u8; 16]>::try_from(v.as_slice()).ok()
}

fn parse_op(line: &str) -> Op {
    let mut toks: Vec<&str> = line.split(' ').filter(|t| !t.is_empty()).collect();
    // the victims hint of a recorded run is not replayed: the victims are observed again
    if toks.len() >= 2 && toks[toks.len() - 1].starts_with("ev=") && matches!(toks[0], "put" | "putttl" | "putl" | "promote" | "bput" | "putv") {
        toks.pop();
    }
    let n = |s: &str| s.parse::<usize>().ok();
    let r = match toks.as_slice() {
        ["put", k, v] => n(k).zip(parse_val(v)).map(|(k, v)| Op::Put(k, v)),
        ["putttl", k, v, c] if *c == "short" || *c == "long" => n(k).zip(parse_val(v)).map(|(k, v)| Op::PutTtl(k, v, *c == "short")),
        ["putl", k, v, i] => n(k).zip(parse_val(v)).zip(n(i)).map(|((k, v), i)| Op::PutL(k, v, i)),
        ["get", k] => n(k).map(Op::Get),
        ["getl", k, i] => n(k).zip(n(i)).map(|(k, i)| Op::GetL(k, i)),
        ["promote", k, a, b] => n(k).zip(n(a)).zip(n(b)).map(|((k, a), b)| Op::Promote(k, a, b)),
        ["remove", k] => n(k).map(Op::Remove),
        ["clear"] => Some(Op::Clear),
        ["bget", ks] => if *ks == "-" { Some(Op::BGet(vec![])) } else { ks.split(',').map(n).collect::<Option<Vec<_>>>().map(Op::BGet) },
        ["bput", kvs] => if *kvs == "-" { Some(Op::BPut(vec![])) } else {
            kvs.split(',').map(|t| { let (k, v) = t.split_once('=')?; if v.contains('=') { return None; } n(k).zip(parse_val(v)) }).collect::<Option<Vec<_>>>().map(Op::BPut)
        },
        ["putv", k, ck, v] => n(k).zip(ck_of(ck)).zip(parse_val(v)).map(|((k, ck), v)| Op::PutV(k, ck, v)),
        ["getv", k, ck] => if *ck == "-" { n(k).map(|k| Op::GetV(k, None)) } else { n(k).zip(ck_of(ck)).map(|(k, c)| Op::GetV(k, Some(c))) },
        ["stats"] => Some(Op::Stats),
        ["fdel", i, k] => n(i).zip(n(k)).map(|(i, k)| Op::FDel(i, k)),
        ["fset", i, k, v] => n(i).zip(n(k)).zip(parse_val(v)).map(|((i, k), v)| Op::FSet(i, k, v)),
        ["skipprobe", l] => n(l).map(Op::SkipProbe),
        _ => None,
    };
    r.unwrap_or_else(|| Op::Raw(line.to_string()))
}

fn op_line(op: &Op) -> String {
    match op {
        Op::Put(k, v) => format!("put {k} {}", tok(v)),
        Op::PutTtl(k, v, s) => format!("putttl {k} {} {}", tok(v), if *s { "short" } else { "long" }),
        Op::PutL(k, v, i) => format!("putl {k} {} {i}", tok(v)),
        Op::Get(k) => format!("get {k}"),
        Op::GetL(k, i) => format!("getl {k} {i}"),
        Op::Promote(k, a, b) => format!("promote {k} {a} {b}"),
        Op::Remove(k) => format!("remove {k}"),
        Op::Clear => "clear".into(),
        Op::BGet(ks) => format!("bget {}", if ks.is_empty() { "-".to_string() } else { ks.iter().map(|k| k.to_string()).collect::<Vec<_>>().join(",") }),
        Op::BPut(kvs) => format!("bput {}", if kvs.is_empty() { "-".to_string() } else { kvs.iter().map(|(k, v)| format!("{k}={}", tok(v))).collect::<Vec<_>>().join(",") }),
        Op::PutV(k, ck, v) => format!("putv {k} {} {}", hex(ck), tok(v)),
        Op::GetV(k, ck) => format!("getv {k} {}", ck.map_or("-".to_string(), |c| hex(&c))),
        Op::Stats => "stats".into(),
        Op::FDel(i, k) => format!("fdel {i} {k}"),
        Op::FSet(i, k, v) => format!("fset {i} {k} {}", tok(v)),
        Op::SkipProbe(l) => format!("skipprobe {l}"),
        Op::Raw(l) => l.clone(),
    }
}

fn op_name(op: &Op) -> &'static str {
    match op {
        Op::Put(..) => "put", Op::PutTtl(_, _, true) => "putttl.short", Op::PutTtl(..) => "putttl.long", Op::PutL(..) => "putl",
        Op::Get(_) => "get", Op::GetL(..) => "getl", Op::Promote(..) => "promote", Op::Remove(_) => "remove", Op::Clear => "clear",
        Op::BGet(_) => "bget", Op::BPut(_) => "bput", Op::PutV(..) => "putv", Op::GetV(_, Some(_)) => "getv.key", Op::GetV(..) => "getv.nokey",
        Op::Stats => "stats", Op::FDel(..) => "fdel", Op::FSet(..) => "fset", Op::SkipProbe(_) => "skipprobe", Op::Raw(_) => "raw",
    }
}

// ---------------------------------------------------------------- worker (owns runtime + cache)

fn advance_clocks() {
    let (i0, s0) = (Instant::now(), SystemTime::now());
    while Instant::now() <= i0 || SystemTime::now() <= s0 {
        std::hint::spin_loop();
    }
}

fn err_class(e: &CacheError) -> &'static str {
    match e {
        CacheError::InvalidConfiguration(_) => "err:config",
        CacheError::Io(_) => "err:io",
        CacheError::ContentValidationFailed(_) => "err:validation",
        CacheError::Corruption(_) => "err:corruption",
        CacheError::Backend(_) => "err:backend",
        CacheError::LockTimeout(_) => "err:lock",
        _ => "err:other",
    }
}

fn show_opt(r: &CacheResult<Option<Bytes>>) -> String {
    match r {
        Ok(Some(v)) => format!("val {}", hex(v)),
        Ok(None) => "none".to_string(),
        Err(e) => err_class(e).to_string(),
    }
}

fn build_cache(cfg: &Cfg, dirs: &[Option<PathBuf>]) -> Result<MultiLayerCacheImpl<RibbitKey>, ()> {
    let mut mc = MultiLayerCacheConfig::new().with_promotion_strategy(strategy(&cfg.strat).ok_or(())?);
    for (i, l) in cfg.layers.iter().enumerate() {
        match l {
            LSpec::Mem { max, bytes, pol, dshort } => {
                let mut c = MemoryCacheConfig::new().with_max_entries(*max).with_eviction_policy(pol.real());
                c.max_memory_bytes = *bytes;
                c.default_ttl = Some(if *dshort { SHORT } else { LONG });
                c.cleanup_interval = LONG;
                mc = mc.add_memory_layer(c);
            }
            LSpec::Disk { dshort } => {
                let mut c = DiskCacheConfig::new(dirs[i].clone().ok_or(())?).with_subdirectories(false, 0).with_max_files(1_000_000);
                c.max_disk_bytes = None;
                c.default_ttl = Some(if *dshort { SHORT } else { LONG });
                c.cleanup_interval = LONG;
                c.sync_interval = LONG;
                mc = mc.add_disk_layer(c);
            }
        }
    }
    let mut cache = MultiLayerCacheImpl::new(mc).map_err(|_| ())?;
    cache.set_validation_hooks(hooks(&cfg.hooks));
    Ok(cache)
}

fn file_of(dirs: &[Option<PathBuf>], layer: usize, k: usize) -> Option<PathBuf> {
    dirs.get(layer)?.as_ref().map(|d| d.join(key(k).as_cache_key()))
}

async fn exec(cache: &MultiLayerCacheImpl<RibbitKey>, cfg: &Cfg, dirs: &[Option<PathBuf>], op: &Op) -> String {
    let unit = |r: CacheResult<()>| match r { Ok(()) => "ok".to_string(), Err(e) => err_class(&e).to_string() };
    let boolean = |r: CacheResult<bool>| match r { Ok(b) => b.to_string(), Err(e) => err_class(&e).to_string() };
    let any_short = cfg.layers.iter().any(|l| l.dshort());
    let mut wrote = false;
    let resp = match op {
        Op::Put(k, v) => { wrote = true; unit(cache.put(key(*k), Bytes::from(v.clone())).await) }
        Op::PutTtl(k, v, short) => {
            let r = unit(cache.put_with_ttl(key(*k), Bytes::from(v.clone()), if *short { SHORT } else { LONG }).await);
            if *short { std::thread::sleep(SHORT_SLEEP); }
            r
        }
        Op::PutL(k, v, i) => { wrote = true; unit(cache.put_to_layer(key(*k), Bytes::from(v.clone()), *i).await) }
        Op::Get(k) => show_opt(&cache.get(&key(*k)).await),
        Op::GetL(k, i) => show_opt(&cache.get_from_layer(&key(*k), *i).await),
        Op::Promote(k, a, b) => { wrote = true; boolean(cache.promote(&key(*k), *a, *b).await) }
        Op::Remove(k) => boolean(cache.remove(&key(*k)).await),
        Op::Clear => unit(cache.clear().await),
        Op::BGet(ks) => {
            let keys: Vec<RibbitKey> = ks.iter().map(|k| key(*k)).collect();
            match cache.batch_get(&keys).await {
                Ok(rs) => format!("vals {}", if rs.is_empty() { ".".to_string() } else { rs.iter().map(|o| o.as_ref().map_or("none".to_string(), |v| hex(v))).collect::<Vec<_>>().join("|") }),
                Err(e) => err_class(&e).to_string(),
            }
        }
        Op::BPut(kvs) => { wrote = true; unit(cache.batch_put(kvs.iter().map(|(k, v)| (key(*k), Bytes::from(v.clone()))).collect()).await) }
        Op::PutV(k, ck, v) => {
            wrote = true;
            match cache.put_with_validation(key(*k), ContentKey::from_bytes(*ck), Bytes::from(v.clone())).await {
                Ok(_) => "ok".to_string(),
                Err(e) => err_class(&e).to_string(),
            }
        }
        Op::GetV(k, ck) => match cache.get_with_validation(&key(*k), ck.map(ContentKey::from_bytes)).await {
            Ok(Some(b)) => format!("val {}", hex(b.as_bytes())),
            Ok(None) => "none".to_string(),
            Err(e) => err_class(&e).to_string(),
        },
        Op::Stats => match cache.multi_layer_stats().await {
            Ok(st) => format!(
                "{} tracked={} promos={}",
                st.layer_stats.iter().map(|l| format!("{}/{}", l.hit_count, l.miss_count)).collect::<Vec<_>>().join(" "),
                st.tracked_entries, st.total_promotions
            ),
            Err(e) => err_class(&e).to_string(),
        },
        Op::FDel(i, k) => {
            if let Some(p) = file_of(dirs, *i, *k) { let _ = std::fs::remove_file(p); }
            "ok".to_string()
        }
        Op::FSet(i, k, v) => {
            if let Some(p) = file_of(dirs, *i, *k) {
                if let Some(d) = p.parent() { let _ = std::fs::create_dir_all(d); }
                std::fs::write(p, v).expect("fault injection write");
            }
            "ok".to_string()
        }
        Op::SkipProbe(len) => {
            // a fresh one-layer cache with the case's hooks: is a value of `len` bytes that does
            // not hash to the content key handed out by get_with_validation?
            let mut c = MemoryCacheConfig::new().with_max_entries(4);
            c.max_memory_bytes = None;
            c.cleanup_interval = LONG;
            match MultiLayerCacheImpl::<RibbitKey>::new(MultiLayerCacheConfig::new().add_memory_layer(c)) {
                Ok(mut probe) => {
                    let hk = hooks(&cfg.hooks);
                    let has = hk.is_some();
                    probe.set_validation_hooks(hk);
                    let v = Bytes::from(vec![0x5Au8; *len]);
                    let wrong = ContentKey::from_data(b"some other content");
                    let _ = probe.put(key(0), v).await;
                    match probe.get_with_validation(&key(0), Some(wrong)).await {
                        _ if !has => "nohooks".to_string(),
                        Ok(Some(_)) => "skipped".to_string(),
                        Ok(None) => "none".to_string(),
                        Err(CacheError::Corruption(_)) | Err(CacheError::Backend(_)) => "checked".to_string(),
                        Err(e) => err_class(&e).to_string(),
                    }
                }
                Err(_) => "err:config".to_string(),
            }
        }
        Op::Raw(_) => "bad-op".to_string(),
    };
    if wrote && any_short { std::thread::sleep(SHORT_SLEEP); }
    resp
}

enum Cmd {
    Run(Op),
    /// entry count and bytes of one layer (`layer_stats`: reads two atomics, no side effects)
    Peek(usize),
    Quit,
}

struct Worker {
    tx: Sender<Cmd>,
    rx: Receiver<String>,
    handle: Option<std::thread::JoinHandle<()>>,
    dead: bool,
}

impl Worker {
    /// returns the worker and the answer to the `begin` line
    fn start(cfg: Cfg, dirs: Vec<Option<PathBuf>>) -> (Worker, String) {
        let (tx, crx) = channel::<Cmd>();
        let (rtx, rx) = channel::<String>();
        let handle = std::thread::Builder::new().name("c12-worker".into()).spawn(move || {
            let rt = tokio::runtime::Builder::new_current_thread().enable_all().build().expect("rt");
            let cache = rt.block_on(async { build_cache(&cfg, &dirs) });
            let cache = match cache {
                Ok(c) => { let _ = rtx.send("ok".to_string()); c }
                Err(()) => { let _ = rtx.send("err:config".to_string()); return; }
            };
            loop {
                let r = match crx.recv() {
                    Ok(Cmd::Run(op)) => {
                        advance_clocks();
                        catch(std::panic::AssertUnwindSafe(|| rt.block_on(exec(&cache, &cfg, &dirs, &op)))).unwrap_or_else(|_| "panic".to_string())
                    }
                    Ok(Cmd::Peek(i)) => match rt.block_on(cache.layer_stats(i)) {
                        Ok(st) => format!("{} {}", st.entry_count, st.memory_usage_bytes),
                        Err(e) => err_class(&e).to_string(),
                    },
                    _ => break,
                };
                if rtx.send(r).is_err() { break; }
            }
            rt.block_on(async { drop(cache) });
        }).expect("spawn worker");
        let mut w = Worker { tx, rx, handle: Some(handle), dead: false };
        let first = w.rx.recv_timeout(WATCHDOG).unwrap_or_else(|_| { w.dead = true; "timeout".to_string() });
        (w, first)
    }
    fn call(&mut self, op: &Op) -> String {
        if self.dead { return "dead".to_string(); }
        if self.tx.send(Cmd::Run(op.clone())).is_err() { self.dead = true; return "dead".to_string(); }
        // the skip probe allocates > 100 MiB: give it more time
        let limit = if matches!(op, Op::SkipProbe(n) if *n > 1 << 20) { WATCHDOG * 5 } else { WATCHDOG };
        match self.rx.recv_timeout(limit) {
            Ok(r) => r,
            Err(_) => { self.dead = true; "timeout".to_string() }
        }
    }
    /// (entry_count, memory_usage_bytes) of layer `i`
    fn peek(&mut self, i: usize) -> Option<(usize, usize)> {
        if self.dead || self.tx.send(Cmd::Peek(i)).is_err() { return None; }
        match self.rx.recv_timeout(WATCHDOG) {
            Ok(r) => { let (a, b) = r.split_once(' ')?; Some((a.parse().ok()?, b.parse().ok()?)) }
            Err(_) => { self.dead = true; None }
        }
    }
    fn stop(mut self) {
        if !self.dead {
            let _ = self.tx.send(Cmd::Quit);
            if let Some(h) = self.handle.take() { let _ = h.join(); }
        }
        // a dead worker is blocked inside the lock for good: leave it behind
    }
}

// ---------------------------------------------------------------- oracle shadow

#[derive(Clone, Debug, PartialEq)]
enum Know {
    Absent,
    Holds(Vec<u8>),
    Unknown,
}

struct Shadow {
    nlayers: usize,
    mem: Vec<bool>,
    /// (layer, key) → knowledge; missing = Absent
    cell: BTreeMap<(usize, usize), Know>,
    /// value of the latest successful put for the key (None: removed / cleared / expired / never put)
    latest: BTreeMap<usize, Option<Vec<u8>>>,
    /// layer the latest put went to
    latest_layer: BTreeMap<usize, usize>,
    /// every value written for the key since it was last removed/cleared, with the layer it went to
    written: BTreeMap<usize, Vec<(Vec<u8>, usize)>>,
    /// values planted by faults (layer, key)
    planted: BTreeMap<(usize, usize), Vec<Vec<u8>>>,
    /// keys dropped because validation found them corrupted; cleared by the next write to the key
    dropped: BTreeSet<usize>,
    /// keys removed / cleared and not written since
    removed: BTreeSet<usize>,
    /// (layer, key) whose index entry carries an ended TTL (a file planted there is deleted, not served)
    expired_idx: BTreeSet<(usize, usize)>,
}

impl Shadow {
    fn new(cfg: &Cfg) -> Shadow {
        Shadow {
            nlayers: cfg.layers.len(), mem: cfg.layers.iter().map(|l| l.is_mem()).collect(), cell: BTreeMap::new(), latest: BTreeMap::new(),
            latest_layer: BTreeMap::new(), written: BTreeMap::new(), planted: BTreeMap::new(), dropped: BTreeSet::new(), removed: BTreeSet::new(), expired_idx: BTreeSet::new(),
        }
    }
    fn know(&self, i: usize, k: usize) -> Know { self.cell.get(&(i, k)).cloned().unwrap_or(Know::Absent) }
    /// a successful write of (k, v) into layer i with TTL class `short`
    fn write(&mut self, i: usize, k: usize, v: &[u8], short: bool, is_put: bool) {
        if self.mem[i] {
            // a memory layer may evict anything else it holds
            for ((l, k2), c) in self.cell.iter_mut() {
                if *l == i && *k2 != k && matches!(c, Know::Holds(_)) { *c = Know::Unknown; }
            }
        }
        self.cell.insert((i, k), if short { Know::Absent } else { Know::Holds(v.to_vec()) });
        if short { self.expired_idx.insert((i, k)); } else { self.expired_idx.remove(&(i, k)); }
        self.planted.remove(&(i, k));
        if is_put {
            self.latest.insert(k, if short { None } else { Some(v.to_vec()) });
            self.latest_layer.insert(k, i);
            self.dropped.remove(&k);
            self.removed.remove(&k);
        }
        if !short { self.written.entry(k).or_default().push((v.to_vec(), i)); }
    }
    fn remove(&mut self, k: usize) {
        for i in 0..self.nlayers { self.cell.insert((i, k), Know::Absent); self.planted.remove(&(i, k)); self.expired_idx.remove(&(i, k)); }
        self.latest.insert(k, None);
        self.written.remove(&k);
        self.removed.insert(k);
    }
    fn clear(&mut self) {
        let keys: BTreeSet<usize> = self.cell.keys().map(|(_, k)| *k).chain(self.latest.keys().copied()).collect();
        for k in keys { self.remove(k); }
    }
    /// what the layer scan must answer, if the shadow knows: Some(Some(v)) / Some(None) / None
    fn expect(&self, k: usize) -> Option<Option<(usize, Vec<u8>)>> {
        for i in 0..self.nlayers {
            match self.know(i, k) {
                Know::Holds(v) => return Some(Some((i, v))),
                Know::Absent => {}
                Know::Unknown => return None,
            }
        }
        Some(None)
    }
}

// ---------------------------------------------------------------- one case

struct Case {
    cfg: Option<Cfg>,
    worker: Option<Worker>,
    _root: Option<tempfile::TempDir>,
    sh: Option<Shadow>,
    lines: Vec<String>,
    reported: BTreeSet<String>,
    nontrivial: BTreeSet<&'static str>,
    timeouts: u32,
    /// every key a call of this case named
    keys: BTreeSet<usize>,
    /// (layer, key) that may be stored with an ended TTL and was not read since (bookkeeping of the
    /// victims observation only; a wrong entry costs coverage, never correctness)
    unswept: BTreeSet<(usize, usize)>,
    /// oracle-only case: the calls run on the real cache under the oracle, no request lines are
    /// written (the model is not asked); a failure carries the whole script as its replay
    silent: bool,
}

fn temp_root() -> tempfile::TempDir {
    let shm = std::path::Path::new("/dev/shm");
    if shm.is_dir() {
        if let Ok(d) = tempfile::Builder::new().prefix("verif-c12-").tempdir_in(shm) {
            return d;
        }
    }
    tempfile::Builder::new().prefix("verif-c12-").tempdir().expect("tempdir")
}

fn md5_of(v: &[u8]) -> [u8; 16] { md5::compute(v).0 }

impl Case {
    fn begin(s: &mut Session, line: &str) -> Case { Case::begin_mode(s, line, false) }

    fn begin_mode(s: &mut Session, line: &str, silent: bool) -> Case {
        let toks: Vec<&str> = line.split(' ').filter(|t| !t.is_empty()).collect();
        let mut c = Case { cfg: None, worker: None, _root: None, sh: None, lines: vec![], reported: BTreeSet::new(), nontrivial: BTreeSet::new(), timeouts: 0, keys: BTreeSet::new(), unswept: BTreeSet::new(), silent };
        match Cfg::parse(&toks) {
            Ok(cfg) => {
                let root = temp_root();
                let dirs: Vec<Option<PathBuf>> = cfg.layers.iter().enumerate().map(|(i, l)| if l.is_mem() { None } else { Some(root.path().join(format!("layer{i}"))) }).collect();
                let (w, first) = Worker::start(cfg.clone(), dirs);
                c.emit(s, line.to_string(), first.clone());
                if first == "ok" {
                    c.sh = Some(Shadow::new(&cfg));
                    c.cfg = Some(cfg);
                    c.worker = Some(w);
                } else {
                    w.stop();
                }
                c._root = Some(root);
            }
            Err(true) => c.emit(s, line.to_string(), "err:config".to_string()),
            Err(false) => c.emit(s, line.to_string(), "bad-op".to_string()),
        }
        c
    }

    fn emit(&mut self, s: &mut Session, req: String, resp: String) {
        if !self.silent { s.line(&req, &canon(&resp)); }
        self.lines.push(req);
    }

    fn fail(&mut self, s: &mut Session, sig: &str, msg: String) {
        if self.reported.insert(sig.to_string()) {
            let m = format!("{msg} [config: {}]", self.cfg.as_ref().map_or("-".to_string(), |c| c.line()));
            s.oracle_fail(sig, &m, &self.lines);
        }
    }

    /// O on one value handed out for key `k` by an unvalidated or validated read
    fn judge_read(&mut self, s: &mut Session, what: &str, k: usize, got: Option<&[u8]>, via_layer: Option<usize>) {
        let sh = self.sh.as_ref().expect("shadow");
        let mut fails: Vec<(String, String)> = vec![];
        // (1) mechanism: first layer, in order, that holds the key
        let exp = match via_layer {
            Some(i) => match sh.know(i, k) { Know::Holds(v) => Some(Some((i, v))), Know::Absent => Some(None), Know::Unknown => None },
            None => sh.expect(k),
        };
        if let Some(e) = &exp {
            match (e, got) {
                (Some((_, v)), Some(g)) if v[..] == *g => {}
                (None, None) => {}
                (Some((i, v)), None) => fails.push(("ml-lost-value".into(), format!("{what} -> none although layer {i} holds {} for the key and no faster layer holds it", show_v(v)))),
                (Some((i, v)), Some(g)) => {
                    let lower = (0..sh.nlayers).any(|j| j > *i && sh.know(j, k) == Know::Holds(g.to_vec()));
                    let sig = if lower { "ml-wrong-layer-order" } else { "ml-foreign-value" };
                    fails.push((sig.into(), format!("{what} -> {} although layer {i}, the first that holds the key, holds {}", show_v(g), show_v(v))));
                }
                (None, Some(g)) => {
                    let sig = if sh.removed.contains(&k) { "ml-served-after-remove" } else if sh.dropped.contains(&k) { "ml-corrupt-served-later" } else { "ml-phantom-value" };
                    fails.push((sig.into(), format!("{what} -> {} although no layer holds the key", show_v(g))));
                }
            }
        }
        // (2) the property: the value of the latest put for the key, or nothing
        if let Some(g) = got {
            let latest = sh.latest.get(&k).cloned().flatten();
            if latest.as_deref() != Some(g) {
                let planted = (0..sh.nlayers).any(|i| sh.planted.get(&(i, k)).is_some_and(|p| p.iter().any(|x| x[..] == *g)));
                // layers this (older) value of the same key was written to since the key was last removed
                let older: BTreeSet<usize> = sh.written.get(&k).map(|w| w.iter().filter(|(v, _)| v[..] == *g).map(|(_, l)| *l).collect()).unwrap_or_default();
                let ll = sh.latest_layer.get(&k).copied();
                if planted {
                    s.tally("read.planted-bytes-served-unvalidated");
                } else if let (false, Some(ll)) = (older.is_empty(), ll) {
                    // an older value of the same key, left in another layer, while the latest put went to layer `ll`
                    let sig = if older.iter().any(|ol| *ol > ll) { "ml-stale-lower-layer" } else if older.iter().any(|ol| *ol < ll) { "ml-stale-shadowed-by-upper-layer" } else { "ml-replaced-value-served" };
                    fails.push((sig.into(), format!("{what} -> {} which is an older value of the key, written to layer(s) {older:?}; the latest put ({}) went to layer {ll}", show_v(g), latest.as_ref().map_or("expired".to_string(), |v| show_v(v)))));
                } else if sh.removed.contains(&k) {
                    if !fails.iter().any(|f| f.0 == "ml-served-after-remove") { fails.push(("ml-served-after-remove".into(), format!("{what} -> {} after remove/clear", show_v(g)))); }
                } else if !fails.iter().any(|f| f.0 == "ml-phantom-value" || f.0 == "ml-foreign-value" || f.0 == "ml-corrupt-served-later") {
                    fails.push(("ml-foreign-value".into(), format!("{what} -> {} which was never put for this key", show_v(g))));
                }
            } else {
                s.tally("read.latest");
            }
        } else {
            s.tally("read.none");
        }
        // a stale value explains a "wrong layer order"/"lost" verdict only if the mechanism check passed
        for (sig, msg) in fails { self.fail(s, &sig, msg); }
        // observation refines the shadow
        let sh = self.sh.as_mut().expect("shadow");
        if let Some(i) = via_layer {
            if sh.know(i, k) == Know::Unknown {
                sh.cell.insert((i, k), got.map_or(Know::Absent, |g| Know::Holds(g.to_vec())));
            }
        }
    }

    /// (entries to evict, target) if a put into memory layer `i` is due to evict by the policy now
    /// (`needs_eviction` and `current_entries > target_entries`), from `layer_stats` alone
    fn evict_due(&mut self, cfg: &Cfg, i: usize) -> Option<(usize, usize)> {
        let LSpec::Mem { max, bytes, .. } = &cfg.layers[i] else { return None };
        let (n0, b0) = self.worker.as_mut().expect("worker").peek(i)?;
        let target = max * 90 / 100;
        let needs = n0 >= *max || bytes.is_some_and(|m| b0 >= m);
        if needs && n0 > target { Some((n0 - target, target)) } else { None }
    }

    /// the memory layer and key a call writes, if the call is a single layer put
    fn write_target(op: &Op, cfg: &Cfg) -> Option<(usize, usize)> {
        let n = cfg.layers.len();
        let t = match op {
            Op::Put(k, _) | Op::PutTtl(k, _, _) | Op::PutV(k, _, _) => Some((0, *k)),
            Op::BPut(kvs) if kvs.len() == 1 => Some((0, kvs[0].0)),
            Op::PutL(k, _, i) if *i < n => Some((*i, *k)),
            Op::Promote(k, a, b) if *a < n && *b < n && a > b => Some((*b, *k)),
            _ => None,
        };
        t.filter(|(i, _)| cfg.layers[*i].is_mem())
    }

    /// a `bput` of several items the protocol excludes (see the head of this file)
    fn outside_protocol(op: &Op, cfg: &Cfg) -> bool {
        match (op, &cfg.layers[0]) {
            (Op::BPut(kvs), LSpec::Mem { pol, dshort, .. }) => kvs.len() >= 2 && (pol.hinted() || (*pol == Pol::Ttl && *dshort)),
            _ => false,
        }
    }

    fn op_keys(op: &Op) -> Vec<usize> {
        match op {
            Op::Put(k, _) | Op::PutTtl(k, _, _) | Op::PutL(k, _, _) | Op::Get(k) | Op::GetL(k, _) | Op::Promote(k, _, _) | Op::Remove(k)
            | Op::PutV(k, _, _) | Op::GetV(k, _) | Op::FDel(_, k) | Op::FSet(_, k, _) => vec![*k],
            Op::BGet(ks) => ks.clone(),
            Op::BPut(kvs) => kvs.iter().map(|(k, _)| *k).collect(),
            _ => vec![],
        }
    }

    /// run one call on the real cache, write its request line, evaluate the oracle; returns the answer
    fn apply(&mut self, s: &mut Session, op: &Op) -> String {
        s.tally(&format!("op.{}", op_name(op)));
        let mut line = op_line(op);
        let Some(cfg) = self.cfg.clone() else {
            self.emit(s, line, "bad-op".into());
            return "bad-op".into();
        };
        if let Op::Raw(_) = op {
            self.emit(s, line, "bad-op".into());
            return "bad-op".into();
        }
        if Case::outside_protocol(op, &cfg) {
            s.tally("op.bput.outside-protocol");
            self.emit(s, line, "bad-op".into());
            return "bad-op".into();
        }
        self.keys.extend(Case::op_keys(op));
        let lens: Vec<usize> = match op {
            Op::Put(_, v) | Op::PutTtl(_, v, _) | Op::PutL(_, v, _) | Op::PutV(_, _, v) | Op::FSet(_, _, v) => vec![v.len()],
            Op::BPut(kvs) => kvs.iter().map(|(_, v)| v.len()).collect(),
            _ => vec![],
        };
        for l in lens {
            s.tally(&format!("value.len.{}{}", match l { 0 => "0", 1..=64 => "1-64", 65..=4095 => "65-4095", 4096..=65534 => "4096-65534", 65535..=262145 => "65535-262145", _ => "above-262145" }, if self.silent { ".oracle-only" } else { "" }));
        }
        // ---- victims of an Lfu / Random layer are observed, not computed
        struct Obs { layer: usize, key: usize, before: Vec<usize>, unobserved: Option<usize>, n_ev: usize, target: usize }
        let mut obs: Option<Obs> = None;
        if let Some((i, wk)) = Case::write_target(op, &cfg) {
            let pol = cfg.layers[i].pol().expect("memory layer");
            if self.evict_due(&cfg, i).is_some() { s.tally(&format!("put.at-capacity.{}", pol.text())); }
            if pol.hinted() && self.evict_due(&cfg, i).is_some() {
                // leave at most one key that may be stored with an ended TTL unread, read all others
                let unobserved = self.keys.iter().copied().find(|k| self.unswept.contains(&(i, *k)));
                let mut before = vec![];
                for q in self.keys.clone() {
                    if Some(q) == unobserved { continue; }
                    let r = self.apply(s, &Op::GetL(q, i));
                    if self.timeouts > 0 { return r; }
                    if r.starts_with("val ") { before.push(q); }
                }
                if let Some((n_ev, target)) = self.evict_due(&cfg, i) {
                    obs = Some(Obs { layer: i, key: wk, before, unobserved, n_ev, target });
                }
            }
            if self.evict_due(&cfg, i).is_some() && self.unswept.iter().any(|(l, _)| *l == i) {
                s.tally(&format!("put.at-capacity.maybe-expired-entry.{}", pol.text()));
                self.nontrivial.insert("expired-at-capacity");
            }
        }
        let resp = self.worker.as_mut().expect("worker").call(op);
        let mut probes: Vec<(Op, String)> = vec![];
        if let Some(o) = obs.filter(|_| resp == "ok" || resp == "true") {
            let w = self.worker.as_mut().expect("worker");
            let n1 = w.peek(o.layer).map_or(usize::MAX, |x| x.0);
            let mut gone = vec![];
            for q in o.before.iter().copied().filter(|q| *q != o.key) {
                let pr = Op::GetL(q, o.layer);
                let r = w.call(&pr);
                if r == "none" { gone.push(q); }
                probes.push((pr, r));
            }
            // the written key was there, was evicted and came back iff one more entry is counted
            let own = o.before.contains(&o.key) && n1 == o.target + 1;
            let rest = o.n_ev as i64 - gone.len() as i64 - own as i64;
            if own { gone.push(o.key); }
            // what is left over is the one key nobody read (possibly the written key itself)
            if let (1, Some(c)) = (rest, o.unobserved) { gone.push(c); }
            if o.unobserved.is_some() { s.tally(if rest == 1 { "put.victims-observed.unread-key-evicted" } else { "put.victims-observed.unread-key-kept-or-absent" }); }
            if own { s.tally("put.victims-observed.own-key-evicted"); }
            gone.sort();
            line = format!("{line} ev={}", if gone.is_empty() { "-".to_string() } else { gone.iter().map(|x| x.to_string()).collect::<Vec<_>>().join(",") });
            self.nontrivial.insert("victims-observed");
            s.tally("put.victims-observed");
        }
        self.emit(s, line.clone(), resp.clone());
        self.judge(s, op, &cfg, &line, &resp);
        for (pr, r) in probes {
            s.tally(&format!("op.{}", op_name(&pr)));
            let l = op_line(&pr);
            self.emit(s, l.clone(), r.clone());
            self.judge(s, &pr, &cfg, &l, &r);
        }
        resp
    }

    fn track_unswept(&mut self, op: &Op, cfg: &Cfg, resp: &str) {
        let n = cfg.layers.len();
        let wrote = |u: &mut BTreeSet<(usize, usize)>, i: usize, k: usize, short: bool| { if short { u.insert((i, k)); } else { u.remove(&(i, k)); } };
        match op {
            Op::Put(k, _) | Op::PutV(k, _, _) if resp == "ok" => wrote(&mut self.unswept, 0, *k, cfg.layers[0].dshort()),
            Op::PutTtl(k, _, short) if resp == "ok" => wrote(&mut self.unswept, 0, *k, *short),
            Op::BPut(kvs) if resp == "ok" => for (k, _) in kvs { wrote(&mut self.unswept, 0, *k, cfg.layers[0].dshort()); },
            Op::PutL(k, _, i) if resp == "ok" && *i < n => wrote(&mut self.unswept, *i, *k, cfg.layers[*i].dshort()),
            Op::Promote(k, _, b) if resp == "true" && *b < n => wrote(&mut self.unswept, *b, *k, cfg.layers[*b].dshort()),
            Op::GetL(k, i) => { self.unswept.remove(&(*i, *k)); }
            Op::Get(k) | Op::GetV(k, _) => {
                self.unswept.remove(&(0, *k));
                if resp.starts_with("err:") { self.unswept.retain(|(_, q)| q != k); }
            }
            Op::BGet(ks) => for k in ks { self.unswept.remove(&(0, *k)); },
            Op::Remove(k) => self.unswept.retain(|(_, q)| q != k),
            Op::Clear => self.unswept.clear(),
            _ => {}
        }
    }

    /// O on one answered call (and the bookkeeping that follows from it)
    fn judge(&mut self, s: &mut Session, op: &Op, cfg: &Cfg, line: &str, resp: &str) {
        let line = line.to_string();
        let resp = resp.to_string();
        if resp == "timeout" {
            self.timeouts += 1;
            let shape = match op {
                Op::Get(k) => {
                    let sh = self.sh.as_ref().expect("shadow");
                    match sh.expect(*k) { Some(Some((i, _))) if i > 0 => "get-served-by-lower-layer".to_string(), Some(Some(_)) => "get-served-by-first-layer".to_string(), _ => "get".to_string() }
                }
                // a write: the layer written and its eviction policy are part of the shape
                o => match Case::write_target(o, cfg).or(match o { Op::BPut(_) => Some((0, 0)), _ => None }).filter(|(i, _)| cfg.layers[*i].is_mem()) {
                    Some((i, _)) => format!("{}-into-{}-layer", op_name(o), cfg.layers[i].pol().map_or("disk", |p| p.text())),
                    None => op_name(o).to_string(),
                },
            };
            self.fail(s, &format!("ml-hang-{shape}"), format!("{line} did not return within {} s", WATCHDOG.as_secs()));
            return;
        }
        if resp == "dead" { return; }
        if resp == "panic" {
            self.fail(s, &format!("ml-panic-{}", op_name(op)), format!("{line} panicked"));
            return;
        }
        self.track_unswept(op, cfg, &resp);
        let n = cfg.layers.len();
        let val = |r: &str| -> Option<Option<Vec<u8>>> {
            if r == "none" { Some(None) } else { r.strip_prefix("val ").and_then(unhex).map(Some) }
        };
        match op {
            Op::Put(k, v) | Op::PutTtl(k, v, _) => {
                let short = match op { Op::PutTtl(_, _, sh) => *sh, _ => cfg.layers[0].dshort() };
                if resp == "ok" { self.sh.as_mut().unwrap().write(0, *k, v, short, true); } else { self.fail(s, "ml-put-error", format!("{line} -> {resp}")); }
                if short { self.nontrivial.insert("short-ttl"); }
            }
            Op::PutL(k, v, i) => {
                if *i >= n {
                    if resp != "err:config" { self.fail(s, "ml-layer-index", format!("{line} -> {resp}, expected an invalid-layer error")); }
                } else if resp == "ok" {
                    self.sh.as_mut().unwrap().write(*i, *k, v, cfg.layers[*i].dshort(), true);
                    if *i > 0 { self.nontrivial.insert("lower-layer-write"); }
                } else { self.fail(s, "ml-put-error", format!("{line} -> {resp}")); }
            }
            Op::BPut(kvs) => {
                if resp == "ok" { for (k, v) in kvs { self.sh.as_mut().unwrap().write(0, *k, v, cfg.layers[0].dshort(), true); } } else { self.fail(s, "ml-put-error", format!("{line} -> {resp}")); }
            }
            Op::PutV(k, ck, v) => {
                let good = md5_of(v) == *ck;
                let checking = matches!(cfg.hooks.as_str(), "md5" | "ngdp") && v.len() <= SKIP_ABOVE;
                match resp.as_str() {
                    "ok" => {
                        if checking && !good { self.fail(s, "ml-putv-accepted-invalid", format!("{line} -> ok although the value does not hash to the content key")); }
                        self.sh.as_mut().unwrap().write(0, *k, v, cfg.layers[0].dshort(), true);
                        s.tally("putv.ok");
                    }
                    "err:validation" => {
                        if good || !checking { self.fail(s, "ml-putv-rejected-valid", format!("{line} -> {resp} although the value hashes to the content key / no checking hooks")); }
                        s.tally("putv.rejected"); self.nontrivial.insert("validation-reject");
                    }
                    "err:backend" if cfg.hooks == "err" => { s.tally("putv.hook-error"); }
                    _ => self.fail(s, "ml-put-error", format!("{line} -> {resp}")),
                }
            }
            Op::Get(k) => match val(&resp) {
                Some(g) => {
                    let served_low = matches!(self.sh.as_ref().unwrap().expect(*k), Some(Some((i, _))) if i > 0);
                    if served_low && g.is_some() { self.nontrivial.insert("served-by-lower-layer"); }
                    self.judge_read(s, &line, *k, g.as_deref(), None)
                }
                None => self.fail(s, "ml-get-error", format!("{line} -> {resp}")),
            },
            Op::GetL(k, i) => {
                if *i >= n {
                    if resp != "err:config" { self.fail(s, "ml-layer-index", format!("{line} -> {resp}, expected an invalid-layer error")); }
                } else {
                    match val(&resp) {
                        Some(g) => self.judge_read(s, &line, *k, g.as_deref(), Some(*i)),
                        None if resp == "err:io" => {
                            // allowed only when the layer's file was deleted under it
                            let sh = self.sh.as_mut().unwrap();
                            if cfg.layers[*i].is_mem() { self.fail(s, "ml-get-error", format!("{line} -> {resp}")); } else { sh.cell.insert((*i, *k), Know::Absent); s.tally("getl.io-error"); }
                        }
                        None => self.fail(s, "ml-get-error", format!("{line} -> {resp}")),
                    }
                }
            }
            Op::BGet(ks) => {
                let parts: Option<Vec<Option<Vec<u8>>>> = resp.strip_prefix("vals ").map(|t| if t == "." { vec![] } else { t.split('|').map(|x| if x == "none" { None } else { unhex(x) }).collect() });
                match parts {
                    Some(p) if p.len() == ks.len() => {
                        for (k, g) in ks.iter().zip(p.iter()) { self.judge_read(s, &format!("{line} [key {k}]"), *k, g.as_deref(), None); }
                    }
                    _ => self.fail(s, "ml-batch-shape", format!("{line} -> {resp}: {} keys asked", ks.len())),
                }
            }
            Op::GetV(k, ock) => {
                let checking = ock.is_some() && matches!(cfg.hooks.as_str(), "md5" | "ngdp");
                match (val(&resp), resp.as_str()) {
                    (Some(g), _) => {
                        if let (Some(v), Some(ck), true) = (&g, ock, checking) {
                            if v.len() <= SKIP_ABOVE && md5_of(v) != *ck {
                                self.fail(s, "ml-validation-unsound", format!("{line} -> {} which does not hash to the content key", show_v(v)));
                            }
                            s.tally("getv.validated");
                        }
                        self.judge_read(s, &line, *k, g.as_deref(), None);
                    }
                    (None, "err:corruption") | (None, "err:backend") => {
                        // legitimate only if hooks and a key were supplied and some layer could hold a value that does not hash to it
                        let sh = self.sh.as_mut().unwrap();
                        let legit = match (resp.as_str(), cfg.hooks.as_str(), ock) {
                            ("err:backend", "err", Some(_)) => true,
                            ("err:corruption", "md5" | "ngdp", Some(ck)) => match sh.expect(*k) {
                                Some(Some((_, v))) => md5_of(&v) != *ck,
                                Some(None) => false,
                                None => true,
                            },
                            _ => false,
                        };
                        sh.remove(*k);
                        sh.removed.remove(k);
                        sh.dropped.insert(*k);
                        if !legit { self.fail(s, "ml-false-corruption", format!("{line} -> {resp} although the value the layers hold hashes to the content key (or no validating hooks / no key)")); }
                        s.tally("getv.corruption-dropped"); self.nontrivial.insert("corruption-dropped");
                    }
                    _ => self.fail(s, "ml-get-error", format!("{line} -> {resp}")),
                }
            }
            Op::Promote(k, a, b) => {
                if *a >= n || *b >= n {
                    if resp != "err:config" { self.fail(s, "ml-layer-index", format!("{line} -> {resp}, expected an invalid-layer error")); }
                } else {
                    let sh = self.sh.as_mut().unwrap();
                    let src = sh.know(*a, *k);
                    match resp.as_str() {
                        "true" => {
                            if a <= b { self.fail(s, "ml-promote-direction", format!("{line} -> true")); return; }
                            // bytes planted in the source file travel with the promotion (they stay "planted
                            // bytes served unvalidated" after the source file is gone)
                            let carried: Vec<Vec<u8>> = sh.planted.get(&(*a, *k)).cloned().unwrap_or_default();
                            match src {
                                Know::Holds(v) => {
                                    sh.write(*b, *k, &v, cfg.layers[*b].dshort(), false);
                                    if carried.contains(&v) { sh.planted.entry((*b, *k)).or_default().push(v); }
                                }
                                Know::Absent => { self.fail(s, "ml-promote-phantom", format!("{line} -> true although layer {a} does not hold the key")); }
                                Know::Unknown => {
                                    // the value moved is whatever layer a held: unknown to the shadow
                                    if sh.mem[*b] { for ((l, k2), c) in sh.cell.iter_mut() { if *l == *b && *k2 != *k && matches!(c, Know::Holds(_)) { *c = Know::Unknown; } } }
                                    sh.cell.insert((*b, *k), Know::Unknown);
                                    // … but it is one of the values written to layer a for this key: each of them may now sit in layer b
                                    let moved: Vec<(Vec<u8>, usize)> = sh.written.get(k).map(|w| w.iter().filter(|(_, l)| l == a).map(|(v, _)| (v.clone(), *b)).collect()).unwrap_or_default();
                                    sh.written.entry(*k).or_default().extend(moved);
                                    if !carried.is_empty() { sh.planted.entry((*b, *k)).or_default().extend(carried); }
                                }
                            }
                            self.nontrivial.insert("promotion");
                        }
                        "false" => {
                            if a > b { if let Know::Holds(v) = src { self.fail(s, "ml-lost-value", format!("{line} -> false although layer {a} holds {}", show_v(&v))); } }
                        }
                        "err:io" if !cfg.layers[*a].is_mem() => { sh.cell.insert((*a, *k), Know::Absent); }
                        _ => self.fail(s, "ml-get-error", format!("{line} -> {resp}")),
                    }
                }
            }
            Op::Remove(k) => {
                if resp != "true" && resp != "false" { self.fail(s, "ml-remove-error", format!("{line} -> {resp}")); }
                self.sh.as_mut().unwrap().remove(*k);
            }
            Op::Clear => {
                if resp != "ok" { self.fail(s, "ml-remove-error", format!("{line} -> {resp}")); }
                self.sh.as_mut().unwrap().clear();
            }
            Op::FDel(i, k) => {
                let sh = self.sh.as_mut().unwrap();
                if *i < n && !sh.mem[*i] {
                    sh.cell.insert((*i, *k), Know::Absent);
                    sh.planted.remove(&(*i, *k));
                    self.nontrivial.insert("fault-delete");
                }
            }
            Op::FSet(i, k, v) => {
                let sh = self.sh.as_mut().unwrap();
                if *i < n && !sh.mem[*i] {
                    // an indexed, expired entry makes the layer delete the file instead of serving it
                    let c = if cfg.layers[*i].dshort() || sh.expired_idx.contains(&(*i, *k)) { Know::Unknown } else { Know::Holds(v.clone()) };
                    sh.cell.insert((*i, *k), c);
                    sh.planted.entry((*i, *k)).or_default().push(v.clone());
                    sh.removed.remove(k);
                    sh.dropped.remove(k);
                    self.nontrivial.insert("fault-corrupt");
                }
            }
            Op::Stats => {}
            Op::SkipProbe(len) => {
                if resp == "skipped" && matches!(cfg.hooks.as_str(), "md5" | "ngdp") {
                    self.fail(s, "ml-validation-skipped-large", format!("get_with_validation hands out a {len}-byte value that does not hash to the supplied content key: the MD5 hooks skip validation above {SKIP_ABOVE} bytes"));
                    self.nontrivial.insert("skip-large");
                }
            }
            Op::Raw(_) => {}
        }
    }

    fn finish(mut self, s: &mut Session) -> u32 {
        if let Some(w) = self.worker.take() { w.stop(); }
        let keytxt = self.lines.join("\n");
        for t in &self.nontrivial { s.tally(&format!("case.{t}")); }
        if let Some(c) = &self.cfg {
            s.tally(&format!("cfg.layers.{}", c.layers.iter().map(|l| if l.is_mem() { "m" } else { "d" }).collect::<String>()));
            s.tally(&format!("cfg.hooks.{}", c.hooks));
            s.tally(&format!("cfg.strat.{}", c.strat.split(':').next().unwrap_or("")));
        }
        s.case(if self.nontrivial.is_empty() { None } else { Some(&keytxt) });
        self.timeouts
    }
}

fn run_script(s: &mut Session, lines: &[String]) -> u32 {
    let mut cur: Option<Case> = None;
    let mut t = 0;
    for l in lines {
        if l.split(' ').find(|t| !t.is_empty()) == Some("begin") {
            if let Some(c) = cur.take() { t += c.finish(s); }
            cur = Some(Case::begin(s, l));
        } else if let Some(c) = cur.as_mut() {
            c.apply(s, &parse_op(l));
        } else {
            s.line(l, "bad-op");
        }
    }
    if let Some(c) = cur.take() { t += c.finish(s); }
    t
}

// ---------------------------------------------------------------- generators

fn gen_cfg(rng: &mut Rng) -> Cfg {
    // all five eviction policies; a short default TTL now and then (every put leaves an entry that
    // has expired by the next call)
    let m = |rng: &mut Rng, tiny: bool| LSpec::Mem {
        max: if tiny { *rng.pick(&[1usize, 1, 2, 2, 3]) } else { *rng.pick(&[2usize, 3, 4, 10]) },
        bytes: *rng.pick(&[None, None, None, Some(12usize), Some(30)]),
        pol: *rng.pick(&[Pol::Lru, Pol::Lru, Pol::Lru, Pol::Fifo, Pol::Fifo, Pol::Lfu, Pol::Lfu, Pol::Random, Pol::Random, Pol::Ttl, Pol::Ttl, Pol::Ttl]),
        dshort: rng.chance(1, 10),
    };
    let d = LSpec::Disk { dshort: false };
    let layers = match rng.below(12) {
        0..=4 => vec![m(rng, true), d.clone()],
        5 | 6 => vec![m(rng, true), m(rng, false), d.clone()],
        7 => vec![m(rng, true), d.clone(), d.clone()],
        8 => vec![d.clone(), d.clone()],
        9 => vec![m(rng, true), m(rng, false)],
        10 => vec![d.clone(), m(rng, false), d.clone()],
        _ => vec![m(rng, true)],
    };
    let strat = match rng.below(8) { 0..=2 => "onhit".to_string(), 3 => "after:1".into(), 4 => format!("after:{}", rng.range(2, 4)), 5 => "manual".into(), 6 => "freq".into(), _ => "age".into() };
    let hooks = match rng.below(10) { 0..=4 => "md5", 5 => "ngdp", 6 | 7 => "none", 8 => "noop", _ => "err" }.to_string();
    Cfg { layers, strat, hooks, skip: SKIP_ABOVE }
}

fn value(rng: &mut Rng, seq: &mut u32) -> Vec<u8> {
    *seq += 1;
    // now and then a longer, generated payload: MD5 block / padding boundaries, 4 KiB multiples,
    // rarely the 64 KiB boundary (unique per write: the sequence number is the seed)
    if rng.chance(1, 32) {
        let len = if rng.chance(1, 24) { *rng.pick(&[65535usize, 65536, 65537]) } else { *rng.pick(&[55usize, 56, 57, 63, 64, 65, 66, 119, 120, 121, 127, 128, 129, 255, 256, 1000, 4095, 4096, 4097, 8192, 12288]) };
        return reg(&GVal::new(len, *seq as u64));
    }
    let n = match rng.below(10) { 0 => 0, 1 => 1, 2 => 2, 3 => 31, _ => rng.range(3, 14) as usize };
    let mut v: Vec<u8> = (0..n).map(|i| (i as u8).wrapping_mul(13).wrapping_add(*seq as u8)).collect();
    // unique per write whenever there is room: the sequence number leads
    if n == 1 { v[0] = *seq as u8; }
    if n >= 2 { v[0] = (*seq >> 8) as u8; v[1] = *seq as u8; }
    v
}

fn gen_case(rng: &mut Rng, s: &mut Session, nops: usize) -> u32 {
    let cfg = gen_cfg(rng);
    let n = cfg.layers.len();
    let mut case = Case::begin(s, &cfg.line());
    let pop = rng.range(2, 5) as usize;
    let mut seq = 0u32;
    // what the generator believes the latest value is (to aim content keys); not used by the oracle
    let mut last: BTreeMap<usize, Vec<u8>> = BTreeMap::new();
    let disk_layers: Vec<usize> = (0..n).filter(|i| !cfg.layers[*i].is_mem()).collect();
    let lower = |rng: &mut Rng| if n > 1 { rng.range(1, n as u64 - 1) as usize } else { 0 };
    let w_fault = if disk_layers.is_empty() { 0 } else { *rng.pick(&[0u64, 6, 12]) };
    // extra weight of puts whose TTL ends before the next call (they stay stored until somebody looks)
    let w_short = *rng.pick(&[0u64, 0, 5, 15]);
    // items of a batch put: a single one where the protocol excludes longer batches
    let max_batch = if Case::outside_protocol(&Op::BPut(vec![(0, vec![]), (0, vec![])]), &cfg) { 1 } else { 4 };
    for _ in 0..nops {
        if case.timeouts > 0 { break; }
        let k = rng.below(pop as u64) as usize;
        let x = rng.below(100 + w_short + w_fault);
        let op = match x {
            _ if x >= 100 && x < 100 + w_short => { let v = value(rng, &mut seq); Op::PutTtl(k, v, true) }
            0..=15 => { let v = value(rng, &mut seq); last.insert(k, v.clone()); Op::Put(k, v) }
            16..=27 => { let v = value(rng, &mut seq); let i = if rng.chance(1, 12) { n + rng.below(2) as usize } else if rng.chance(3, 4) { lower(rng) } else { rng.below(n as u64) as usize }; if i < n { last.insert(k, v.clone()); } Op::PutL(k, v, i) }
            28..=49 => Op::Get(k),
            50..=54 => Op::GetL(k, if rng.chance(1, 10) { n } else { rng.below(n as u64) as usize }),
            55..=59 => { let a = rng.below(n as u64 + 1) as usize; let b = if rng.chance(2, 3) { 0 } else { rng.below(n as u64 + 1) as usize }; Op::Promote(k, a, b) }
            60..=64 => Op::Remove(k),
            65 => Op::Clear,
            66..=70 => Op::BGet((0..rng.range(0, 5)).map(|_| rng.below(pop as u64) as usize).collect()),
            71..=74 => Op::BPut((0..rng.range(0, max_batch)).map(|_| { let k = rng.below(pop as u64) as usize; let v = value(rng, &mut seq); last.insert(k, v.clone()); (k, v) }).collect()),
            75..=80 => {
                let v = value(rng, &mut seq);
                let ck = if rng.chance(3, 4) { md5_of(&v) } else if rng.chance(1, 2) { md5_of(b"other") } else { let mut c = md5_of(&v); c[rng.below(16) as usize] ^= 1 << rng.below(8); c };
                if md5_of(&v) == ck || !matches!(cfg.hooks.as_str(), "md5" | "ngdp" | "err") { last.insert(k, v.clone()); }
                Op::PutV(k, ck, v)
            }
            81..=90 => {
                let ck = match rng.below(8) {
                    0 => None,
                    1 => Some(md5_of(b"other")),
                    2 => Some({ let mut c = last.get(&k).map_or([0u8; 16], |v| md5_of(v)); c[15] ^= 0x80; c }),
                    _ => Some(last.get(&k).map_or([0u8; 16], |v| md5_of(v))),
                };
                Op::GetV(k, ck)
            }
            91..=93 => { let v = value(rng, &mut seq); let sh = rng.chance(1, 2); if !sh { last.insert(k, v.clone()); } Op::PutTtl(k, v, sh) }
            94..=99 => Op::Stats,
            _ => {
                let i = if rng.chance(1, 10) { rng.below(n as u64) as usize } else { *rng.pick(&disk_layers) };
                if rng.chance(1, 2) { Op::FDel(i, k) } else {
                    // corruption: flip a bit of what the generator believes is stored, truncate it, extend it, or foreign bytes
                    let base = last.get(&k).cloned().unwrap_or_default();
                    let v = match rng.below(4) {
                        0 if !base.is_empty() => { let p = rng.below(base.len() as u64) as usize; flipped(&base, p, 1 << rng.below(8)) }
                        1 if !base.is_empty() => resized(&base, base.len() - 1),
                        2 => resized(&base, base.len() + *rng.pick(&[1usize, 1, 64])),
                        _ => value(rng, &mut seq),
                    };
                    Op::FSet(i, k, v)
                }
            }
        };
        case.apply(s, &op);
    }
    // closing sweep: every key through every read path
    if case.timeouts == 0 {
        for k in 0..pop { case.apply(s, &Op::Get(k)); }
        case.apply(s, &Op::BGet((0..pop).collect()));
        for k in 0..pop { let ck = last.get(&k).map(|v| md5_of(v)); case.apply(s, &Op::GetV(k, ck)); }
        for k in 0..pop { case.apply(s, &Op::Get(k)); }
        case.apply(s, &Op::Stats);
    }
    case.finish(s)
}

fn directed(s: &mut Session, thorough: bool) -> u32 {
    let mut t = 0;
    let two = "begin L=m:1:none:lru:long;d:long strat=onhit hooks=md5 skip=104857600";
    let sc = |v: &[&str]| v.iter().map(|x| x.to_string()).collect::<Vec<String>>();
    let ck = |v: &[u8]| hex(&md5_of(v));
    let scripts: Vec<Vec<String>> = vec![
        // configuration validation and protocol errors
        sc(&["begin L=m:0:none:lru:long;d:long strat=onhit hooks=none skip=104857600", "get 1"]),
        sc(&["begin L=m:2:0:lru:long strat=onhit hooks=none skip=104857600", "get 1"]),
        sc(&[two, "frobnicate 1", "get x", "putl 1 01 2", "getl 1 2", "promote 1 2 0", "promote 1 0 2", "promote 1 0 0", "promote 1 0 1", "getv 1 00", "stats"]),
        // a key that lives below the first layer is found, however often it is asked for, under every strategy
        sc(&[two, "putl 1 aa 1", "get 1", "get 1", "get 1", "getv 1 -", "bget 1,1", "stats"]),
        sc(&["begin L=m:1:none:lru:long;d:long strat=after:2 hooks=none skip=104857600", "putl 1 aa 1", "get 1", "get 1", "get 1", "stats"]),
        sc(&["begin L=m:1:none:lru:long;d:long strat=manual hooks=none skip=104857600", "putl 1 aa 1", "get 1", "get 1", "stats"]),
        sc(&["begin L=m:1:none:lru:long;d:long strat=freq hooks=none skip=104857600", "putl 1 aa 1", "get 1", "get 1", "stats"]),
        sc(&["begin L=m:1:none:lru:long;d:long strat=age hooks=none skip=104857600", "putl 1 aa 1", "get 1", "get 1", "stats"]),
        // put first (tracker entry exists), evict from the first layer, then the first lower-layer hit
        sc(&["begin L=m:1:none:lru:long;m:4:none:lru:long;d:long strat=onhit hooks=none skip=104857600", "put 1 aa", "promote 1 0 1", "putl 1 aa 2", "put 2 bb", "get 1", "get 1", "promote 1 2 0", "get 1", "stats"]),
        // remove / clear reach every layer
        sc(&[two, "put 1 aa", "putl 1 aa 1", "remove 1", "get 1", "getl 1 0", "getl 1 1", "put 2 bb", "putl 3 cc 1", "clear", "get 2", "get 3", "bget 1,2,3", "stats"]),
        // corruption found by validation is dropped everywhere and not served later
        vec![two.to_string(), "put 1 aa".into(), "putl 1 aa 1".into(), "fset 1 1 ab".into(), "put 2 bb".into(), format!("getv 1 {}", ck(&[0xaa])), "get 1".into(), "getl 1 1".into(), "stats".into()],
        vec![two.to_string(), format!("putv 1 {} aa", ck(&[0xaa])), format!("putv 2 {} bb", ck(&[0xaa])), "get 1".into(), "get 2".into(), format!("getv 1 {}", ck(&[0xaa])), format!("getv 1 {}", ck(&[0xbb])), "get 1".into()],
        // corruption found in the FIRST layer while a slower layer holds the same bad bytes: dropped from both
        vec![two.to_string(), "putl 1 ab 1".into(), "put 1 ab".into(), format!("getv 1 {}", ck(&[0xaa])), "get 1".into(), "getl 1 1".into(), "getl 1 0".into(), "stats".into()],
        // a content key that differs from the hash in its last bit only
        {
            let mut near = md5_of(&[0xaa]); near[15] ^= 1;
            vec![two.to_string(), "put 1 aa".into(), format!("getv 1 {}", hex(&near)), "get 1".into(), format!("putv 2 {} aa", hex(&near)), "get 2".into(), format!("putv 2 {} aa", ck(&[0xaa])), format!("getv 2 {}", ck(&[0xaa])), "stats".into()]
        },
        // a deleted disk file: the layer errors, the scan goes on
        sc(&["begin L=d:long;d:long strat=onhit hooks=none skip=104857600", "put 1 aa", "putl 1 aa 1", "fdel 0 1", "get 1", "getl 1 0", "stats"]),
    ];
    for scr in scripts { t += run_script(s, &scr); }
    if thorough {
        t += run_script(s, &sc(&[two, "skipprobe 104857600", "skipprobe 104857601"]));
    }
    t
}

/// The boundary family "a memory layer at capacity that still stores an entry whose TTL has ended
/// and that nobody has looked at since; then a call that puts into that layer": every eviction
/// policy x capacity 1-3 x expired entry oldest / newest x every call that reaches the layer's
/// put (put, put_with_ttl, batch_put, put_with_validation, promote, put_to_layer, re-put of the
/// expired key, re-put of a live key), first layer and second layer; then every key through
/// every read path. Stops after `budget` calls that did not return.
fn expired_at_capacity_family(s: &mut Session, budget: u32) -> u32 {
    let mut t = 0;
    let tail = "strat=onhit hooks=md5 skip=104857600";
    let val = |k: usize, gen_: u8| vec![k as u8, gen_, 0xee];
    for pol in Pol::ALL {
        for max in 1..=3usize {
            for late in [false, true] {
                for trig in 0..9 {
                    if t >= budget { return t; }
                    let mut c = Case::begin(s, &format!("begin L=m:{max}:none:{}:long;d:long {tail}", pol.text()));
                    // fill to capacity; key 1 carries the short TTL and is put first or last
                    let fill: Vec<usize> = if late { (2..=max).chain([1]).collect() } else { (1..=max).collect() };
                    for k in fill {
                        if k == 1 { c.apply(s, &Op::PutTtl(1, val(1, 0), true)); } else { c.apply(s, &Op::Put(k, val(k, 0))); }
                    }
                    let v = val(9, 1);
                    let ops = match trig {
                        0 => vec![Op::Put(9, v)],
                        1 => vec![Op::PutTtl(9, v, false)],
                        2 => vec![Op::PutTtl(9, v, true)],
                        3 => vec![Op::BPut(vec![(9, v)])],
                        4 => vec![Op::PutV(9, md5_of(&v), v)],
                        5 => vec![Op::PutL(9, v, 1), Op::Promote(9, 1, 0)],
                        6 => vec![Op::PutL(9, v, 0)],
                        7 => vec![Op::Put(1, val(1, 1))],
                        _ => vec![Op::Put(max, val(max, 1))],
                    };
                    for op in &ops { if c.timeouts == 0 { c.apply(s, op); } }
                    if c.timeouts == 0 {
                        let keys: Vec<usize> = (1..=max).chain([9]).collect();
                        for k in &keys { c.apply(s, &Op::Get(*k)); }
                        c.apply(s, &Op::Stats);
                        for k in &keys { c.apply(s, &Op::GetL(*k, 0)); }
                        c.apply(s, &Op::BGet(keys.clone()));
                        // a second round: the layer is at capacity again, nothing expired is left
                        c.apply(s, &Op::Put(8, val(8, 2)));
                        for k in &keys { c.apply(s, &Op::Get(*k)); }
                        c.apply(s, &Op::Stats);
                    }
                    t += c.finish(s);
                }
            }
        }
        // the same state in a SECOND-layer memory cache (short default TTL: put_to_layer and promote
        // use the layer's default), reached by put_to_layer and by promote from the disk layer
        for max in 1..=2usize {
            for trig in 0..2 {
                if t >= budget { return t; }
                let mut c = Case::begin(s, &format!("begin L=m:1:none:lru:long;m:{max}:none:{}:short;d:long {tail}", pol.text()));
                for k in 1..=max { c.apply(s, &Op::PutL(k, val(k, 0), 1)); }
                let v = val(9, 1);
                let ops = if trig == 0 { vec![Op::PutL(9, v, 1)] } else { vec![Op::PutL(9, v, 2), Op::Promote(9, 2, 1)] };
                for op in &ops { if c.timeouts == 0 { c.apply(s, op); } }
                if c.timeouts == 0 {
                    let keys: Vec<usize> = (1..=max).chain([9]).collect();
                    for k in &keys { c.apply(s, &Op::GetL(*k, 1)); }
                    for k in &keys { c.apply(s, &Op::Get(*k)); }
                    c.apply(s, &Op::Stats);
                }
                t += c.finish(s);
            }
        }
    }
    t
}


// ---------------------------------------------------------------- payload-size family

const BLOCK: usize = 64 * 1024;

/// the damaged variants of the generated payload `g`: (name, payload)
fn variants(g: &GVal, rng: &mut Rng) -> Vec<(&'static str, GVal)> {
    let n = g.len;
    let mut bit = || 1u8 << rng.below(8);
    let mut v: Vec<(&'static str, GVal)> = vec![];
    if n >= 1 {
        v.push(("flip-last-byte", g.flip(n - 1, bit())));
        v.push(("flip-first-byte", g.flip(0, bit())));
        v.push(("truncated-1", g.resized(n - 1)));
    }
    v.push(("extended-1", g.resized(n + 1)));
    if n >= 3 { v.push(("flip-middle-byte", g.flip(n / 2, bit()))); }
    if n > BLOCK {
        v.push(("flip-first-byte-of-last-64k-block", g.flip((n - 1) / BLOCK * BLOCK, bit())));
        v.push(("truncated-64k", g.resized(n - BLOCK)));
    }
    if n >= 4096 { v.push(("extended-64k", g.resized(n + BLOCK))); }
    if n > 64 {
        v.push(("flip-first-byte-of-last-md5-block", g.flip((n - 1) / 64 * 64, bit())));
        v.push(("truncated-64", g.resized(n - 64)));
    }
    v.push(("extended-64", g.resized(n + 64)));
    if n >= 1 { v.push(("empty", GVal::new(0, g.seed))); }
    v
}

#[derive(Clone, Copy, PartialEq)]
enum Depth {
    /// every variant through every path
    Full,
    /// the valid payload through every path, every variant through one path (rotating, starting
    /// with the number given)
    Rotating(usize),
    /// the valid payload through put and memory get or disk get, then one variant (picked by the
    /// number given) as a changed disk file and through put_with_validation
    Reduced(usize),
    /// disk layer only: valid payload served, last byte flipped on disk refused and dropped
    Minimal,
}

/// One payload length through the validated paths of one cache (`layers` must end in a disk layer):
/// put_with_validation of the valid payload, get_with_validation from the first layer and from the
/// disk layer, then damaged variants (A) offered to put_with_validation, (B) written over the disk
/// layer's file behind the cache, (C) put unvalidated into the first layer, each followed by
/// get_with_validation with the content key of the VALID payload and plain reads; the oracle of
/// `judge` decides every answer (accepted / refused / served unchanged / dropped everywhere).
fn payload_case(s: &mut Session, rng: &mut Rng, layers: &str, hooks: &str, strat: &str, len: usize, depth: Depth, silent: bool) -> u32 {
    let line = format!("begin L={layers} strat={strat} hooks={hooks} skip={SKIP_ABOVE}");
    let mut c = Case::begin_mode(s, &line, silent);
    let Some(cfg) = c.cfg.clone() else { return c.finish(s) };
    let dl = cfg.layers.len() - 1;
    let g = GVal::new(len, rng.below(1000));
    let v = reg(&g);
    let ck = md5_of(&v);
    s.tally(if silent { "payload.case.oracle-only" } else { "payload.case.k-compared" });
    s.tally(&format!("payload.len.{}", match len { 0..=64 => "0-64", 65..=4095 => "65-4095", 4096..=65534 => "4096-65534", 65535..=262145 => "65535-262145", _ => "above-262145" }));
    if len >= BLOCK - 1 && (len + 1) % BLOCK <= 2 { s.tally("payload.len.at-64k-multiple(-1,0,+1)"); }
    let vs = variants(&g, rng);
    let mut run = |c: &mut Case, s: &mut Session, op: Op| { if c.timeouts == 0 { c.apply(s, &op); } };
    let damaged = |c: &mut Case, s: &mut Session, run: &mut dyn FnMut(&mut Case, &mut Session, Op), name: &str, w: &[u8], path: char| {
        let w = w.to_vec();
        s.tally(&format!("payload.variant.{name}.{}", match path { 'A' => "putv", 'B' => "disk-file-changed", _ => "unvalidated-put" }));
        match path {
            'A' => { run(c, s, Op::PutV(3, ck, w)); run(c, s, Op::Get(3)); }
            'B' => {
                run(c, s, Op::PutL(2, v.clone(), dl));
                run(c, s, Op::FSet(dl, 2, w));
                run(c, s, Op::GetV(2, Some(ck)));
                run(c, s, Op::Get(2));
                run(c, s, Op::GetL(2, dl));
            }
            _ => { run(c, s, Op::Put(4, w)); run(c, s, Op::GetV(4, Some(ck))); run(c, s, Op::Get(4)); }
        }
    };
    match depth {
        Depth::Minimal => {
            run(&mut c, s, Op::PutL(2, v.clone(), dl));
            run(&mut c, s, Op::GetV(2, Some(ck)));
            if let Some((name, w)) = vs.first() { damaged(&mut c, s, &mut run, name, &reg(w), 'B'); }
        }
        Depth::Reduced(i) => {
            run(&mut c, s, Op::PutV(1, ck, v.clone()));
            if i % 2 == 0 { run(&mut c, s, Op::GetV(1, Some(ck))); }
            run(&mut c, s, Op::Get(1));
            if i % 2 == 1 { run(&mut c, s, Op::PutL(2, v.clone(), dl)); run(&mut c, s, Op::GetV(2, Some(ck))); }
            if !vs.is_empty() {
                let (name, w) = &vs[i % vs.len()];
                let w = reg(w);
                damaged(&mut c, s, &mut run, name, &w, 'B');
                damaged(&mut c, s, &mut run, name, &w, 'A');
            }
        }
        Depth::Full | Depth::Rotating(_) => {
            run(&mut c, s, Op::PutV(1, ck, v.clone()));
            run(&mut c, s, Op::GetV(1, Some(ck)));
            run(&mut c, s, Op::Get(1));
            run(&mut c, s, Op::PutL(2, v.clone(), dl));
            run(&mut c, s, Op::GetV(2, Some(ck)));
            for (j, (name, w)) in vs.iter().enumerate() {
                let w = reg(w);
                match depth {
                    Depth::Rotating(i) => damaged(&mut c, s, &mut run, name, &w, ['B', 'A', 'C'][(i + j) % 3]),
                    _ => for path in ['A', 'B', 'C'] { damaged(&mut c, s, &mut run, name, &w, path); },
                }
            }
            // the valid payload is still accepted after all that
            run(&mut c, s, Op::PutL(2, v.clone(), dl));
            run(&mut c, s, Op::GetV(2, Some(ck)));
            run(&mut c, s, Op::GetV(1, Some(ck)));
            run(&mut c, s, Op::BGet(vec![1, 2, 3, 4]));
        }
    }
    run(&mut c, s, Op::Stats);
    c.finish(s)
}

/// The payload-size family (see the head of this file). Stops after `budget` calls that did not return.
fn payload_family(s: &mut Session, rng: &mut Rng, thorough: bool, budget: u32) -> u32 {
    let mut t = 0;
    const LAYERS: [&str; 6] = [
        "m:2:none:lru:long;d:long", "d:long;d:long", "m:1:none:fifo:long;d:long", "m:3:none:lru:long;m:4:none:fifo:long;d:long",
        "m:2:none:ttl:long;d:long", "m:3:300000:lru:long;d:long",
    ];
    const STRATS: [&str; 4] = ["onhit", "after:2", "manual", "age"];
    let mut i = 0usize;
    let mut one = |s: &mut Session, rng: &mut Rng, len: usize, depth: Option<Depth>, silent: bool, t: &mut u32| {
        if *t >= budget { return; }
        let depth = depth.unwrap_or(Depth::Reduced(i));
        *t += payload_case(s, rng, LAYERS[i % LAYERS.len()], if i % 3 == 2 { "ngdp" } else { "md5" }, STRATS[i % STRATS.len()], len, depth, silent);
        i += 1;
    };
    // ---- through the request stream (K and O)
    // MD5 block and padding boundaries, powers of two: every variant through every path
    for len in [0usize, 1, 2, 55, 56, 57, 63, 64, 65, 119, 120, 121, 127, 128, 129, 255, 256, 257, 511, 512, 513, 1023, 1024, 1025, 2047, 2048, 2049] {
        one(s, rng, len, Some(Depth::Full), false, &mut t);
    }
    // powers of two and multiples of 4 KiB below 64 KiB
    for k in 12..=15 { for d in [-1i64, 0, 1] { one(s, rng, ((1i64 << k) + d) as usize, None, false, &mut t); } }
    for m in [3usize, 5, 12] { for d in [-1i64, 0, 1] { one(s, rng, (m as i64 * 4096 + d) as usize, None, false, &mut t); } }
    // len-1, len, len+1 at every multiple of 64 KiB up to 256 KiB (512 KiB and 1 MiB in the thorough tier)
    let top = if thorough { 8 } else { 4 };
    for j in 1..=top { for d in [-1i64, 0, 1] { one(s, rng, (j as i64 * BLOCK as i64 + d) as usize, None, false, &mut t); } }
    if thorough { for d in [-1i64, 0, 1] { one(s, rng, ((1i64 << 20) + d) as usize, None, false, &mut t); } }
    // a few random large ones: any length, a multiple of 4 KiB, a multiple of 64 KiB
    for _ in 0..(if thorough { 6 } else { 1 }) {
        let len = rng.range(BLOCK as u64 + 2, 300_000) as usize; one(s, rng, len, None, false, &mut t);
        let len = rng.range(17, 64) as usize * 4096; one(s, rng, len, None, false, &mut t);
        let len = rng.range(2, 4) as usize * BLOCK; one(s, rng, len, None, false, &mut t);
    }
    // ---- oracle only (the model is not asked): the dense sweep, every variant through every path
    // length → depth; a later, deeper entry replaces an earlier one
    let mut lens: BTreeMap<usize, Depth> = BTreeMap::new();
    let (top4k, top64k, top_pow, n_rand, max_rand) = if thorough { (256usize, 32usize, 24u32, 60, 3_000_000u64) } else { (80, 8, 21, 10, 600_000) };
    // every multiple of 4 KiB: the valid payload through every path and one variant (a wrong digest at
    // a length shows as the valid payload refused; a validation that is skipped accepts any variant)
    for m in 1..=top4k { lens.insert(m * 4096, Depth::Reduced(m)); }
    for _ in 0..n_rand { let len = rng.range(2050, max_rand) as usize; lens.insert(len, if thorough || len <= 270_000 { Depth::Rotating(len) } else { Depth::Reduced(len) }); }
    // powers of two and multiples of 64 KiB (-1, 0, +1): every variant, through every path up to 256 KiB
    let deep = |len: usize| if len > 2_000_000 { Depth::Reduced(len) } else if thorough || len <= 270_000 { Depth::Full } else { Depth::Reduced(len) };
    for k in 16..=top_pow { for d in [-1i64, 0, 1] { let len = ((1i64 << k) + d) as usize; lens.insert(len, deep(len)); } }
    for j in 1..=top64k { for d in [-1i64, 0, 1] { let len = (j as i64 * BLOCK as i64 + d) as usize; lens.insert(len, deep(len)); } }
    for (len, depth) in lens { one(s, rng, len, Some(depth), true, &mut t); }
    // DiskCache::read_file switches to another read routine at 16 MiB
    for len in [(16usize << 20) - 1, 16 << 20] { if t < budget { t += payload_case(s, rng, "m:2:none:lru:long;d:long", "md5", "onhit", len, Depth::Minimal, true); } }
    t
}

fn main() {
    let args = Args::parse();
    quiet_panics();
    let mut s = Session::new(&args.out);
    s.rule = "seeded histories of put / put_with_ttl / put_to_layer / get / get_from_layer / promote / remove / clear / batch_get / batch_put / put_with_validation / get_with_validation / stats over 1-3 layers (memory first layer of 1-3 entries, memory or disk below, also disk-first; memory layers with every eviction policy Lru / Fifo / Lfu / Random / Ttl, long or short default TTL; for Lfu / Random the victims are observed with per-layer reads and the entry count and handed to the model, which checks the choice is one the policy allows), extra weight on puts whose TTL ends before the next call, plus the directed family 'layer at capacity still storing an expired, untouched entry; then each call that puts into it' for every policy x capacity 1-3 x first / second layer, all promotion strategies, hooks none/md5/ngdp/noop/failing, 2-5 keys, interleaved with deletion and corruption (bit flip, truncation, extension, foreign bytes) of disk-layer files, values of 0-31 bytes and now and then a generated payload at an MD5 block / padding, 4 KiB or 64 KiB boundary; plus the payload-size family (validation depends on every byte at every length): for payload lengths 0-2049 around every MD5 block / padding boundary and power of two, 2^k and multiples of 4 KiB below 64 KiB (-1, 0, +1), every multiple of 64 KiB up to 256 KiB (-1, 0, +1; thorough: up to 512 KiB and 1 MiB) and random large ones, with MD5 / NGDP hooks over memory+disk, disk+disk and three-layer caches: the valid payload through put_with_validation and get_with_validation from the first layer and from the disk layer, and payloads with one bit flipped in the first / middle / last byte / first byte of the last 64 KiB or MD5 block, truncated or extended by 1 / 64 / 65536 bytes, or empty, offered to put_with_validation, written over the disk file, or put unvalidated into the first layer, then read validated and unvalidated (request stream, K and O); the same scripts under the oracle only (no request lines, the model is not asked) for every multiple of 4 KiB up to 320 KiB (thorough 1 MiB), every multiple of 64 KiB up to 512 KiB (thorough 2 MiB) and every power of two up to 2 MiB (thorough 16 MiB) (-1, 0, +1), random lengths and the 16 MiB read-path switch of the disk layer; every call under a watchdog; evaluations = histories; non-trivial = the history had a read served by a lower layer, a lower-layer write, a promotion, a validation reject, a corruption drop, a short TTL, a put into a layer at capacity that may still store an expired entry, observed victims or a file fault; distinct = canonical request text of the whole history".into();
    let mut rng = Rng::new(args.seed);

    if let Some(p) = &args.replay {
        let lines = read_case(p);
        run_script(&mut s, &lines);
        s.finish();
        return;
    }

    // development aid: `--random-only` skips the directed scripts (does the seeded generator alone
    // reach a defect?); `./check` never passes it
    let random_only = args.extra.iter().any(|a| a == "--random-only");
    let mut timeouts = if random_only { 0 } else { directed(&mut s, args.thorough()) };
    if !random_only { timeouts += expired_at_capacity_family(&mut s, 4u32.saturating_sub(timeouts)); }
    if !random_only { timeouts += payload_family(&mut s, &mut rng, args.thorough(), 4u32.saturating_sub(timeouts)); }
    let (cases, nops) = if args.thorough() { (4000, 90) } else { (350, 60) };
    for i in 0..cases {
        // a hanging build hangs on almost every history: a handful of witnesses is enough
        if timeouts >= 4 { s.tally("gen.stopped-after-timeouts"); break; }
        let n = if i % 10 == 0 { nops * 2 } else { rng.range(8, nops as u64) as usize };
        timeouts += gen_case(&mut rng, &mut s, n);
    }
    s.finish();
}
