//! C09 — cipher and hash primitives: real code vs Lean model (K) and the property's oracle (O):
//! self round trip, piecewise = whole, accelerated = scalar, published known answers.
use cascette_cache::simd::{CpuFeatures, SimdHashOperations, SimdMemoryOps};
use cascette_crypto::arc4::Arc4Cipher;
use cascette_crypto::jenkins::{Jenkins96, hashlittle, hashlittle2};
use cascette_crypto::salsa20::{Salsa20Cipher, decrypt_salsa20, encrypt_salsa20};
use cascette_client_storage::index::update::UpdateEntry;
use cascette_client_storage::storage::LocalHeader;
use verif_harness::*;

fn salsa(key: &[u8; 16], iv: &[u8], idx: usize, msg: &[u8]) -> String {
    match encrypt_salsa20(msg, key, iv, idx) {
        Ok(o) => hex(&o),
        Err(_) => "err".into(),
    }
}

fn salsa_split(key: &[u8; 16], iv: &[u8], idx: usize, msg: &[u8], sp: usize) -> String {
    match Salsa20Cipher::new(key, iv, idx) {
        Ok(mut c) => {
            let mut d = msg.to_vec();
            let sp = sp.min(d.len());
            let (a, b) = d.split_at_mut(sp);
            c.apply_keystream(a);
            c.apply_keystream(b);
            hex(&d)
        }
        Err(_) => "err".into(),
    }
}

fn arc4(key: &[u8], msg: &[u8]) -> String {
    match Arc4Cipher::new(key) {
        Ok(mut c) => hex(&c.encrypt(msg)),
        Err(_) => "err".into(),
    }
}

fn arc4_split(key: &[u8], msg: &[u8], sp: usize) -> String {
    match Arc4Cipher::new(key) {
        Ok(mut c) => {
            let mut d = msg.to_vec();
            let sp = sp.min(d.len());
            let (a, b) = d.split_at_mut(sp);
            c.apply_keystream(a);
            c.apply_keystream(b);
            hex(&d)
        }
        Err(_) => "err".into(),
    }
}

fn run_line(s: &mut Session, toks: &[&str]) -> Option<String> {
    let r = match toks {
        ["salsa", k, iv, idx, m] => {
            let k: [u8; 16] = unhex(k)?.try_into().ok()?;
            salsa(&k, &unhex(iv)?, idx.parse().ok()?, &unhex(m)?)
        }
        ["salsa_split", k, iv, idx, m, sp] => {
            let k: [u8; 16] = unhex(k)?.try_into().ok()?;
            salsa_split(&k, &unhex(iv)?, idx.parse().ok()?, &unhex(m)?, sp.parse().ok()?)
        }
        ["arc4", k, m] => arc4(&unhex(k)?, &unhex(m)?),
        ["arc4_split", k, m, sp] => arc4_split(&unhex(k)?, &unhex(m)?, sp.parse().ok()?),
        ["arc4c", k, m] => {
            let (k, m) = (unhex(k)?, unhex(m)?);
            catch(std::panic::AssertUnwindSafe(|| arc4(&k, &m))).unwrap_or_else(|_| "panic".into())
        }
        ["rc4", k, m] => arc4(&unhex(k)?, &unhex(m)?),
        ["cka", h] => {
            let h: [u8; 30] = unhex(h)?.try_into().ok()?;
            format!("{:08x}", LocalHeader::compute_checksum_a(&h))
        }
        ["lhv", base, h] => {
            let h: [u8; 30] = unhex(h)?.try_into().ok()?;
            let base: usize = base.parse().ok()?;
            match LocalHeader::from_bytes(&h) {
                Some(x) => x.validate_checksums(base).to_string(),
                None => "none".into(),
            }
        }
        ["hg", e] => {
            let e: [u8; 24] = unhex(e)?.try_into().ok()?;
            format!("{:08x}", UpdateEntry::compute_hash_guard(&e))
        }
        ["upv", e] => {
            let e: [u8; 24] = unhex(e)?.try_into().ok()?;
            UpdateEntry::from_bytes(&e).validate_hash_guard().to_string()
        }
        ["hl", seed, m] => format!("{:08x}", hashlittle(&unhex(m)?, seed.parse().ok()?)),
        ["hl2", pc, pb, m] => {
            let (mut pc, mut pb): (u32, u32) = (pc.parse().ok()?, pb.parse().ok()?);
            hashlittle2(&unhex(m)?, &mut pc, &mut pb);
            format!("{pc:08x} {pb:08x}")
        }
        ["md5", m] => {
            let d = unhex(m)?;
            let ck = cascette_crypto::md5::ContentKey::from_data(&d);
            let ek = cascette_crypto::md5::EncodingKey::from_data(&d);
            if ck.as_bytes() != ek.as_bytes() {
                s.oracle_fail("md5-keys-differ", &format!("ContentKey and EncodingKey of the same data differ: {}", m), &[format!("md5 {m}")]);
            }
            hex(ck.as_bytes())
        }
        ["j96", m] => {
            let j = Jenkins96::hash(&unhex(m)?);
            format!("{:016x} {:08x}", j.hash64, j.hash32)
        }
        _ => return None,
    };
    let _ = s;
    Some(r)
}

fn emit(s: &mut Session, req: String) -> String {
    let toks: Vec<&str> = req.split(' ').collect();
    let r = run_line(s, &toks).unwrap_or_else(|| "bad-op".into());
    s.line(&req, &r);
    s.tally(toks[0]);
    r
}

fn feature_subsets() -> Vec<CpuFeatures> {
    let host = cascette_cache::simd::detect_cpu_features();
    let mut v = vec![];
    for m in 0u32..16 {
        let f = CpuFeatures {
            sse2: m & 1 != 0,
            sse4_1: m & 2 != 0,
            avx2: m & 4 != 0,
            avx512: m & 8 != 0,
        };
        if (f.sse2 && !host.sse2) || (f.sse4_1 && !host.sse4_1) || (f.avx2 && !host.avx2) || (f.avx512 && !host.avx512) {
            continue;
        }
        v.push(f);
    }
    v
}

fn fname(f: &CpuFeatures) -> String {
    format!("sse2={} sse41={} avx2={} avx512={}", f.sse2 as u8, f.sse4_1 as u8, f.avx2 as u8, f.avx512 as u8)
}

/// O for the accelerated helpers: every feature subset the host supports must agree with
/// `CpuFeatures::none()` and with the std definition.
fn simd_oracle(s: &mut Session, rng: &mut Rng, max_len: usize, rounds: usize) {
    let subsets = feature_subsets();
    let none = CpuFeatures::none();
    s.extra.insert("cpu_feature_subsets".into(), serde_json::json!(subsets.len()));
    for len in 0..=max_len {
        for r in 0..rounds {
            // memcmp / mem_equal: equal buffers, one differing position, different lengths
            let a = if r % 3 == 0 { vec![rng.byte(); len] } else { rng.bytes(len) };
            let mut b = a.clone();
            let kind = rng.below(4);
            if kind == 1 && len > 0 {
                let p = rng.below(len as u64) as usize;
                b[p] = b[p].wrapping_add(1 + rng.below(255) as u8);
            } else if kind == 2 && len > 0 {
                let p = rng.below(len as u64) as usize;
                b[p] = b[p].wrapping_add(1);
                if p + 1 < len { let q = rng.range(p as u64 + 1, len as u64 - 1) as usize; b[q] = b[q].wrapping_sub(1); }
            } else if kind == 3 {
                b.truncate(rng.below(len as u64 + 1) as usize);
            }
            let want_cmp = none.vectorized_memcmp(&a, &b);
            let std_cmp = if a.len() != b.len() { a.len().cmp(&b.len()) } else { a.cmp(&b) };
            let want_eq = a == b;
            // memmem
            let hay = if r % 2 == 0 { rng.bytes(len) } else { (0..len).map(|_| b'a' + rng.below(2) as u8).collect() };
            let nl = rng.range(0, (len as u64).min(12) + 1) as usize;
            let needle: Vec<u8> = if rng.chance(2, 3) && nl <= len && len > 0 {
                let p = rng.below((len - nl) as u64 + 1) as usize;
                hay[p..p + nl].to_vec()
            } else if r % 2 == 0 { rng.bytes(nl) } else { (0..nl).map(|_| b'a' + rng.below(2) as u8).collect() };
            let want_mm = if needle.is_empty() { Some(0) } else if needle.len() > hay.len() { None } else { hay.windows(needle.len()).position(|w| w == &needle[..]) };
            let val = rng.byte();
            let srclen = rng.below(len as u64 + 8) as usize;
            let src = rng.bytes(srclen);
            for f in &subsets {
                // K: the same calls as request lines for the lane-loop model (mask bit0 = sse2,
                // bit2 = avx2; sse4.1 / avx512 do not influence these helpers)
                let mask = (f.sse2 as u32) | ((f.sse4_1 as u32) << 1) | ((f.avx2 as u32) << 2) | ((f.avx512 as u32) << 3);
                if r == 0 || len % 16 < 2 || len % 16 == 15 {
                    let o = |x: std::cmp::Ordering| match x { std::cmp::Ordering::Less => "lt", std::cmp::Ordering::Equal => "eq", std::cmp::Ordering::Greater => "gt" };
                    let g = catch(std::panic::AssertUnwindSafe(|| f.vectorized_memcmp(&a, &b))).map(|x| o(x).to_string()).unwrap_or("panic".into());
                    s.line(&format!("memcmp {mask} {} {}", hex(&a), hex(&b)), &g);
                    let g = catch(std::panic::AssertUnwindSafe(|| f.batch_mem_equal(&[(&a[..], &b[..])])[0])).map(|x| x.to_string()).unwrap_or("panic".into());
                    s.line(&format!("memeq {mask} {} {}", hex(&a), hex(&b)), &g);
                    let g = catch(std::panic::AssertUnwindSafe(|| f.vectorized_memmem(&hay, &needle))).map(|x| x.map(|p| p.to_string()).unwrap_or("none".into())).unwrap_or("panic".into());
                    s.line(&format!("memmem {mask} {} {}", hex(&hay), hex(&needle)), &g);
                    let mut d = a.clone();
                    let g = catch(std::panic::AssertUnwindSafe(|| { f.simd_memset(&mut d, val); })).map(|_| hex(&d)).unwrap_or("panic".into());
                    s.line(&format!("memset {mask} {} {}", hex(&a), val), &g);
                    let mut d = a.clone();
                    let g = catch(std::panic::AssertUnwindSafe(|| { f.simd_memcpy(&mut d, &src); })).map(|_| hex(&d)).unwrap_or("panic".into());
                    s.line(&format!("memcpy {mask} {} {}", hex(&a), hex(&src)), &g);
                    s.tally("simd.model_lines");
                }
                let case = format!("simd len={len} kind={kind} feat=[{}]", fname(f));
                s.case(Some(&format!("{len}/{kind}/{}", fname(f))));
                s.tally("simd.case");
                let got = catch(std::panic::AssertUnwindSafe(|| f.vectorized_memcmp(&a, &b)));
                if got != Ok(want_cmp) || want_cmp != std_cmp {
                    s.oracle_fail("simd-memcmp", &format!("{case}: got {got:?}, scalar {want_cmp:?}, std {std_cmp:?}; a={} b={}", hex(&a), hex(&b)), &[]);
                }
                let got = catch(std::panic::AssertUnwindSafe(|| f.simd_memcmp(&a, &b)));
                if got != Ok(want_cmp) {
                    s.oracle_fail("simd-memcmp", &format!("{case}: simd_memcmp got {got:?}, scalar {want_cmp:?}; a={} b={}", hex(&a), hex(&b)), &[]);
                }
                let got = catch(std::panic::AssertUnwindSafe(|| f.batch_mem_equal(&[(&a[..], &b[..]), (&a[..], &a[..])])));
                if got != Ok(vec![want_eq, true]) {
                    s.oracle_fail("simd-mem-equal", &format!("{case}: got {got:?}, want [{want_eq}, true]; a={} b={}", hex(&a), hex(&b)), &[]);
                }
                let got = catch(std::panic::AssertUnwindSafe(|| f.vectorized_memmem(&hay, &needle)));
                let got2 = catch(std::panic::AssertUnwindSafe(|| f.simd_search(&hay, &needle)));
                if got != Ok(want_mm) || got2 != Ok(want_mm) {
                    s.oracle_fail("simd-memmem", &format!("{case}: got {got:?}/{got2:?}, want {want_mm:?}; hay={} needle={}", hex(&hay), hex(&needle)), &[]);
                }
                let mut d = a.clone();
                let r1 = catch(std::panic::AssertUnwindSafe(|| { f.simd_memset(&mut d, val); }));
                if r1.is_err() || d != vec![val; len] {
                    s.oracle_fail("simd-memset", &format!("{case}: memset {val}"), &[]);
                }
                let mut d = a.clone();
                let mut e = a.clone();
                let n = d.len().min(src.len());
                e[..n].copy_from_slice(&src[..n]);
                let r1 = catch(std::panic::AssertUnwindSafe(|| { f.simd_memcpy(&mut d, &src); }));
                if r1.is_err() || d != e {
                    s.oracle_fail("simd-memcpy", &format!("{case}: memcpy src_len={}", src.len()), &[]);
                }
            }
        }
    }
    // batch hashes vs scalar
    for _ in 0..rounds * 4 {
        let items: Vec<Vec<u8>> = (0..rng.range(0, 9)).map(|_| { let n = rng.below(70) as usize; rng.bytes(n) }).collect();
        let refs: Vec<&[u8]> = items.iter().map(|v| &v[..]).collect();
        let want_ck = none.batch_content_keys(&refs);
        let want_j = none.batch_jenkins96_data(&refs);
        let paths: Vec<String> = items.iter().map(|v| v.iter().map(|b| (b'a' + b % 26) as char).collect()).collect();
        let prefs: Vec<&str> = paths.iter().map(|p| &p[..]).collect();
        let want_p = none.batch_jenkins96_paths(&prefs);
        for (i, it) in items.iter().enumerate() {
            let direct = cascette_crypto::md5::ContentKey::from_data(it);
            if want_ck[i] != direct {
                s.oracle_fail("simd-batch-md5", &format!("scalar batch_content_keys != ContentKey::from_data for {}", hex(it)), &[]);
            }
            if want_j[i] != Jenkins96::hash(it) {
                s.oracle_fail("simd-batch-jenkins", &format!("scalar batch_jenkins96_data != Jenkins96::hash for {}", hex(it)), &[]);
            }
        }
        for f in &subsets {
            s.case(None);
            if f.batch_content_keys(&refs) != want_ck {
                s.oracle_fail("simd-batch-md5", &format!("feat=[{}] batch_content_keys differs from scalar", fname(f)), &[]);
            }
            if f.batch_jenkins96_data(&refs) != want_j {
                s.oracle_fail("simd-batch-jenkins", &format!("feat=[{}] batch_jenkins96_data differs from scalar", fname(f)), &[]);
            }
            if f.batch_jenkins96_paths(&prefs) != want_p {
                s.oracle_fail("simd-batch-jenkins", &format!("feat=[{}] batch_jenkins96_paths differs from scalar", fname(f)), &[]);
            }
        }
    }
}

fn main() {
    let args = Args::parse();
    quiet_panics();
    let mut s = Session::new(&args.out);
    s.rule = "every message length 0..=L (L=200 quick, 1024 thorough) for Salsa20 (4- and 8-byte IV), ARC4, hashlittle, hashlittle2, Jenkins96 with seeded random keys/IVs/seeds/indices (incl. 0 and 2^32-1), every split point for lengths <= 130 (quick: <= 70), bad IV / key lengths, ARC4 again through the checked-index model (all) and through the specification itself (lengths <= 48), LocalHeader checksum_a / UpdateEntry hash guard on library-written, bit-flipped and random records, SIMD helpers for every buffer length 0..=200 x every host CPU feature subset; non-trivial = request reaches the primitive (not a length guard); distinct = canonical request text".into();
    let mut rng = Rng::new(args.seed);

    if let Some(p) = &args.replay {
        for l in read_case(p) {
            let r = emit(&mut s, l.clone());
            println!("impl  {l} -> {r}");
            s.case(Some(&l));
        }
        s.finish();
        return;
    }

    // published known answers (O: equality with the published algorithm's output)
    let kat: &[(&str, &str)] = &[
        ("salsa 80000000000000000000000000000000 0000000000000000 0 00000000000000000000000000000000000000000000000000000000000000000000000000000000000000000000000000000000000000000000000000000000",
         "4dfa5e481da23ea09a31022050859936da52fcee218005164f267cb65f5cfd7f2b4f97e0ff16924a52df269515110a07f9e460bc65ef95da58f740b7d1dbb0aa"),
        ("arc4 4b6579 506c61696e74657874", "bbf316e8d940af0ad3"),
        ("arc4 57696b69 7065646961", "1021bf0420"),
        ("arc4 536563726574 41747461636b206174206461776e", "45a01f645fc35b383552544b9bf5"),
        ("rc4 4b6579 506c61696e74657874", "bbf316e8d940af0ad3"),
        ("rc4 57696b69 7065646961", "1021bf0420"),
        ("rc4 536563726574 41747461636b206174206461776e", "45a01f645fc35b383552544b9bf5"),
        ("arc4c 4b6579 506c61696e74657874", "bbf316e8d940af0ad3"),
        ("md5 -", "d41d8cd98f00b204e9800998ecf8427e"),
        ("md5 616263", "900150983cd24fb0d6963f7d28e17f72"),
        ("md5 6d65737361676520646967657374", "f96b697d7cb7938d525a2f31aaf161d0"),
        ("hl 0 -", "deadbeef"),
        ("hl 3735928559 -", "bd5b7dde"),
        ("hl2 0 0 -", "deadbeef deadbeef"),
        ("hl2 0 3735928559 -", "bd5b7dde deadbeef"),
        ("hl2 3735928559 3735928559 -", "9c093ccd bd5b7dde"),
        ("hl2 0 0 466f75722073636f726520616e6420736576656e2079656172732061676f", "17770551 ce7226e6"),
        ("hl2 0 1 466f75722073636f726520616e6420736576656e2079656172732061676f", "e3607cae bd371de4"),
        ("hl2 1 0 466f75722073636f726520616e6420736576656e2079656172732061676f", "cd628161 6cbea4b3"),
        ("hl 0 466f75722073636f726520616e6420736576656e2079656172732061676f", "17770551"),
        ("hl 1 466f75722073636f726520616e6420736576656e2079656172732061676f", "cd628161"),
    ];
    for (req, want) in kat {
        let r = emit(&mut s, (*req).to_string());
        s.case(Some(req));
        if r != *want {
            s.oracle_fail("kat", &format!("published known answer differs: {req} -> {r}, published {want}"), &[(*req).to_string()]);
        }
    }

    let max_len: usize = if args.thorough() { 1024 } else { 200 };
    let split_max: usize = if args.thorough() { 130 } else { 70 };
    let extra_random = if args.thorough() { 600 } else { 100 };
    let idx_choices: [u64; 6] = [0, 1, 2, 255, 0xFFFF_FFFF, 0x1_0000_0001];

    let mut lens: Vec<usize> = (0..=max_len).collect();
    for _ in 0..extra_random {
        lens.push(rng.range(0, 1024) as usize);
    }
    for &len in &lens {
        let msg = if rng.chance(1, 8) { vec![0u8; len] } else { rng.bytes(len) };
        let key: [u8; 16] = rng.bytes(16).try_into().unwrap();
        let ivlen = if rng.chance(1, 2) { 4 } else { 8 };
        let iv = rng.bytes(ivlen);
        let idx = if rng.chance(1, 2) { *rng.pick(&idx_choices) } else { rng.next() & 0xFFFF_FFFF };
        // salsa whole
        let req = format!("salsa {} {} {} {}", hex(&key), hex(&iv), idx, hex(&msg));
        let whole = emit(&mut s, req.clone());
        s.case(Some(&req));
        // O: decrypt(encrypt) = id
        if let Ok(ct) = encrypt_salsa20(&msg, &key, &iv, idx as usize) {
            match decrypt_salsa20(&ct, &key, &iv, idx as usize) {
                Ok(pt) if pt == msg => {}
                _ => s.oracle_fail("salsa-roundtrip", &format!("decrypt(encrypt(m)) != m for len {len}"), &[req.clone()]),
            }
            if ct.len() != msg.len() {
                s.oracle_fail("salsa-length", "ciphertext length differs", &[req.clone()]);
            }
        } else {
            s.oracle_fail("salsa-guard", "valid key/iv rejected", &[req.clone()]);
        }
        // splits
        if len <= split_max {
            for sp in 0..=len {
                let rq = format!("salsa_split {} {} {} {} {}", hex(&key), hex(&iv), idx, hex(&msg), sp);
                let r = emit(&mut s, rq.clone());
                s.case(Some(&rq));
                if r != whole {
                    s.oracle_fail("salsa-piecewise", &format!("split at {sp} of {len} differs from whole"), &[rq]);
                }
            }
        } else if len > 64 {
            for sp in [63usize, 64, 65, len - 1] {
                let rq = format!("salsa_split {} {} {} {} {}", hex(&key), hex(&iv), idx, hex(&msg), sp);
                let r = emit(&mut s, rq.clone());
                s.case(Some(&rq));
                if r != whole {
                    s.oracle_fail("salsa-piecewise", &format!("split at {sp} of {len} differs from whole"), &[rq]);
                }
            }
        }
        // arc4
        let klen = match rng.below(6) { 0 => 1, 1 => 256, 2 => 5, _ => rng.range(1, 32) as usize };
        let akey = rng.bytes(klen);
        let rq = format!("arc4 {} {}", hex(&akey), hex(&msg));
        let awhole = emit(&mut s, rq.clone());
        s.case(Some(&rq));
        if let Ok(mut c) = Arc4Cipher::new(&akey) {
            let ct = c.encrypt(&msg);
            let mut c2 = Arc4Cipher::new(&akey).unwrap();
            if c2.decrypt(&ct) != msg {
                s.oracle_fail("arc4-roundtrip", &format!("decrypt(encrypt(m)) != m for len {len}"), &[rq.clone()]);
            }
        }
        // checked-index model (panic-free) on every case; the specification itself on short ones
        let rq = format!("arc4c {} {}", hex(&akey), hex(&msg));
        let r = emit(&mut s, rq.clone());
        s.case(Some(&rq));
        if r != awhole {
            s.oracle_fail("arc4-panic", &format!("Arc4Cipher panicked or changed its answer: {r}"), &[rq]);
        }
        if len <= 48 {
            let rq = format!("rc4 {} {}", hex(&akey), hex(&msg));
            emit(&mut s, rq.clone());
            s.case(Some(&rq));
        }
        if len <= split_max && len % 3 == 0 {
            for sp in 0..=len {
                let rq = format!("arc4_split {} {} {}", hex(&akey), hex(&msg), sp);
                let r = emit(&mut s, rq.clone());
                s.case(Some(&rq));
                if r != awhole {
                    s.oracle_fail("arc4-piecewise", &format!("split at {sp} of {len} differs from whole"), &[rq]);
                }
            }
        }
        // hashes
        let seed = if rng.chance(1, 4) { *rng.pick(&[0u64, 1, 0xFFFF_FFFF, 0xdead_beef]) } else { rng.next() & 0xFFFF_FFFF };
        let seed2 = rng.next() & 0xFFFF_FFFF;
        let rq = format!("hl {} {}", seed, hex(&msg));
        let h1 = emit(&mut s, rq.clone());
        s.case(Some(&rq));
        let rq2 = format!("hl2 {} 0 {}", seed, hex(&msg));
        let h2 = emit(&mut s, rq2.clone());
        s.case(Some(&rq2));
        // lookup3: hashlittle(k, s) == first result of hashlittle2(k, pc=s, pb=0)
        if !h2.starts_with(&h1) {
            s.oracle_fail("hashlittle-vs-hashlittle2", &format!("hashlittle {h1} is not pc of hashlittle2 {h2}"), &[rq, rq2]);
        }
        let rq = format!("hl2 {} {} {}", seed, seed2, hex(&msg));
        emit(&mut s, rq.clone());
        s.case(Some(&rq));
        let rq = format!("j96 {}", hex(&msg));
        emit(&mut s, rq.clone());
        s.case(Some(&rq));
        // MD5 content/encoding keys (every length: all paddings incl. the 55/56/64-byte boundaries)
        if len <= 300 || len % 64 < 2 || len % 64 > 54 {
            let rq = format!("md5 {}", hex(&msg));
            emit(&mut s, rq.clone());
            s.case(Some(&rq));
        }
    }
    // guards
    for ivlen in [0usize, 1, 3, 5, 7, 9, 12, 16] {
        let key: [u8; 16] = rng.bytes(16).try_into().unwrap();
        let rq = format!("salsa {} {} 0 {}", hex(&key), hex(&rng.bytes(ivlen)), hex(&rng.bytes(5)));
        let r = emit(&mut s, rq.clone());
        s.case(None);
        if r != "err" {
            s.oracle_fail("salsa-guard", &format!("IV of {ivlen} bytes accepted"), &[rq]);
        }
    }
    for klen in [0usize, 257, 300] {
        let rq = format!("arc4 {} {}", hex(&rng.bytes(klen)), hex(&rng.bytes(5)));
        let r = emit(&mut s, rq.clone());
        s.case(None);
        if r != "err" {
            s.oracle_fail("arc4-guard", &format!("key of {klen} bytes accepted"), &[rq]);
        }
    }
    // users of the seeded hash: LocalHeader checksum_a, UpdateEntry hash guard
    let users = if args.thorough() { 2000 } else { 300 };
    for n in 0..users {
        // a header as the library writes it, then with each region disturbed
        let ek: [u8; 16] = rng.bytes(16).try_into().unwrap();
        let base = if n % 5 == 0 { 0 } else { rng.below(1 << 30) as usize };
        let size = if n % 7 == 0 { 30 } else { (rng.next() & 0xFFFF_FFFF) as u32 };
        let good = LocalHeader::new(ek, size, base).to_bytes();
        let rq = format!("cka {}", hex(&good));
        let a = emit(&mut s, rq.clone());
        s.case(Some(&rq));
        // O: which bytes, which seed — equals the seeded hash of bytes [0,0x16) and is what is stored at [0x16,0x1A)
        let want = format!("{:08x}", hashlittle(&good[..0x16], 0x3D6B_E971));
        let stored = format!("{:08x}", u32::from_le_bytes([good[0x16], good[0x17], good[0x18], good[0x19]]));
        if a != want || a != stored {
            s.oracle_fail("checksum-a-def", &format!("checksum_a {a}, hashlittle(bytes[0..0x16], 0x3D6BE971) {want}, stored {stored}"), &[rq.clone()]);
        }
        let rq = format!("hl 1030482289 {}", hex(&good[..0x16]));
        emit(&mut s, rq.clone());
        s.case(Some(&rq));
        let rq = format!("lhv {} {}", base, hex(&good));
        let v = emit(&mut s, rq.clone());
        s.case(Some(&rq));
        if v != "true" {
            s.oracle_fail("checksum-a-validate", "a header written by LocalHeader::new does not validate", &[rq]);
        }
        let mut bad = good;
        let p = rng.below(30) as usize;
        bad[p] ^= 1 << rng.below(8);
        let rq = format!("cka {}", hex(&bad));
        let a2 = emit(&mut s, rq.clone());
        s.case(Some(&rq));
        if p >= 0x16 && a2 != a {
            s.oracle_fail("checksum-a-def", &format!("checksum_a depends on byte {p} outside [0,0x16)"), &[rq]);
        }
        let rq = format!("lhv {} {}", base, hex(&bad));
        let v = emit(&mut s, rq.clone());
        s.case(Some(&rq));
        if v != "false" {
            s.oracle_fail("checksum-a-validate", &format!("a header with bit flipped in byte {p} validates"), &[rq]);
        }
        let rnd: [u8; 30] = rng.bytes(30).try_into().unwrap();
        emit(&mut s, format!("cka {}", hex(&rnd)));
        emit(&mut s, format!("lhv {} {}", rng.below(8), hex(&rnd)));
        s.case(None);
        // update entry: random fields, canonical status, guard as the library computes it
        let mut e: [u8; 24] = rng.bytes(24).try_into().unwrap();
        e[22] = *rng.pick(&[0u8, 3, 6, 7]);
        let g = UpdateEntry::compute_hash_guard(&e);
        let rq = format!("hg {}", hex(&e));
        let r = emit(&mut s, rq.clone());
        s.case(Some(&rq));
        let want = hashlittle(&e[4..23], 0);
        if r != format!("{:08x}", want | 0x8000_0000) || g & 0x8000_0000 == 0 || g & 0x7FFF_FFFF != want & 0x7FFF_FFFF {
            s.oracle_fail("hash-guard-def", &format!("hash guard {r}, hashlittle(bytes[4..23], 0) {want:08x}"), &[rq.clone()]);
        }
        let rq = format!("hl 0 {}", hex(&e[4..23]));
        emit(&mut s, rq.clone());
        s.case(Some(&rq));
        let mut e2 = e;
        e2[..4].copy_from_slice(&rng.bytes(4));
        e2[23] ^= 0xFF;
        let rq = format!("hg {}", hex(&e2));
        let r2 = emit(&mut s, rq.clone());
        s.case(Some(&rq));
        if r2 != r {
            s.oracle_fail("hash-guard-def", "hash guard depends on bytes outside [4,23)", &[rq]);
        }
        e[..4].copy_from_slice(&g.to_le_bytes());
        let rq = format!("upv {}", hex(&e));
        let v = emit(&mut s, rq.clone());
        s.case(Some(&rq));
        if v != "true" {
            s.oracle_fail("hash-guard-validate", "an entry carrying its computed guard does not validate", &[rq]);
        }
        let p = 4 + rng.below(18) as usize;
        e[p] ^= 1 << rng.below(8);
        let rq = format!("upv {}", hex(&e));
        let v = emit(&mut s, rq.clone());
        s.case(Some(&rq));
        if v != "false" {
            s.oracle_fail("hash-guard-validate", &format!("an entry with a bit flipped in byte {p} validates"), &[rq]);
        }
    }
    let simd_rounds = if args.thorough() { 12 } else { 3 };
    simd_oracle(&mut s, &mut rng, 200, simd_rounds);
    s.finish();
}
