//! C08 — serialisation is stable: parse → build → parse → build reaches a fixed point.
//!
//! O (every format of the property, on the REAL code): each input goes through
//!   parse₁ → build₁ → parse₂ → build₂ and must satisfy, whenever parse₁ accepts:
//!   build₁ succeeds, parse₂ succeeds, logical(parse₂) = logical(parse₁), build₂ = build₁;
//!   an unmutated CDN fixture must additionally satisfy build₁ = input (labelled as a test);
//!   a builder's value must satisfy logical(parse(serialise(value))) = logical(value).
//! K (modelled formats: install, download v1–v3, size v1/v2, ZBSDIFF container, patch index): the
//!   same pipeline is printed as one response line (`m <fmt> <hex>`) and compared with the Lean
//!   model; `tv <cft_table_size> <hex>` / `tc <flags> <hex>` compare the TVFS VFS-table reader and
//!   the container-table slack arithmetic (the mechanism of the TVFS findings) with their models.
//!
//! Request lines:
//!   m  <fmt> <hex>                 modelled format; detailed response compared with the model
//!   o  <fmt> <hex>                 oracle-only format; both sides answer `-`
//!   tv <cft_size> <hex>           VfsTable::parse under a header with that container-table size
//!   tc <flags> <hex>              ContainerFileTable::parse + build: entry count, rebuilt size
//!   of <fmt> <fixture> <muts>      oracle-only, input = fixture file with mutations applied
//!                                  (muts: `-` or comma list of s<pos>=<hh> | t<len> | a<hex> |
//!                                  i<pos>=<hex> | d<pos>+<n>); both sides answer `-`
//!   rp <ver> <recs>                root builder program (recs: `;` list of fdid,ckey,hash|-,locale,
//!                                  content in insertion order): RootBuilder::build, answered
//!                                  `ok n=<len> h=<fnv64 of the bytes>` / `err`, compared with the
//!                                  model (C03's Model/RootFile.build); O: the parsed records are the
//!                                  program's records (builder-form claim)
//!   ap <ks> <ob> <entries>         archive-index builder program on a chosen layout (entries: `;`
//!                                  list of key,size,offset): with_config(ks, ob, 4) -> build -> parse
//!                                  -> from_archive_index -> build -> parse, answered
//!                                  `ok n=<count> h=<fnv64 of the entry listing>` / `err`, compared
//!                                  with C03's Model/ArchiveIndex.buildParse applied twice
//! Every accepted input of a format that has a builder-as-mutator constructor (archive index, root,
//! install, download, encoding) is additionally taken through parsed value -> from_*(value) ->
//! [add an entry -> remove it] -> build -> parse and must come back with the same logical content.
use cascette_crypto::md5::FileDataId;
use cascette_crypto::{ContentKey, EncodingKey};
use cascette_formats::CascFormat;
use cascette_formats::archive::{ArchiveGroup, ArchiveGroupBuilder, ArchiveGroupEntry, ArchiveIndex, ArchiveIndexBuilder};
use cascette_formats::archive::IndexEntry;
use cascette_formats::blte::{BlteBuilder, BlteFile, CompressionMode};
use cascette_formats::bpsv::{BpsvBuilder, BpsvDocument, BpsvField, BpsvType, BpsvValue};
use cascette_formats::config::{BuildConfig, CdnConfig, KeyringConfig, PatchConfig, PatchEntry as PatchCfgEntry, ProductConfig};
use cascette_formats::download::{DownloadManifest, DownloadManifestBuilder};
use cascette_formats::encoding::{CKeyEntryData, EKeyEntryData, EncodingBuilder, EncodingFile};
use cascette_formats::espec::ESpec;
use cascette_formats::install::{InstallManifest, InstallManifestBuilder, TagType};
use cascette_formats::patch_archive::{PatchArchive, PatchArchiveBuilder};
use cascette_formats::patch_index::{PatchIndex, PatchIndexBuilder, PatchIndexEntry};
use cascette_formats::root::{ContentFlags, LocaleFlags, RootBuilder, RootFile, RootVersion};
use cascette_formats::size::{SizeManifest, SizeManifestBuilder};
use cascette_formats::tvfs::{ContainerFileTable, TvfsBuilder, TvfsFile, TvfsHeader, VfsTable};
use cascette_formats::zbsdiff::{ZbsDiff, ZbsdiffBuilder};
use std::io::Cursor;
use std::panic::AssertUnwindSafe;
use verif_harness::*;

const FIX: &str = "/repo/crates/cascette-formats/test_fixtures";

// ---------------------------------------------------------------------------------------------
// small helpers

fn fnv64(b: &[u8]) -> u64 {
    let mut h = 0xcbf2_9ce4_8422_2325u64;
    for x in b {
        h ^= *x as u64;
        h = h.wrapping_mul(0x0000_0100_0000_01b3);
    }
    h
}

/// Canonical form of a `{:?}` string: the elements of every map/set body (`{…}` not preceded by
/// a type name) are sorted, so two values that differ only in hash-map iteration order print alike.
fn canon_debug(s: &str) -> String {
    fn parse(b: &[u8], i: &mut usize, close: u8) -> String {
        // returns the canonical text up to (not including) the matching `close`
        let mut items: Vec<String> = vec![];
        let mut cur = String::new();
        let mut sortable = false;
        while *i < b.len() {
            let c = b[*i];
            if c == close {
                break;
            }
            match c {
                b'"' => {
                    let st = *i;
                    *i += 1;
                    while *i < b.len() && b[*i] != b'"' {
                        if b[*i] == b'\\' {
                            *i += 1;
                        }
                        *i += 1;
                    }
                    *i += 1;
                    cur.push_str(&String::from_utf8_lossy(&b[st..(*i).min(b.len())]));
                    continue;
                }
                b'{' | b'[' | b'(' => {
                    let cl = match c {
                        b'{' => b'}',
                        b'[' => b']',
                        _ => b')',
                    };
                    // a map/set body: `{` not preceded by "Name " (struct) — i.e. preceded by
                    // nothing, '(' , '[', ' ' after ':' or ','
                    let prev_ident = cur.trim_end().chars().last().is_some_and(|ch| ch.is_alphanumeric() || ch == '_' || ch == '>');
                    *i += 1;
                    let inner = parse(b, i, cl);
                    *i += 1;
                    cur.push(c as char);
                    if c == b'{' && !prev_ident {
                        let mut parts: Vec<&str> = inner.split("\u{1}").collect();
                        parts.sort_unstable();
                        cur.push_str(&parts.join(", "));
                    } else {
                        cur.push_str(&inner.replace('\u{1}', ", "));
                    }
                    cur.push(cl as char);
                    continue;
                }
                b',' => {
                    items.push(std::mem::take(&mut cur).trim().to_string());
                    sortable = true;
                    *i += 1;
                    continue;
                }
                _ => {
                    cur.push(c as char);
                }
            }
            *i += 1;
        }
        let _ = sortable;
        if !cur.trim().is_empty() {
            items.push(cur.trim().to_string());
        }
        items.join("\u{1}")
    }
    let b = s.as_bytes();
    let mut i = 0;
    parse(b, &mut i, 0).replace('\u{1}', ", ")
}

#[derive(Clone, Debug)]
enum Mut {
    Set(usize, u8),
    Trunc(usize),
    Append(Vec<u8>),
    Insert(usize, Vec<u8>),
    Delete(usize, usize),
}

fn muts_text(ms: &[Mut]) -> String {
    if ms.is_empty() {
        return "-".into();
    }
    ms.iter()
        .map(|m| match m {
            Mut::Set(p, v) => format!("s{p}={v:02x}"),
            Mut::Trunc(n) => format!("t{n}"),
            Mut::Append(b) => format!("a{}", hex::encode(b)),
            Mut::Insert(p, b) => format!("i{p}={}", hex::encode(b)),
            Mut::Delete(p, n) => format!("d{p}+{n}"),
        })
        .collect::<Vec<_>>()
        .join(",")
}

fn parse_muts(t: &str) -> Option<Vec<Mut>> {
    if t == "-" {
        return Some(vec![]);
    }
    let mut v = vec![];
    for part in t.split(',') {
        let (k, rest) = part.split_at(1);
        v.push(match k {
            "s" => {
                let (p, h) = rest.split_once('=')?;
                Mut::Set(p.parse().ok()?, u8::from_str_radix(h, 16).ok()?)
            }
            "t" => Mut::Trunc(rest.parse().ok()?),
            "a" => Mut::Append(hex::decode(rest).ok()?),
            "i" => {
                let (p, h) = rest.split_once('=')?;
                Mut::Insert(p.parse().ok()?, hex::decode(h).ok()?)
            }
            "d" => {
                let (p, n) = rest.split_once('+')?;
                Mut::Delete(p.parse().ok()?, n.parse().ok()?)
            }
            _ => return None,
        });
    }
    Some(v)
}

fn apply_muts(base: &[u8], ms: &[Mut]) -> Vec<u8> {
    let mut d = base.to_vec();
    for m in ms {
        match m {
            Mut::Set(p, v) => {
                if *p < d.len() {
                    d[*p] = *v;
                }
            }
            Mut::Trunc(n) => d.truncate(*n),
            Mut::Append(b) => d.extend_from_slice(b),
            Mut::Insert(p, b) => {
                let p = (*p).min(d.len());
                d.splice(p..p, b.iter().copied());
            }
            Mut::Delete(p, n) => {
                let p = (*p).min(d.len());
                let e = (p + *n).min(d.len());
                d.drain(p..e);
            }
        }
    }
    d
}

/// one random mutation list aimed at the accepted-but-non-canonical region: header fields,
/// footers, counts/sizes (±1, 0, 0xFF), truncation, trailing bytes, small inserts/deletes.
fn gen_muts(rng: &mut Rng, len: usize, text: bool) -> Vec<Mut> {
    let mut v = vec![];
    if len == 0 {
        let k = rng.range(1, 8) as usize;
        return vec![Mut::Append(rng.bytes(k))];
    }
    let pos = |rng: &mut Rng| -> usize {
        match rng.below(10) {
            0..=4 => rng.below(len.min(64) as u64) as usize,
            5 | 6 => len - 1 - rng.below(len.min(64) as u64) as usize,
            _ => rng.below(len as u64) as usize,
        }
    };
    let n = match rng.below(10) {
        0..=5 => 1,
        6..=8 => 2,
        _ => 3,
    };
    for _ in 0..n {
        let k = rng.below(if text { 14 } else { 10 });
        match k {
            0..=5 => {
                let p = pos(rng);
                let val = match rng.below(8) {
                    0 => 0,
                    1 => 0xFF,
                    2 => 1,
                    3 => rng.below(8) as u8,
                    4 => 0x80,
                    _ => rng.byte(),
                };
                v.push(Mut::Set(p, val));
            }
            6 => v.push(Mut::Trunc(if rng.chance(1, 2) { len - 1 - rng.below(len.min(40) as u64) as usize } else { rng.below(len as u64) as usize })),
            7 => {
                let k = rng.range(1, 8) as usize;
                v.push(Mut::Append(if rng.chance(1, 2) { vec![0; k] } else { rng.bytes(k) }));
            }
            8 => {
                let k = rng.range(1, 4) as usize;
                v.push(Mut::Insert(pos(rng), if rng.chance(1, 2) { vec![0; k] } else { rng.bytes(k) }));
            }
            9 => v.push(Mut::Delete(pos(rng), rng.range(1, 4) as usize)),
            // text formats: white space, separators, comments, line ends, non-ASCII
            10 => v.push(Mut::Insert(pos(rng), rng.pick(&[&b" "[..], b"\t", b"\r", b"\n", b"  ", b"\n\n", b" = ", b"=", b"|", b"#", b"\xc2\xa0", b"\xe3\x80\x80", b"\xff"]).to_vec())),
            11 => v.push(Mut::Append(rng.pick(&[&b"\n"[..], b"\r\n", b"x = y\n", b"key-0000000000000001 = 00000000000000000000000000000001\n", b"## seqn = 5\n", b"a|b\n", b"# c\n", b" "]).to_vec())),
            12 => v.push(Mut::Set(pos(rng), *rng.pick(&[b' ', b'\t', b'\n', b'\r', b'=', b'|', b'#', b'!', b':', b'0', b'A', b'-']))),
            _ => {
                let p = pos(rng);
                v.push(Mut::Delete(p, rng.range(1, 12) as usize));
            }
        }
    }
    v
}

// ---------------------------------------------------------------------------------------------
// the fixed-point pipeline

#[derive(Debug, Clone, PartialEq)]
enum Stage {
    Rejected,
    ParsePanic,
    Ok,
    Fail(&'static str),
}

struct Out {
    stage: Stage,
    detail: String,
    rebuilt: Option<Vec<u8>>,
    logical: Option<String>,
    field: Option<String>,
}

fn pipeline<V>(
    bytes: &[u8],
    parse: &dyn Fn(&[u8]) -> Result<V, String>,
    build: &dyn Fn(&V) -> Result<Vec<u8>, String>,
    logical: &dyn Fn(&V) -> String,
) -> Out {
    let mk = |stage, detail: String, rebuilt, logical| Out { stage, detail, rebuilt, logical, field: None };
    let v1 = match catch(AssertUnwindSafe(|| parse(bytes))) {
        Err(p) => return mk(Stage::ParsePanic, p, None, None),
        Ok(Err(_)) => return mk(Stage::Rejected, String::new(), None, None),
        Ok(Ok(v)) => v,
    };
    let l1 = match catch(AssertUnwindSafe(|| logical(&v1))) {
        Ok(l) => l,
        Err(p) => return mk(Stage::Fail("accessor-panics"), p, None, None),
    };
    let b1 = match catch(AssertUnwindSafe(|| build(&v1))) {
        Err(p) => return mk(Stage::Fail("build-panics"), p, None, Some(l1)),
        Ok(Err(e)) => return mk(Stage::Fail("accepted-not-rebuildable"), e, None, Some(l1)),
        Ok(Ok(b)) => b,
    };
    let v2 = match catch(AssertUnwindSafe(|| parse(&b1))) {
        Err(p) => return mk(Stage::Fail("rebuilt-not-parseable"), format!("panic: {p}"), Some(b1), Some(l1)),
        Ok(Err(e)) => return mk(Stage::Fail("rebuilt-not-parseable"), e, Some(b1), Some(l1)),
        Ok(Ok(v)) => v,
    };
    let l2 = catch(AssertUnwindSafe(|| logical(&v2))).unwrap_or_else(|p| format!("<panic {p}>"));
    if l1 != l2 {
        let at = l1.bytes().zip(l2.bytes()).position(|(a, b)| a != b).unwrap_or(l1.len().min(l2.len()));
        let cut = |s: &str| s.chars().skip(at.saturating_sub(30)).take(90).collect::<String>();
        if std::env::var("C08_DEBUG").is_ok() {
            eprintln!("L1 {l1}\nL2 {l2}");
        }
        let field = diff_field(&l1, &l2);
        let mut o = mk(Stage::Fail("rebuild-changes-content"), format!("first parse …{}… second parse …{}…", cut(&l1), cut(&l2)), Some(b1), Some(l1));
        o.field = Some(field);
        return o;
    }
    let b2 = match catch(AssertUnwindSafe(|| build(&v2))) {
        Err(p) => return mk(Stage::Fail("second-build-fails"), format!("panic: {p}"), Some(b1), Some(l1)),
        Ok(Err(e)) => return mk(Stage::Fail("second-build-fails"), e, Some(b1), Some(l1)),
        Ok(Ok(b)) => b,
    };
    if b1 != b2 {
        let at = b1.iter().zip(b2.iter()).position(|(a, b)| a != b).unwrap_or(b1.len().min(b2.len()));
        return mk(Stage::Fail("second-build-differs"), format!("lengths {} / {}, first difference at byte {at}", b1.len(), b2.len()), Some(b1), Some(l1));
    }
    mk(Stage::Ok, String::new(), Some(b1), Some(l1))
}

fn es<E: std::fmt::Display>(e: E) -> String {
    e.to_string()
}

fn casc<T: CascFormat>(bytes: &[u8], logical: &dyn Fn(&T) -> String) -> Out {
    pipeline::<T>(bytes, &|b| T::parse(b).map_err(es), &|v| v.build().map_err(es), logical)
}

fn dbg<T: std::fmt::Debug>(v: &T) -> String {
    format!("{v:?}")
}

fn cdbg<T: std::fmt::Debug>(v: &T) -> String {
    canon_debug(&format!("{v:?}"))
}

/// one root record with the flags of its block: (FileDataID, content key, name hash, locale, content)
type RRec = (u32, [u8; 16], Option<u64>, u32, u64);

fn rrec_str(r: &RRec) -> String {
    format!("{}:{}:{:?}:{:x}:{:x}", r.0, hex(&r.1), r.2, r.3, r.4)
}

fn root_recs(r: &RootFile) -> Vec<RRec> {
    let mut recs = vec![];
    for b in &r.blocks {
        for rec in &b.records {
            recs.push((rec.file_data_id.get(), *rec.content_key.as_bytes(), rec.name_hash, b.locale_flags().value(), b.content_flags().value));
        }
    }
    recs
}

/// logical content of a root: version + the MULTISET of records (sorted; a FileDataID listed twice
/// in one block counts twice)
fn root_logical_of(ver: RootVersion, recs: &[RRec]) -> String {
    let mut v: Vec<String> = recs.iter().map(rrec_str).collect();
    v.sort();
    format!("{:?} n={} {}", ver, v.len(), v.join(" "))
}

fn root_logical(r: &RootFile) -> String {
    root_logical_of(r.version, &root_recs(r))
}

/// RootBuilder(V2) output with these counts has a classic header that the header reader takes for
/// an extended one (C03 finding root-v2-small-header-ambiguity)
fn v2_window_counts(ver: RootVersion, total: usize, named: usize) -> bool {
    ver == RootVersion::V2 && (16..100).contains(&total) && named < 10
}

fn v2_window_recs(ver: RootVersion, recs: &[RRec]) -> bool {
    v2_window_counts(ver, recs.len(), recs.iter().filter(|r| r.2.is_some()).count())
}

/// bytes that START like a classic V2 header (magic, total, named) in that window — and are not a
/// genuine extended (V3/V4) file: a genuine one has header_size / version (1..4) in the same two
/// words, but then it parses to exactly the number of records its own total_files word states
fn root_v2_window(b: &[u8]) -> bool {
    let magic = b.len() >= 12 && (&b[..4] == b"TSFM" || &b[..4] == b"MFST");
    let (t, nm) = if magic { (u32::from_le_bytes([b[4], b[5], b[6], b[7]]), u32::from_le_bytes([b[8], b[9], b[10], b[11]])) } else { (0, 0) };
    if !(magic && (16..100).contains(&t) && nm < 10) {
        return false;
    }
    // (an extended header has its version, 1..4, where a classic one has named_files)
    let genuine_ext = b.len() >= 20
        && &b[..4] == b"TSFM"
        && (1..=4).contains(&nm)
        && catch(AssertUnwindSafe(|| RootFile::parse(b))).ok().and_then(|r| r.ok()).is_some_and(|r| {
            let n: usize = r.blocks.iter().map(|x| x.records.len()).sum();
            n > 0 && n as u32 == u32::from_le_bytes([b[12], b[13], b[14], b[15]])
        });
    !genuine_ext
}

/// one archive-index entry as the file stores it: key, size, 48-bit location (archive index in the
/// top 16 bits for the 6-byte archive-group layout)
fn aidx_entry_str(e: &IndexEntry) -> String {
    format!("{}:{}:{}", hex(&e.encoding_key), e.size, ((e.archive_index.unwrap_or(0) as u64) << 32) + e.offset)
}

/// logical content of an archive index: record layout of the footer + entries
fn aidx_logical(i: &ArchiveIndex) -> String {
    let es: Vec<String> = i.entries.iter().map(aidx_entry_str).collect();
    format!("ks={} ob={} sb={} hb={} n={} entries={}", i.footer.ekey_length, i.footer.offset_bytes, i.footer.size_bytes, i.footer.footer_hash_bytes, i.footer.element_count, es.join(";"))
}

fn aidx_parse(b: &[u8]) -> Result<ArchiveIndex, String> {
    ArchiveIndex::parse(&mut Cursor::new(b)).map_err(es)
}

fn aidx_builder_bytes(b: ArchiveIndexBuilder) -> Result<Vec<u8>, String> {
    let mut out = Vec::new();
    b.build(Cursor::new(&mut out)).map_err(es)?;
    Ok(out)
}

/// logical content of a download manifest: header through its accessors, entries, tags
fn dl_logical(m: &DownloadManifest) -> String {
    format!("v={} cks={} fs={} bp={} entries={:?} tags={:?}", m.header.version(), m.header.has_checksum(), m.header.flag_size(), m.header.base_priority(), m.entries, m.tags)
}

/// logical content of an encoding file: page sizes + the two entry tables with ESpec STRINGS
fn enc_logical(e: &EncodingFile) -> String {
    let mut ck: Vec<String> = e.ckey_pages.iter().flat_map(|p| p.entries.iter()).map(|x| format!("{}:{}:{}", hex(x.content_key.as_bytes()), x.file_size, x.encoding_keys.iter().map(|k| hex(k.as_bytes())).collect::<Vec<_>>().join("+"))).collect();
    let mut ek: Vec<String> = e.ekey_pages.iter().flat_map(|p| p.entries.iter()).map(|x| format!("{}:{}:{:?}", hex(x.encoding_key.as_bytes()), x.file_size, e.espec_table.get(x.espec_index))).collect();
    ck.sort();
    ek.sort();
    format!("cps={} eps={} ckeys={} ekeys={} ck=[{}] ek=[{}]", e.header.ckey_page_size_kb, e.header.ekey_page_size_kb, ck.len(), ek.len(), ck.join(" "), ek.join(" "))
}

fn tvfs_logical(t: &TvfsFile) -> String {
    let files: Vec<String> = t.path_table.files.iter().map(|f| format!("{:?}@{}", f.path, f.vfs_offset)).collect();
    let vfs: Vec<String> = t.vfs_table.entries.iter().map(|e| format!("{}:{:?}", e.offset, e.spans.iter().map(|s| (s.file_offset, s.span_length, s.cft_offset)).collect::<Vec<_>>())).collect();
    let cft: Vec<String> = t
        .container_table
        .entries
        .iter()
        .map(|e| format!("{}:{}:{}:{:?}:{:?}:{:?}", e.offset, hex(&e.ekey), e.encoded_size, e.content_key.as_ref().map(|k| hex(k)), e.est_index, e.patch_offset))
        .collect();
    format!("flags={:x} files={files:?} vfs={vfs:?} cft={cft:?} est={:?}", t.header.flags, t.est_table.as_ref().map(|e| e.specs.clone()))
}

fn pa_logical(p: &PatchArchive) -> String {
    // entries as a set: the builder behind `build` sorts them by target key
    let mut ents: Vec<String> = p.all_file_entries().map(|e| format!("{e:?}")).collect();
    ents.sort();
    format!(
        "v={} fk={} ok={} pk={} bits={} flags={} enc={:?} entries={:?}",
        p.header.version,
        p.header.file_key_size,
        p.header.old_key_size,
        p.header.patch_key_size,
        p.header.block_size_bits,
        p.header.flags,
        p.encoding_info,
        ents
    )
}

fn pi_logical(p: &PatchIndex) -> String {
    format!("ks={} v={} entries={:?}", p.key_size, p.header.version, p.entries)
}

fn group_parse(b: &[u8]) -> Result<ArchiveGroup, String> {
    ArchiveGroup::parse(&mut Cursor::new(b)).map_err(es)
}

fn group_build(g: &ArchiveGroup) -> Result<Vec<u8>, String> {
    let mut b = ArchiveGroupBuilder::new();
    for e in &g.entries {
        b.add_entry(e.clone());
    }
    let mut out = Vec::new();
    b.build(Cursor::new(&mut out)).map_err(es)?;
    Ok(out)
}

fn group_logical(g: &ArchiveGroup) -> String {
    format!("{:?}", g.entries)
}

pub const FORMATS: &[&str] = &[
    "blte", "encoding", "aidx", "agroup", "root", "install", "download", "size", "tvfs", "parchive", "pindex", "zbsdiff", "buildcfg", "cdncfg", "patchcfg", "productcfg",
    "keyring", "bpsv", "espec",
];

fn run_fmt(fmt: &str, b: &[u8]) -> Option<Out> {
    Some(match fmt {
        "blte" => casc::<BlteFile>(b, &dbg),
        "encoding" => casc::<EncodingFile>(b, &dbg),
        "aidx" => casc::<ArchiveIndex>(b, &dbg),
        "agroup" => pipeline::<ArchiveGroup>(b, &group_parse, &group_build, &group_logical),
        "root" => casc::<RootFile>(b, &root_logical),
        "install" => casc::<InstallManifest>(b, &dbg),
        "download" => casc::<DownloadManifest>(b, &dbg),
        "size" => casc::<SizeManifest>(b, &dbg),
        "tvfs" => casc::<TvfsFile>(b, &tvfs_logical),
        "parchive" => casc::<PatchArchive>(b, &pa_logical),
        "pindex" => casc::<PatchIndex>(b, &pi_logical),
        "zbsdiff" => casc::<ZbsDiff>(b, &dbg),
        "buildcfg" => casc::<BuildConfig>(b, &cdbg),
        "cdncfg" => casc::<CdnConfig>(b, &cdbg),
        "patchcfg" => casc::<PatchConfig>(b, &cdbg),
        "productcfg" => casc::<ProductConfig>(b, &cdbg),
        "keyring" => casc::<KeyringConfig>(b, &cdbg),
        "bpsv" => casc::<BpsvDocument>(b, &cdbg),
        "espec" => casc::<ESpec>(b, &dbg),
        _ => return None,
    })
}


// ---------------------------------------------------------------------------------------------
// allocation guard: several parsers reserve `count * size_of::<Entry>()` from a header field
// before reading (property C02's ground); a mutated count makes the process abort. A mutated
// binary input is therefore first parsed in a forked child with a 6 GiB address-space limit;
// if the child dies the input is tallied `parse-abort(C02)` and not evaluated here.
unsafe extern "C" {
    fn fork() -> i32;
    fn waitpid(pid: i32, status: *mut i32, options: i32) -> i32;
    fn _exit(code: i32) -> !;
    fn setrlimit(resource: i32, rlim: *const [u64; 2]) -> i32;
    fn close(fd: i32) -> i32;
}

fn survives_parse(fmt: &str, b: &[u8]) -> bool {
    unsafe {
        let pid = fork();
        if pid < 0 {
            return true;
        }
        if pid == 0 {
            close(2);
            let lim: [u64; 2] = [6 << 30, 6 << 30];
            setrlimit(9, &lim);
            let _ = catch(AssertUnwindSafe(|| parse_only(fmt, b)));
            _exit(0);
        }
        let mut st = 0i32;
        waitpid(pid, &mut st, 0);
        st == 0
    }
}

fn parse_only(fmt: &str, b: &[u8]) {
    match fmt {
        "blte" => drop(<BlteFile as CascFormat>::parse(b)),
        "encoding" => drop(<EncodingFile as CascFormat>::parse(b)),
        "aidx" => drop(<ArchiveIndex as CascFormat>::parse(b)),
        "agroup" => drop(group_parse(b)),
        "root" => drop(<RootFile as CascFormat>::parse(b)),
        "install" => drop(<InstallManifest as CascFormat>::parse(b)),
        "download" => drop(<DownloadManifest as CascFormat>::parse(b)),
        "size" => drop(<SizeManifest as CascFormat>::parse(b)),
        "tvfs" => drop(<TvfsFile as CascFormat>::parse(b)),
        "parchive" => drop(<PatchArchive as CascFormat>::parse(b)),
        "pindex" => drop(<PatchIndex as CascFormat>::parse(b)),
        "zbsdiff" => drop(<ZbsDiff as CascFormat>::parse(b)),
        _ => {}
    }
}

// ---------------------------------------------------------------------------------------------
// shape classifiers: the sig names format + failing stage + the shape of the input, so that a
// different defect of the same format is still a VIOLATION.

fn be32(b: &[u8], o: usize) -> u32 {
    if b.len() < o + 4 { 0 } else { u32::from_be_bytes([b[o], b[o + 1], b[o + 2], b[o + 3]]) }
}

/// first words of an error text as a slug (numbers dropped): the error class named by the code
fn slug(msg: &str) -> String {
    let words: Vec<String> = msg
        .split(|c: char| !c.is_ascii_alphabetic())
        .filter(|w| w.len() > 1)
        .take(5)
        .map(|w| w.to_ascii_lowercase())
        .collect();
    words.join("-")
}

/// name of the field in which two logical-content strings first differ (`name:` / `name=`
/// closest before the first differing byte)
fn diff_field(a: &str, b: &str) -> String {
    let at = a.bytes().zip(b.bytes()).position(|(x, y)| x != y).unwrap_or(a.len().min(b.len()));
    let pre = &a.as_bytes()[..at.min(a.len())];
    let mut end = pre.len();
    while end > 0 {
        if pre[end - 1] == b':' || pre[end - 1] == b'=' {
            let mut st = end - 1;
            while st > 0 && (pre[st - 1].is_ascii_alphanumeric() || pre[st - 1] == b'_') {
                st -= 1;
            }
            if st < end - 1 && pre[st].is_ascii_alphabetic() {
                return String::from_utf8_lossy(&pre[st..end - 1]).to_string();
            }
        }
        end -= 1;
    }
    "head".into()
}

fn shape(fmt: &str, stage: &str, input: &[u8], out: &Out) -> String {
    let tail = match stage {
        "rebuild-changes-content" => {
            let f = out.field.clone().unwrap_or_default();
            if fmt == "parchive" && ["v", "fk", "ok", "pk", "bits", "flags"].contains(&f.as_str()) {
                "header".to_string()
            } else if fmt == "root" {
                // the logical content of a root is one record multiset: no field names to point at
                "records".to_string()
            } else {
                f
            }
        }
        "accepted-not-rebuildable" | "rebuilt-not-parseable" | "second-build-fails" | "build-panics" => slug(&out.detail),
        _ => String::new(),
    };
    let input_shape = match fmt {
        "tvfs" => {
            // header: magic4 ver1 hdr1 ek1 pk1 flags4 path(off,size) vfs(off,size) cft(off,size) depth2 [est(off,size)]
            let flags = be32(input, 8);
            let (po, ps, vo, vs, co, cs) = (be32(input, 12) as u64, be32(input, 16) as u64, be32(input, 20) as u64, be32(input, 24) as u64, be32(input, 28) as u64, be32(input, 32) as u64);
            let hs = if flags & 2 != 0 { 46u64 } else { 38 };
            let (eo, esz) = if flags & 2 != 0 { (be32(input, 38) as u64, be32(input, 42) as u64) } else { (0, 0) };
            let w = |n: u64| if n > 0xFF_FFFF { 4u64 } else if n > 0xFFFF { 3 } else if n > 0xFF { 2 } else { 1 };
            let entry = 9 + 4 + if flags & 1 != 0 { 9 } else { 0 } + if flags & 2 != 0 { w(esz) } else { 0 } + if flags & 4 != 0 { w(cs) } else { 0 };
            let slack = cs % entry;
            // canonical layout written by build: header, path, [est], cft, vfs — contiguous
            let canonical = po == hs && (if flags & 2 != 0 { eo == po + ps && co == eo + esz } else { co == po + ps }) && vo == co + cs && vo + vs == input.len() as u64;
            if slack != 0 && w(cs) != w(cs - slack) {
                "cft-slack-crosses-offset-width"
            } else if slack != 0 {
                "cft-slack"
            } else if !canonical {
                "noncanonical-table-layout"
            } else {
                "canonical-layout"
            }
            .to_string()
        }
        "root" => {
            // a classic V2 header (magic, total, named) whose counts fall into the window the
            // header reader takes for an extended header (C03 finding root-v2-small-header-ambiguity),
            // in the input or in the bytes the rebuild wrote
            let win = root_v2_window;
            let window = win(input) || out.rebuilt.as_deref().is_some_and(win);
            match RootFile::parse(input) {
                _ if window => "v2-small-header-window".to_string(),
                Ok(r) => {
                    let n: usize = r.blocks.iter().map(|b| b.records.len()).sum();
                    if n == 0 { "no-records".to_string() } else { format!("{:?}", r.version).to_lowercase() }
                }
                Err(_) => "unparsed".to_string(),
            }
        }
        "encoding" => {
            let esz = be32(input, 18) as usize;
            let blk = input.get(22..22 + esz).unwrap_or(&[]);
            if std::str::from_utf8(blk).is_err() {
                "espec-not-utf8".to_string()
            } else if input.len() > 4 && (input[3] != 16 || input[4] != 16) {
                // header with a CKey / EKey hash size other than 16 (EncodingBuilder writes 16-byte keys only)
                "key-hash-size-not-16".to_string()
            } else if <EncodingFile as CascFormat>::parse(input).is_ok_and(|e| e.ekey_pages.iter().flat_map(|p| p.entries.iter()).any(|x| e.espec_table.get(x.espec_index).is_none())) {
                // an EKey entry whose ESpec index points outside the ESpec table (the parser accepts it)
                "espec-index-out-of-table".to_string()
            } else {
                String::new()
            }
        }
        "aidx" | "agroup" => {
            // footer fields that deviate from the usual layout
            if input.len() < 28 {
                String::new()
            } else {
                let hb = input[input.len() - 13] as usize;
                let fs = input.len().saturating_sub(20 + hb);
                let f = &input[fs..];
                let mut v = vec![];
                if f.len() >= 20 {
                    if f[12] != 4 && fmt == "aidx" {
                        v.push(format!("offset-bytes-{}", f[12]));
                    }
                    if f[14] != 16 {
                        v.push("short-keys".to_string());
                    }
                    if f[15] != 8 {
                        v.push("hash-bytes".to_string());
                    }
                }
                v.join("-")
            }
        }
        _ => String::new(),
    };
    // shapes that name a cause on their own: no error-text / field tail
    let tail = if (fmt == "tvfs") || input_shape == "v2-small-header-window" { String::new() } else { tail };
    [fmt, stage, &input_shape, &tail].iter().filter(|x| !x.is_empty()).map(|x| x.to_string()).collect::<Vec<_>>().join("-")
}

// ---------------------------------------------------------------------------------------------
// per-run state

struct Ctx {
    s: Session,
    fixtures: Vec<(String, String, Vec<u8>)>, // (fmt, relative path, bytes)
}

fn load_fixtures() -> Vec<(String, String, Vec<u8>)> {
    let mut v = vec![];
    let mut add = |fmt: &str, rel: &str| {
        if let Ok(b) = std::fs::read(format!("{FIX}/{rel}")) {
            v.push((fmt.to_string(), rel.to_string(), b));
        }
    };
    let dirs: &[(&str, &str, &[&str])] = &[
        ("aidx", "archive", &[".index"]),
        ("download", "download", &[".download"]),
        ("encoding", "encoding", &[".bin"]),
        ("install", "install", &[".install"]),
        ("parchive", "patch_archive", &[".bin"]),
        ("pindex", "patch_index", &[".bin"]),
        ("root", "root", &[".root"]),
        ("tvfs", "tvfs", &[".bin"]),
        ("blte", "tvfs", &[".blte"]),
        ("zbsdiff", "zbsdiff", &[".zbsdiff"]),
    ];
    for (fmt, dir, exts) in dirs {
        let mut names: Vec<String> = std::fs::read_dir(format!("{FIX}/{dir}")).map(|rd| rd.filter_map(|e| e.ok()).map(|e| e.file_name().to_string_lossy().to_string()).collect()).unwrap_or_default();
        names.sort();
        for n in names {
            if exts.iter().any(|e| n.ends_with(e)) {
                add(fmt, &format!("{dir}/{n}"));
            }
        }
    }
    for (fmt, rel) in [
        ("keyring", "config/odin_keyring_config.txt"),
        ("keyring", "config/overwatch_keyring_config.txt"),
        ("keyring", "config/wow_keyring_config.txt"),
        ("buildcfg", "config/wow_build_config.txt"),
        ("buildcfg", "config/wow_classic_build_config.txt"),
        ("buildcfg", "config/wow_classic_era_build_config.txt"),
    ] {
        add(fmt, rel);
    }
    v
}

/// outcome of one builder-as-mutator check: (failing step, detail, bytes the step wrote)
type FromFail = (String, String, Option<Vec<u8>>);

/// Builder-as-mutator constructors (`from_*`): the parsed value `v` of an accepted input is loaded
/// into the format's builder, optionally modified (one entry added, then removed again), built,
/// serialised and parsed back; the logical content must be the one of `v` (plus the added entry).
/// Every choice is a function of the input bytes, so the input's own request line replays it.
/// Returns the tally label and the failures.
fn from_ctor(fmt: &str, input: &[u8], rebuilt: &[u8]) -> Option<(String, Vec<FromFail>)> {
    let h = fnv64(input);
    let fails: std::cell::RefCell<Vec<FromFail>> = std::cell::RefCell::new(vec![]);
    let fail = |step: &str, detail: String, bytes: Option<Vec<u8>>| fails.borrow_mut().push((step.to_string(), detail, bytes));
    let first_diff = |a: &str, b: &str| {
        let at = a.bytes().zip(b.bytes()).position(|(x, y)| x != y).unwrap_or(a.len().min(b.len()));
        let cut = |s: &str| s.chars().skip(at.saturating_sub(30)).take(100).collect::<String>();
        format!("want …{}… got …{}…", cut(a), cut(b))
    };
    let label;
    match fmt {
        "aidx" => {
            let v = aidx_parse(input).ok()?;
            let (ks, ob) = (v.footer.ekey_length as usize, v.footer.offset_bytes);
            label = format!("aidx:from_archive_index(ks={ks},ob={ob})");
            let l0 = aidx_logical(&v);
            // (1) unmodified
            match catch(AssertUnwindSafe(|| aidx_builder_bytes(ArchiveIndexBuilder::from_archive_index(&v)))) {
                Err(p) => fail("from-archive-index-build-fails", format!("panic: {p}"), None),
                Ok(Err(e)) => fail("from-archive-index-build-fails", e, None),
                Ok(Ok(b)) => match catch(AssertUnwindSafe(|| aidx_parse(&b))) {
                    Ok(Ok(v2)) => {
                        let l = aidx_logical(&v2);
                        // (bytes are not compared with v.build(): that writer re-emits the footer's
                        // toc_hash / version as read, the builder computes its own)
                        if l != l0 {
                            fail("from-archive-index-changes-content", first_diff(&l0, &l), Some(b));
                        }
                    }
                    Ok(Err(e)) => fail("from-archive-index-not-parseable", e, Some(b)),
                    Err(p) => fail("from-archive-index-not-parseable", format!("panic: {p}"), Some(b)),
                },
            }
            // (2) add one entry (a key the index does not hold; location at the top of the offset
            // width), (3) remove it again
            if ks > 0 && fails.borrow().is_empty() {
                let mut key: Vec<u8> = (0..ks).map(|i| (h >> (8 * (i % 8))) as u8 ^ (i as u8).wrapping_mul(0x3b)).collect();
                key[0] |= 1;
                while v.entries.iter().any(|e| e.encoding_key == key) {
                    let l = key.len() - 1;
                    key[l] = key[l].wrapping_add(1);
                }
                let size = (h >> 13) as u32 | 1;
                let offset: u64 = match ob {
                    4 => 0x8000_0000 | (h >> 32),
                    5 => 0x80_0000_0000 | (h >> 25),
                    _ => 0x8000_0000_0000 | (h >> 17),
                };
                let added = IndexEntry { encoding_key: key.clone(), size, offset: if ob == 6 { offset & 0xFFFF_FFFF } else { offset }, archive_index: if ob == 6 { Some((offset >> 32) as u16) } else { None } };
                let mut want = v.entries.clone();
                want.push(added);
                want.sort();
                let want_l = want.iter().map(aidx_entry_str).collect::<Vec<_>>().join(";");
                let step = catch(AssertUnwindSafe(|| {
                    let mut b = ArchiveIndexBuilder::from_archive_index(&v);
                    b.add_entry(key.clone(), size, offset);
                    let bytes = aidx_builder_bytes(b)?;
                    let v2 = aidx_parse(&bytes).map_err(|e| format!("parse: {e}"))?;
                    Ok::<_, String>((bytes, v2))
                }));
                match step {
                    Ok(Ok((bytes, v2))) => {
                        let got_l = v2.entries.iter().map(aidx_entry_str).collect::<Vec<_>>().join(";");
                        if got_l != want_l || v2.footer.offset_bytes != ob || v2.footer.ekey_length as usize != ks {
                            fail("from-archive-index-add-changes-content", first_diff(&want_l, &got_l), Some(bytes));
                        } else {
                            let back = catch(AssertUnwindSafe(|| {
                                let mut b = ArchiveIndexBuilder::from_archive_index(&v2);
                                if !b.remove_entry(&key) {
                                    return Err("remove_entry does not find the added key".to_string());
                                }
                                let bytes = aidx_builder_bytes(b)?;
                                let v3 = aidx_parse(&bytes).map_err(|e| format!("parse: {e}"))?;
                                Ok::<_, String>((bytes, aidx_logical(&v3)))
                            }));
                            match back {
                                Ok(Ok((bytes, l))) if l != l0 => fail("from-archive-index-remove-changes-content", first_diff(&l0, &l), Some(bytes)),
                                Ok(Ok(_)) => {}
                                Ok(Err(e)) => fail("from-archive-index-remove-fails", e, None),
                                Err(p) => fail("from-archive-index-remove-fails", format!("panic: {p}"), None),
                            }
                        }
                    }
                    Ok(Err(e)) => fail("from-archive-index-add-fails", e, None),
                    Err(p) => fail("from-archive-index-add-fails", format!("panic: {p}"), None),
                }
            }
        }
        "root" => {
            let v = RootFile::parse(input).ok()?;
            label = format!("root:from_root_file({:?})", v.version);
            let recs = root_recs(&v);
            let l0 = root_logical_of(v.version, &recs);
            match catch(AssertUnwindSafe(|| RootBuilder::from_root_file(&v).build().map_err(es))) {
                Err(p) => fail("from-root-file-build-fails", format!("panic: {p}"), None),
                Ok(Err(e)) => fail("from-root-file-build-fails", e, None),
                Ok(Ok(b)) => match catch(AssertUnwindSafe(|| RootFile::parse(&b).map_err(es))) {
                    Ok(Ok(v2)) => {
                        let l = root_logical(&v2);
                        if l != l0 {
                            fail("from-root-file-changes-content", first_diff(&l0, &l), Some(b));
                        } else if b != rebuilt {
                            fail("from-root-file-bytes-differ", format!("from_root_file(v).build() writes {} bytes, v.build() {} bytes with the same content", b.len(), rebuilt.len()), Some(b));
                        }
                    }
                    Ok(Err(e)) => fail("from-root-file-not-parseable", e, Some(b)),
                    Err(p) => fail("from-root-file-not-parseable", format!("panic: {p}"), Some(b)),
                },
            }
            // add one record to an existing block — its FileDataID repeats one of the block, is a
            // neighbour of one, or an extreme — then remove that FileDataID again
            if !recs.is_empty() && fails.borrow().is_empty() {
                let base = recs[(h % recs.len() as u64) as usize];
                let (loc, cf) = (base.3, base.4);
                let named = v.version == RootVersion::V1 || cf & ContentFlags::NO_NAME_HASH == 0;
                let fd = match (h >> 8) % 6 {
                    0 | 1 => base.0,
                    2 => base.0.wrapping_add(1),
                    3 => base.0.wrapping_sub(1),
                    4 => 0,
                    _ => u32::MAX,
                };
                let mut ck = [0u8; 16];
                for (i, x) in ck.iter_mut().enumerate() {
                    *x = (h >> (8 * (i % 8))) as u8 ^ (i as u8).wrapping_mul(0x55);
                }
                let nh = if named { Some(h.rotate_left(17)) } else { None };
                let mut want = recs.clone();
                want.push((fd, ck, nh, loc, cf));
                let want_l = root_logical_of(v.version, &want);
                let step = catch(AssertUnwindSafe(|| {
                    let mut b = RootBuilder::from_root_file(&v);
                    b.add_file_with_hash(FileDataId::new(fd), ContentKey::from_bytes(ck), nh, LocaleFlags::new(loc), ContentFlags::new(cf));
                    let bytes = b.build().map_err(es)?;
                    if v2_window_recs(v.version, &want) {
                        return Ok(None);
                    }
                    let v2 = RootFile::parse(&bytes).map_err(|e| format!("parse: {e}"))?;
                    Ok::<_, String>(Some((bytes, v2)))
                }));
                match step {
                    Ok(Ok(None)) => {}
                    Ok(Ok(Some((bytes, v2)))) => {
                        let got_l = root_logical(&v2);
                        if got_l != want_l {
                            fail("from-root-file-add-changes-content", first_diff(&want_l, &got_l), Some(bytes));
                        } else {
                            let rest: Vec<RRec> = recs.iter().filter(|r| r.0 != fd).copied().collect();
                            if !rest.is_empty() {
                                let want_l = root_logical_of(v.version, &rest);
                                let back = catch(AssertUnwindSafe(|| {
                                    let mut b = RootBuilder::from_root_file(&v2);
                                    if !b.remove_file(FileDataId::new(fd)) {
                                        return Err("remove_file does not find the added FileDataID".to_string());
                                    }
                                    let bytes = b.build().map_err(es)?;
                                    if v2_window_recs(v.version, &rest) {
                                        return Ok(None);
                                    }
                                    let v3 = RootFile::parse(&bytes).map_err(|e| format!("parse: {e}"))?;
                                    Ok::<_, String>(Some((bytes, root_logical(&v3))))
                                }));
                                match back {
                                    Ok(Ok(Some((bytes, l)))) if l != want_l => fail("from-root-file-remove-changes-content", first_diff(&want_l, &l), Some(bytes)),
                                    Ok(Ok(_)) => {}
                                    Ok(Err(e)) => fail("from-root-file-remove-fails", e, None),
                                    Err(p) => fail("from-root-file-remove-fails", format!("panic: {p}"), None),
                                }
                            }
                        }
                    }
                    Ok(Err(e)) => fail("from-root-file-add-fails", e, None),
                    Err(p) => fail("from-root-file-add-fails", format!("panic: {p}"), None),
                }
            }
        }
        "install" => {
            let v = InstallManifest::parse(input).ok()?;
            label = format!("install:from_manifest(v{})", v.header.version);
            match catch(AssertUnwindSafe(|| InstallManifestBuilder::from_manifest(&v).build().map_err(es))) {
                Err(p) => fail("from-manifest-build-fails", format!("panic: {p}"), None),
                Ok(Err(e)) => fail("from-manifest-build-fails", e, None),
                Ok(Ok(x)) => match x.build().map_err(es) {
                    Err(e) => fail("from-manifest-not-serialisable", e, None),
                    Ok(b) => match catch(AssertUnwindSafe(|| InstallManifest::parse(&b).map_err(es))) {
                        Ok(Ok(v2)) => {
                            if v2 != v {
                                fail("from-manifest-changes-content", first_diff(&dbg(&v), &dbg(&v2)), Some(b));
                            }
                        }
                        Ok(Err(e)) => fail("from-manifest-not-parseable", e, Some(b)),
                        Err(p) => fail("from-manifest-not-parseable", format!("panic: {p}"), Some(b)),
                    },
                },
            }
        }
        "download" => {
            let v = DownloadManifest::parse(input).ok()?;
            label = format!("download:from_manifest(v{},cks={},fs={})", v.header.version(), v.header.has_checksum() as u8, v.header.flag_size());
            match catch(AssertUnwindSafe(|| DownloadManifestBuilder::from_manifest(&v).build().map_err(es))) {
                Err(p) => fail("from-manifest-build-fails", format!("panic: {p}"), None),
                Ok(Err(e)) => fail("from-manifest-build-fails", e, None),
                Ok(Ok(x)) => match x.build().map_err(es) {
                    Err(e) => fail("from-manifest-not-serialisable", e, None),
                    Ok(b) => match catch(AssertUnwindSafe(|| DownloadManifest::parse(&b).map_err(es))) {
                        Ok(Ok(v2)) => {
                            // the raw has_checksum byte (any non-zero value) is an encoding detail the
                            // builder normalises to 1: compared through the accessors
                            let (l0, l) = (dl_logical(&v), dl_logical(&v2));
                            if l != l0 {
                                fail("from-manifest-changes-content", first_diff(&l0, &l), Some(b));
                            }
                        }
                        Ok(Err(e)) => fail("from-manifest-not-parseable", e, Some(b)),
                        Err(p) => fail("from-manifest-not-parseable", format!("panic: {p}"), Some(b)),
                    },
                },
            }
        }
        "encoding" => {
            let v = <EncodingFile as CascFormat>::parse(input).ok()?;
            label = format!("encoding:from_encoding_file(cps={},eps={})", v.header.ckey_page_size_kb, v.header.ekey_page_size_kb);
            let l0 = enc_logical(&v);
            let round = |b: EncodingBuilder| -> Result<(Vec<u8>, EncodingFile), String> {
                let x = b.build().map_err(es)?;
                let bytes = CascFormat::build(&x).map_err(|e| format!("serialise: {e}"))?;
                let v2 = <EncodingFile as CascFormat>::parse(&bytes).map_err(|e| format!("parse: {e}"))?;
                Ok((bytes, v2))
            };
            match catch(AssertUnwindSafe(|| round(EncodingBuilder::from_encoding_file(&v)))) {
                Err(p) => fail("from-encoding-file-build-fails", format!("panic: {p}"), None),
                Ok(Err(e)) => fail("from-encoding-file-build-fails", e, None),
                Ok(Ok((b, v2))) => {
                    let l = enc_logical(&v2);
                    if l != l0 {
                        fail("from-encoding-file-changes-content", first_diff(&l0, &l), Some(b));
                    }
                }
            }
        }
        _ => return None,
    }
    Some((label, fails.into_inner()))
}

impl Ctx {
    /// evaluate the oracle on one input; `replay` reproduces it
    fn oracle(&mut self, fmt: &str, input: &[u8], replay: String, fixture_identity: bool) -> Option<Out> {
        if !FORMATS.contains(&fmt) {
            return None;
        }
        if !fixture_identity && !is_text(fmt) && !survives_parse(fmt, input) {
            self.s.tally(&format!("{fmt}:parse-abort(C02)"));
            return Some(Out { stage: Stage::ParsePanic, detail: "abort".into(), rebuilt: None, logical: None, field: None });
        }
        let out = run_fmt(fmt, input)?;
        self.s.tally(&format!(
            "{fmt}:{}",
            match &out.stage {
                Stage::Rejected => "rejected",
                Stage::ParsePanic => "parse-panic(C02)",
                Stage::Ok => "fixed-point",
                Stage::Fail(k) => k,
            }
        ));
        match &out.stage {
            Stage::Fail(k) => {
                let sig = shape(fmt, k, input, &out);
                self.s.oracle_fail(&sig, &format!("{fmt}: accepted input ({} bytes) — {k}: {}", input.len(), out.detail.chars().take(400).collect::<String>()), &[replay]);
            }
            Stage::Ok => {
                // builder-as-mutator constructors on the accepted value
                if let Some((label, fails)) = from_ctor(fmt, input, out.rebuilt.as_deref().unwrap_or(&[])) {
                    self.s.tally(&format!("{label}:{}", if fails.is_empty() { "same-content" } else { "differs" }));
                    for (step, detail, bytes) in fails {
                        let o2 = Out { stage: Stage::Ok, detail: detail.clone(), rebuilt: bytes, logical: None, field: None };
                        let sig = shape(fmt, &step, input, &o2);
                        self.s.oracle_fail(&sig, &format!("{fmt}: accepted input ({} bytes) — {step}: {}", input.len(), detail.chars().take(400).collect::<String>()), &[replay.clone()]);
                    }
                }
                if fixture_identity && out.rebuilt.as_deref() != Some(input) {
                    let rb = out.rebuilt.as_deref().unwrap_or(&[]);
                    let at = rb.iter().zip(input.iter()).position(|(a, b)| a != b).unwrap_or(rb.len().min(input.len()));
                    self.s.oracle_fail(&format!("{fmt}-cdn-fixture-not-byte-identical"), &format!("real CDN fixture: rebuilt {} bytes vs {} bytes, first difference at {at}", rb.len(), input.len()), &[replay]);
                    self.s.tally(&format!("{fmt}:fixture-bytes-differ"));
                } else if fixture_identity {
                    self.s.tally(&format!("{fmt}:fixture-byte-identical(test)"));
                }
            }
            _ => {}
        }
        Some(out)
    }

    fn count(&mut self, fmt: &str, input: &[u8], out: &Out) {
        let nontrivial = matches!(out.stage, Stage::Ok | Stage::Fail(_));
        if nontrivial {
            self.s.case(Some(&format!("{fmt}:{:016x}:{}", fnv64(input), input.len())));
        } else {
            self.s.case(None);
        }
    }

    /// oracle-only request with inline bytes
    fn o_inline(&mut self, fmt: &str, input: &[u8]) -> bool {
        let req = format!("o {fmt} {}", hex(input));
        match self.oracle(fmt, input, req.clone(), false) {
            Some(out) => {
                self.s.line(&req, "-");
                self.count(fmt, input, &out);
                out.stage == Stage::Ok
            }
            None => {
                self.s.line(&req, "bad-op");
                false
            }
        }
    }

    /// oracle-only request: fixture + mutation list
    fn o_fixture(&mut self, idx: usize, ms: &[Mut]) {
        let (fmt, rel, base) = self.fixtures[idx].clone();
        let input = apply_muts(&base, ms);
        let req = format!("of {fmt} {rel} {}", muts_text(ms));
        if let Some(out) = self.oracle(&fmt, &input, req.clone(), ms.is_empty()) {
            self.s.line(&req, "-");
            self.count(&fmt, &input, &out);
        } else {
            self.s.line(&req, "bad-op");
        }
    }

    /// modelled request: response carries the whole pipeline outcome
    fn m_line(&mut self, fmt: &str, input: &[u8]) {
        let req = format!("m {fmt} {}", hex(input));
        let resp = self.m_resp(fmt, input, &req);
        self.s.line(&req, &resp);
    }

    fn m_resp(&mut self, fmt: &str, input: &[u8], req: &str) -> String {
        let mfmt = match fmt {
            "inst" => "install",
            "dl" => "download",
            "size" => "size",
            "zbs" => "zbsdiff",
            "pidx" => "pindex",
            "root" => "root",
            _ => return "bad-op".into(),
        };
        let Some(out) = self.oracle(mfmt, input, req.to_string(), false) else { return "bad-op".into() };
        self.count(mfmt, input, &out);
        let summary = match fmt {
            "inst" => InstallManifest::parse(input).ok().map(|m| format!("v={} t={} e={}", m.header.version, m.tags.len(), m.entries.len())),
            "dl" => DownloadManifest::parse(input).ok().map(|m| format!("v={} e={} t={}", m.header.version(), m.entries.len(), m.tags.len())),
            "size" => SizeManifest::parse(input).ok().map(|m| format!("v={} e={} t={} total={}", m.header.version(), m.entries.len(), m.tags.len(), m.header.total_size())),
            "root" => RootFile::parse(input).ok().map(|r| format!("v={} b={} r={}", ver_num(r.version), r.blocks.len(), r.blocks.iter().map(|b| b.records.len()).sum::<usize>())),
            "pidx" => <PatchIndex as CascFormat>::parse(input).ok().map(|p| {
                let h = &p.header;
                let bt: Vec<String> = h.blocks.iter().map(|b| format!("{}:{}", b.block_type, b.block_size)).collect();
                format!(
                    "hs={} ds={} xk={} kd={} xd={} bt=[{}] ks={} e={}",
                    h.header_size,
                    h.data_size,
                    h.key_size,
                    hex(&h.key_data[..(h.key_size as usize).min(16)]),
                    h.extra_data.len(),
                    bt.join(","),
                    p.key_size,
                    p.entries.len()
                )
            }),
            _ => ZbsDiff::parse(input).ok().map(|z| format!("c={} d={} o={} x={}", z.header.control_size, z.header.diff_size, z.header.output_size, z.extra_data.len())),
        };
        match (&out.stage, summary) {
            (Stage::Rejected, _) => "err".into(),
            (Stage::ParsePanic, _) => "panic".into(),
            (_, None) => "err".into(),
            (Stage::Ok, Some(sm)) => {
                let rb = out.rebuilt.as_deref().unwrap_or(&[]);
                format!("ok {sm} n={} h={:016x} fp=ok", rb.len(), fnv64(rb))
            }
            (Stage::Fail(k), Some(sm)) => match &out.rebuilt {
                Some(rb) => format!("ok {sm} n={} h={:016x} fp={k}", rb.len(), fnv64(rb)),
                None => format!("ok {sm} fp={k}"),
            },
        }
    }

    /// `rp`: RootBuilder on a program. K: the built bytes (length + hash) against the model.
    /// O (builder form): the parsed records are the program's records — as a multiset with the
    /// flags of their blocks; a FileDataID added twice to one block must come back twice.
    fn rp_resp(&mut self, ver: RootVersion, recs: &[RRec], req: &str) -> (String, Option<Vec<u8>>) {
        let built = catch(AssertUnwindSafe(|| {
            let mut b = RootBuilder::new(ver);
            for r in recs {
                b.add_file_with_hash(FileDataId::new(r.0), ContentKey::from_bytes(r.1), r.2, LocaleFlags::new(r.3), ContentFlags::new(r.4));
            }
            b.build().map_err(es)
        }));
        let bytes = match built {
            Err(_) => {
                self.s.case(None);
                self.s.oracle_fail("root-builder-panics", &format!("RootBuilder({ver:?}) panics on a program of {} records", recs.len()), &[req.to_string()]);
                return ("panic".into(), None);
            }
            Ok(Err(e)) => {
                self.s.case(None);
                if !recs.is_empty() {
                    self.s.oracle_fail("root-builder-refuses", &format!("RootBuilder({ver:?}) refuses a program of {} records: {e}", recs.len()), &[req.to_string()]);
                }
                return ("err".into(), None);
            }
            Ok(Ok(b)) => b,
        };
        // shape of the program, for the tally and the sig
        let mut seen = std::collections::BTreeSet::new();
        let repeated = recs.iter().any(|r| !seen.insert((r.0, r.3, r.4)));
        let sorted_in = recs.windows(2).all(|w| w[0].0 <= w[1].0);
        let shape = if repeated { "repeated-fdid-in-block" } else if !sorted_in { "unsorted-insertion" } else { "increasing-fdids" };
        self.s.tally(&format!("root:program:{:?}:{shape}", ver));
        self.s.case(Some(&format!("rp:{:016x}:{}", fnv64(req.as_bytes()), recs.len())));
        if v2_window_recs(ver, recs) {
            // known finding (V2 small-header window): reported on the bytes' own line
            self.s.tally("root:program:v2-small-header-window");
        } else {
            match catch(AssertUnwindSafe(|| RootFile::parse(&bytes))) {
                Ok(Ok(v)) => {
                    let (want, got) = (root_logical_of(ver, recs), root_logical(&v));
                    if want != got {
                        let at = want.bytes().zip(got.bytes()).position(|(a, b)| a != b).unwrap_or(want.len().min(got.len()));
                        let cut = |s: &str| s.chars().skip(at.saturating_sub(40)).take(120).collect::<String>();
                        self.s.oracle_fail(
                            &format!("root-builder-value-differs-{shape}"),
                            &format!("RootBuilder({ver:?}) program of {} records: parse(build) has other records — program …{}… parsed …{}…", recs.len(), cut(&want), cut(&got)),
                            &[req.to_string()],
                        );
                        self.s.tally("root:builder-value-differs");
                    } else {
                        self.s.tally("root:builder-value-eq");
                    }
                }
                // a rejected builder output is reported by the builder-form check on the bytes
                _ => self.s.tally("root:program:output-rejected"),
            }
        }
        (format!("ok n={} h={:016x}", bytes.len(), fnv64(&bytes)), Some(bytes))
    }

    /// `ap`: ArchiveIndexBuilder::with_config(ks, ob, 4) on a program -> build -> parse ->
    /// from_archive_index -> build -> parse. K: the entries read back at the end against the model.
    /// O: the first parse gives the program's entries under the chosen layout (builder form), the
    /// builder loaded from the parsed index writes the same bytes, the second parse the same content.
    fn ap_resp(&mut self, ks: u8, ob: u8, ents: &[(Vec<u8>, u32, u64)], req: &str) -> (String, Option<Vec<u8>>) {
        let run = catch(AssertUnwindSafe(|| {
            let mut b = ArchiveIndexBuilder::with_config(ks, ob, 4);
            for (k, sz, off) in ents {
                b.add_entry(k.clone(), *sz, *off);
            }
            let b1 = aidx_builder_bytes(b).map_err(|e| ("build", e, None))?;
            let v1 = aidx_parse(&b1).map_err(|e| ("parse", e, Some(b1.clone())))?;
            let b2 = aidx_builder_bytes(ArchiveIndexBuilder::from_archive_index(&v1)).map_err(|e| ("from-archive-index-build", e, Some(b1.clone())))?;
            let v2 = aidx_parse(&b2).map_err(|e| ("from-archive-index-parse", e, Some(b1.clone())))?;
            Ok::<_, (&str, String, Option<Vec<u8>>)>((b1, v1, b2, v2))
        }));
        let o = |bytes: Option<Vec<u8>>, detail: &str| Out { stage: Stage::Ok, detail: detail.to_string(), rebuilt: bytes, logical: None, field: None };
        self.s.tally(&format!("aidx:program(ks={ks},ob={ob})"));
        match run {
            Err(p) => {
                self.s.case(None);
                self.s.oracle_fail("aidx-program-panics", &format!("archive index program (ks {ks}, offset bytes {ob}, {} entries) panics: {p}", ents.len()), &[req.to_string()]);
                ("panic".into(), None)
            }
            Ok(Err((step, e, bytes))) => {
                self.s.case(None);
                let b = bytes.clone().unwrap_or_default();
                let sig = shape("aidx", &format!("program-{step}-fails"), &b, &o(None, &e));
                self.s.oracle_fail(&sig, &format!("archive index program (ks {ks}, offset bytes {ob}, {} entries): {step} fails: {e}", ents.len()), &[req.to_string()]);
                ("err".into(), bytes)
            }
            Ok(Ok((b1, v1, b2, v2))) => {
                self.s.case(Some(&format!("ap:{:016x}:{}", fnv64(req.as_bytes()), ents.len())));
                // expected: the program's entries, sorted by key (stable), values in the layout's widths
                let mut want: Vec<IndexEntry> = ents
                    .iter()
                    .map(|(k, sz, off)| IndexEntry { encoding_key: k.clone(), size: *sz, offset: if ob == 6 { off & 0xFFFF_FFFF } else { *off }, archive_index: if ob == 6 { Some((off >> 32) as u16) } else { None } })
                    .collect();
                want.sort();
                let want_l = format!("ks={ks} ob={ob} sb=4 hb=8 n={} entries={}", want.len(), want.iter().map(aidx_entry_str).collect::<Vec<_>>().join(";"));
                let (l1, l2) = (aidx_logical(&v1), aidx_logical(&v2));
                let diff = |a: &str, b: &str| {
                    let at = a.bytes().zip(b.bytes()).position(|(x, y)| x != y).unwrap_or(a.len().min(b.len()));
                    let cut = |s: &str| s.chars().skip(at.saturating_sub(40)).take(110).collect::<String>();
                    format!("want …{}… got …{}…", cut(a), cut(b))
                };
                if l1 != want_l {
                    let sig = shape("aidx", "builder-value-differs", &b1, &o(None, ""));
                    self.s.oracle_fail(&sig, &format!("archive index program (ks {ks}, offset bytes {ob}, {} entries): parse(build) is not the program: {}", ents.len(), diff(&want_l, &l1)), &[req.to_string()]);
                } else if l2 != l1 {
                    let sig = shape("aidx", "from-archive-index-changes-content", &b1, &o(None, ""));
                    self.s.oracle_fail(&sig, &format!("archive index program (ks {ks}, offset bytes {ob}, {} entries): from_archive_index -> build -> parse: {}", ents.len(), diff(&l1, &l2)), &[req.to_string()]);
                } else if b2 != b1 {
                    let sig = shape("aidx", "from-archive-index-bytes-differ", &b1, &o(None, ""));
                    self.s.oracle_fail(&sig, &format!("archive index program (ks {ks}, offset bytes {ob}, {} entries): the builder loaded from its own parsed output writes other bytes ({} / {})", ents.len(), b2.len(), b1.len()), &[req.to_string()]);
                } else {
                    self.s.tally("aidx:program:from_archive_index-byte-identical");
                }
                let listing = v2.entries.iter().map(|e| format!("{}:{}:{}:{}", hex(&e.encoding_key), e.size, e.offset, e.archive_index.map_or("-".to_string(), |a| a.to_string()))).collect::<Vec<_>>().join(";");
                (format!("ok n={} h={:016x}", v2.entries.len(), fnv64(listing.as_bytes())), Some(b1))
            }
        }
    }

    fn run_req(&mut self, line: &str) {
        let toks: Vec<&str> = line.split(' ').filter(|t| !t.is_empty()).collect();
        match toks.as_slice() {
            ["m", fmt, h] => match unhex(h) {
                Some(b) => {
                    let r = self.m_resp(fmt, &b, line);
                    self.s.line(line, &r);
                }
                None => self.s.line(line, "bad-op"),
            },
            ["tv", n, h] => match (n.parse::<u32>().ok(), unhex(h)) {
                (Some(cft), Some(b)) => {
                    let r = tv_resp(cft, &b);
                    let key = format!("tv:{cft}:{:016x}", fnv64(&b));
                    self.s.case(if r.starts_with("ok") && b.len() > 1 { Some(&key) } else { None });
                    self.s.line(line, &r);
                }
                _ => self.s.line(line, "bad-op"),
            },
            ["tc", f, h] => match (f.parse::<u32>().ok().filter(|f| *f < 2), unhex(h)) {
                (Some(fl), Some(b)) => {
                    let r = tc_resp(fl, &b);
                    self.s.case(None);
                    self.s.line(line, &r);
                }
                _ => self.s.line(line, "bad-op"),
            },
            ["rp", ver, recs] => match (ver_of(ver), parse_rrecs(recs)) {
                (Some(ver), Some(recs)) => {
                    let (r, _) = self.rp_resp(ver, &recs, line);
                    self.s.line(line, &r);
                }
                _ => self.s.line(line, "bad-op"),
            },
            ["ap", ks, ob, ents] => match (ks.parse::<u8>().ok(), ob.parse::<u8>().ok(), parse_aents(ents)) {
                (Some(ks), Some(ob), Some(ents)) if (1..=16).contains(&ks) && (4..=6).contains(&ob) && ents.iter().all(|e| e.0.len() == ks as usize) => {
                    let (r, _) = self.ap_resp(ks, ob, &ents, line);
                    self.s.line(line, &r);
                }
                _ => self.s.line(line, "bad-op"),
            },
            ["o", fmt, h] => match unhex(h) {
                Some(b) if FORMATS.contains(fmt) => {
                    if let Some(out) = self.oracle(fmt, &b, line.to_string(), false) {
                        self.count(fmt, &b, &out);
                    }
                    self.s.line(line, "-");
                }
                _ => self.s.line(line, "bad-op"),
            },
            ["of", fmt, rel, ms] => {
                let base = if rel.contains("..") { None } else { std::fs::read(format!("{FIX}/{rel}")).ok() };
                match (base, parse_muts(ms)) {
                    (Some(base), Some(ms)) if FORMATS.contains(fmt) => {
                        let input = apply_muts(&base, &ms);
                        if let Some(out) = self.oracle(fmt, &input, line.to_string(), ms.is_empty()) {
                            self.count(fmt, &input, &out);
                        }
                        self.s.line(line, "-");
                    }
                    _ => self.s.line(line, "bad-op"),
                }
            }
            _ => self.s.line(line, "bad-op"),
        }
    }
}

/// `VfsTable::parse` under a header whose container-table size is `cft` (the width of every
/// cft-offset field is a function of that size)
fn tv_resp(cft: u32, data: &[u8]) -> String {
    let mut h = TvfsHeader::new(0);
    h.cft_table_size = cft;
    match catch(AssertUnwindSafe(|| VfsTable::parse(data, &h))) {
        Err(_) => "panic".into(),
        Ok(Err(_)) => "err".into(),
        Ok(Ok(t)) => {
            let es: Vec<String> = t
                .entries
                .iter()
                .map(|e| format!("{}:{}", e.offset, e.spans.iter().map(|s| format!("{}/{}/{}", s.file_offset, s.span_length, s.cft_offset)).collect::<Vec<_>>().join(",")))
                .collect();
            format!("ok e={} {}", es.len(), es.join(";"))
        }
    }
}

/// `ContainerFileTable::parse` then `build`: entry count and rebuilt size (slack is dropped)
fn tc_resp(flags: u32, data: &[u8]) -> String {
    let mut h = TvfsHeader::new(flags);
    h.cft_table_size = data.len() as u32;
    match catch(AssertUnwindSafe(|| ContainerFileTable::parse(data, &h).map(|t| (t.entries.len(), t.build(&h).len())))) {
        Err(_) => "panic".into(),
        Ok(Err(_)) => "err".into(),
        Ok(Ok((n, l))) => format!("ok n={n} rebuilt={l}"),
    }
}

// ---------------------------------------------------------------------------------------------
// builder programs

fn ver_of(t: &str) -> Option<RootVersion> {
    Some(match t {
        "1" => RootVersion::V1,
        "2" => RootVersion::V2,
        "3" => RootVersion::V3,
        "4" => RootVersion::V4,
        _ => return None,
    })
}

fn ver_num(v: RootVersion) -> u32 {
    match v {
        RootVersion::V1 => 1,
        RootVersion::V2 => 2,
        RootVersion::V3 => 3,
        RootVersion::V4 => 4,
    }
}

fn rrecs_text(recs: &[RRec]) -> String {
    if recs.is_empty() {
        return "-".into();
    }
    recs.iter().map(|r| format!("{},{},{},{},{}", r.0, hex(&r.1), r.2.map_or("-".to_string(), |h| h.to_string()), r.3, r.4)).collect::<Vec<_>>().join(";")
}

fn parse_rrecs(t: &str) -> Option<Vec<RRec>> {
    if t == "-" {
        return Some(vec![]);
    }
    let mut v = vec![];
    for part in t.split(';') {
        let f: Vec<&str> = part.split(',').collect();
        let [fd, ck, nh, loc, cf] = f.as_slice() else { return None };
        let ck: [u8; 16] = unhex(ck)?.try_into().ok()?;
        let nh = if *nh == "-" { None } else { Some(nh.parse::<u64>().ok()?) };
        v.push((fd.parse().ok()?, ck, nh, loc.parse().ok()?, cf.parse().ok()?));
    }
    Some(v)
}

fn aents_text(ents: &[(Vec<u8>, u32, u64)]) -> String {
    if ents.is_empty() {
        return "-".into();
    }
    ents.iter().map(|(k, s, o)| format!("{},{s},{o}", hex(k))).collect::<Vec<_>>().join(";")
}

fn parse_aents(t: &str) -> Option<Vec<(Vec<u8>, u32, u64)>> {
    if t == "-" {
        return Some(vec![]);
    }
    let mut v = vec![];
    for part in t.split(';') {
        let f: Vec<&str> = part.split(',').collect();
        let [k, s, o] = f.as_slice() else { return None };
        v.push((unhex(k)?, s.parse().ok()?, o.parse().ok()?));
    }
    Some(v)
}

fn k16(rng: &mut Rng) -> [u8; 16] {
    let mut k = [0u8; 16];
    match rng.below(12) {
        0 => {}
        1 => k = [0xFF; 16],
        _ => {
            for b in &mut k {
                *b = rng.byte();
            }
        }
    }
    k
}

fn name(rng: &mut Rng, max: usize) -> String {
    let n = rng.range(1, max as u64) as usize;
    (0..n)
        .map(|_| match rng.below(40) {
            0 => 'é',
            1 => ' ',
            2 => '\\',
            3 => '/',
            4 => '.',
            _ => (b'a' + rng.below(26) as u8) as char,
        })
        .collect()
}

const TAG_TYPES: &[TagType] = &[TagType::Platform, TagType::Architecture, TagType::Locale, TagType::Category, TagType::Unknown, TagType::Component, TagType::Version];

fn gen_install(rng: &mut Rng) -> Option<(InstallManifest, Vec<u8>)> {
    let mut b = InstallManifestBuilder::new();
    let nt = rng.below(5);
    let nf = *rng.pick(&[0u64, 1, 2, 7, 8, 9, 16, 17, 20]);
    for i in 0..nt {
        b = b.add_tag(format!("{}{i}", name(rng, 6)), *rng.pick(TAG_TYPES));
    }
    for _ in 0..nf {
        b = b.add_file(name(rng, 24), ContentKey::from_bytes(k16(rng)), *rng.pick(&[0u32, 1, 255, 256, 65536, u32::MAX, 12345]));
    }
    for f in 0..nf as usize {
        for t in 0..nt as usize {
            if rng.chance(1, 3) {
                b = b.associate_file_with_tag_by_index(f, t).ok()?;
            }
        }
    }
    let m = b.build().ok()?;
    let bytes = m.build().ok()?;
    Some((m, bytes))
}

fn gen_download(rng: &mut Rng) -> Option<(DownloadManifest, Vec<u8>)> {
    let ver = rng.range(1, 3) as u8;
    let mut b = DownloadManifestBuilder::new(ver).ok()?;
    let cks = rng.chance(1, 2);
    b = b.with_checksums(cks);
    let fs = if ver >= 2 { rng.below(5) as u8 } else { 0 };
    if fs > 0 {
        b = b.with_flags(fs).ok()?;
    }
    if ver >= 3 && rng.chance(1, 2) {
        b = b.with_base_priority(*rng.pick(&[-128i8, -1, 1, 5, 127])).ok()?;
    }
    let nt = rng.below(4);
    let nf = *rng.pick(&[0u64, 1, 2, 7, 8, 9, 16, 17]);
    for _ in 0..nf {
        b = b.add_file(EncodingKey::from_bytes(k16(rng)), *rng.pick(&[0u64, 1, 0xFFFF_FFFF, 0x1_0000_0000, 0xFF_FFFF_FFFF, 777]), *rng.pick(&[-128i8, -1, 0, 1, 2, 5, 127])).ok()?;
    }
    for i in 0..nt {
        b = b.add_tag(format!("{}{i}", name(rng, 6)), *rng.pick(TAG_TYPES));
    }
    for f in 0..nf as usize {
        if cks {
            b = b.set_file_checksum(f, rng.next() as u32).ok()?;
        }
        if fs > 0 && rng.chance(1, 2) {
            b = b.set_file_flags(f, rng.bytes(fs as usize)).ok()?;
        }
    }
    let m = b.build().ok()?;
    let bytes = m.build().ok()?;
    Some((m, bytes))
}

/// size manifests: builder with in-range values (the builder accepts esizes wider than the
/// field; those are generated separately as `size-builder-overwide`)
fn gen_size(rng: &mut Rng, overwide: bool) -> Option<Result<(SizeManifest, Vec<u8>), String>> {
    let ver = rng.range(1, 2) as u8;
    let ks = *rng.pick(&[1u8, 9, 16, 5]);
    let w = if ver == 1 { *rng.pick(&[1u8, 2, 4, 5, 8]) } else { 4 };
    let mut b = SizeManifestBuilder::new().version(ver).ekey_size(ks);
    if ver == 1 {
        b = b.esize_bytes(w);
    }
    let nf = *rng.pick(&[0u64, 1, 2, 7, 8, 9, 17]);
    let cap: u64 = if w >= 8 { u64::MAX / 64 } else { (1u64 << (8 * w as u32)) - 1 };
    for i in 0..nf {
        let mut e = match rng.below(4) {
            0 => 0,
            1 => cap,
            _ => rng.next() % (cap + 1).max(1),
        };
        if overwide && i == 0 && w < 8 {
            e = cap + 1 + rng.below(1000);
        }
        b = b.add_entry(rng.bytes(ks as usize), e);
    }
    let nt = rng.below(3);
    for i in 0..nt {
        b = b.add_tag(format!("{}{i}", name(rng, 5)), *rng.pick(TAG_TYPES));
        for f in 0..nf as usize {
            if rng.chance(1, 3) {
                b = b.tag_file(i as usize, f);
            }
        }
    }
    let m = b.build().ok()?;
    Some(m.build().map(|bytes| (m, bytes)).map_err(es))
}

fn gen_zbs(rng: &mut Rng) -> Option<Vec<u8>> {
    let old = gens::payload(rng, 300);
    let mut new = old.clone();
    for _ in 0..rng.below(4) {
        if new.is_empty() || rng.chance(1, 3) {
            let at = rng.below(new.len() as u64 + 1) as usize;
            let k = rng.range(1, 20) as usize;
            let ins = rng.bytes(k);
            new.splice(at..at, ins);
        } else {
            let at = rng.below(new.len() as u64) as usize;
            new[at] ^= 0x55;
        }
    }
    let b = ZbsdiffBuilder::new(old, new);
    match rng.below(3) {
        0 => b.build_simple_patch().ok(),
        1 => b.build_chunked_patch().ok(),
        _ => b.build().ok(),
    }
}

fn gen_blte(rng: &mut Rng) -> Option<Vec<u8>> {
    let data = gens::payload(rng, 400);
    let mode = *rng.pick(&[CompressionMode::None, CompressionMode::ZLib, CompressionMode::LZ4]);
    let f = if rng.chance(1, 2) {
        BlteFile::compress(&data, *rng.pick(&[16usize, 64, 100, 1000]), mode).ok()?
    } else {
        let mut b = BlteBuilder::new().with_compression(mode).with_chunk_size(*rng.pick(&[16usize, 64, 1000])).ok()?;
        for _ in 0..rng.range(1, 3) {
            b = b.add_data(&gens::payload(rng, 200)).ok()?;
        }
        b.build().ok()?
    };
    CascFormat::build(&f).ok()
}

fn gen_encoding(rng: &mut Rng) -> Option<Vec<u8>> {
    // CKey and EKey page sizes differ in most programs (a rebuild that swaps them is visible)
    let (cps, eps) = *rng.pick(&[(1u16, 1u16), (1, 2), (2, 1), (4, 1), (1, 4), (2, 4)]);
    let mut b = EncodingBuilder::new().with_page_sizes(cps, eps);
    let n = rng.range(1, 60);
    let especs = ["n", "z", "b:{256K*=z}", "b:{164=z,16K*565=z,1656=z}"];
    for i in 0..n {
        let ek = EncodingKey::from_bytes(k16(rng));
        let mut eks = vec![ek];
        if rng.chance(1, 6) {
            eks.push(EncodingKey::from_bytes(k16(rng)));
        }
        let mut ck = k16(rng);
        ck[0] = (i * 4) as u8;
        b.add_ckey_entry(CKeyEntryData { content_key: ContentKey::from_bytes(ck), file_size: rng.next() % (1u64 << 40), encoding_keys: eks });
        let mut ekb = *ek.as_bytes();
        ekb[0] |= 1; // keep away from the all-zero padding sentinel (C03 finding)
        b.add_ekey_entry(EKeyEntryData { encoding_key: EncodingKey::from_bytes(ekb), espec: rng.pick(&especs).to_string(), file_size: rng.next() % (1u64 << 40) });
    }
    let f = b.build().ok()?;
    f.build().ok()
}

fn gen_agroup(rng: &mut Rng) -> Option<Vec<u8>> {
    let n = *rng.pick(&[1u64, 2, 50, 156, 157, 158, 314, 315]);
    let mut out = Vec::new();
    let mut b = ArchiveGroupBuilder::new();
    for i in 0..n {
        let mut k = k16(rng).to_vec();
        k[0] = (i % 250) as u8 + 1;
        b.add_entry(ArchiveGroupEntry::new(k, rng.below(500) as u16, rng.next() as u32, rng.next() as u32 | 1));
    }
    b.build(Cursor::new(&mut out)).ok()?;
    Some(out)
}

/// archive-index builder program: every record layout the parser accepts (key size 1..16, offset
/// width 4 / 5 / 6 bytes), entry counts around the page capacity of THAT layout, locations at the
/// boundaries of the offset width (a 5-byte offset above 4 GiB, a 6-byte location with a non-zero
/// archive index)
fn gen_aidx_program(rng: &mut Rng) -> (u8, u8, Vec<(Vec<u8>, u32, u64)>) {
    let ks = *rng.pick(&[16u8, 16, 16, 9, 9, 12, 4, 2]);
    let ob = *rng.pick(&[4u8, 5, 5, 6, 6]);
    let cap = 4096 / (ks as u64 + 4 + ob as u64);
    let n = match rng.below(9) {
        0 => 1,
        1 => 2,
        2 => 50,
        3 => cap - 1,
        4 => cap,
        5 => cap + 1,
        6 => 2 * cap,
        7 => 2 * cap + 1,
        _ => rng.range(3, 40),
    };
    let top: u64 = 1u64 << (8 * ob as u32);
    let mut ents = vec![];
    for i in 0..n {
        let mut k = rng.bytes(ks as usize);
        // distinct, non-zero keys: a counter in the leading bytes
        k[0] = ((i + 1) >> 8) as u8;
        k[1] = (i + 1) as u8;
        let off = match rng.below(8) {
            0 => 0,
            1 => top - 1,
            2 => top / 2,
            3 => 0xFFFF_FFFF,
            4 if ob > 4 => 0x1_0000_0000 + i * 4096,
            5 if ob > 4 => 0x1_0000_0000,
            _ => rng.next() % top,
        };
        ents.push((k, rng.next() as u32 | 1, off));
    }
    // insertion order: the builder sorts
    for i in (1..ents.len()).rev() {
        let j = rng.below(i as u64 + 1) as usize;
        ents.swap(i, j);
    }
    (ks, ob, ents)
}

const ROOT_VERSIONS: [RootVersion; 4] = [RootVersion::V1, RootVersion::V2, RootVersion::V3, RootVersion::V4];

/// root builder program. FileDataIDs: strictly increasing (the shape of CDN files), or with the
/// same ID added twice to one block (two content keys for one ID — the builder does not
/// de-duplicate), neighbours (delta 0), all equal, inserted in decreasing / random order, and the
/// ends of the u32 range; V1–V4, 1–3 blocks, named / unnamed.
fn gen_root_program(rng: &mut Rng) -> (RootVersion, Vec<RRec>) {
    let ver = *rng.pick(&ROOT_VERSIONS);
    let named = rng.chance(1, 2);
    let nblocks = rng.range(1, 3) as usize;
    let n = *rng.pick(&[1u64, 2, 3, 5, 15, 16, 17, 30, 99, 100, 101, 120]) as usize;
    let shape = rng.below(9);
    let mut fds: Vec<u32> = vec![];
    let mut fd = rng.below(1000) as u32;
    let edges = [0u32, 1, u32::MAX, u32::MAX - 1, 0x8000_0000, 0x7FFF_FFFF, 0xFFFF_FF00];
    for i in 0..n {
        match shape {
            0 | 1 => fd += rng.range(1, 5) as u32,           // strictly increasing
            2 => fd += rng.below(3) as u32,                  // repeats and neighbours
            3 => {}                                          // all equal
            4 => fd = 1000 + rng.below(n as u64 / 2 + 1) as u32, // random order, many repeats
            5 => fd = *rng.pick(&edges),                     // ends of the range, repeated
            6 => fd = 5000 - 3 * i as u32,                   // decreasing insertion order
            7 => {
                if i % 2 == 0 {
                    fd += rng.range(1, 200) as u32; // pairs: every ID twice
                }
            }
            _ => fd = if rng.chance(1, 3) { *rng.pick(&edges) } else { fd.wrapping_add(rng.below(4) as u32) },
        }
        fds.push(fd);
    }
    let locs = [LocaleFlags::ENUS, LocaleFlags::DEDE, LocaleFlags::ENUS | LocaleFlags::FRFR];
    let mut recs = vec![];
    for (i, fd) in fds.iter().enumerate() {
        // increasing shapes spread round-robin (as before); the others keep runs of equal / close
        // IDs together in one block
        let blk = if shape <= 1 { i % nblocks } else if shape == 7 { (i / 2) % nblocks } else { rng.below(nblocks as u64) as usize };
        let mut cf = [0u64, 0x8, 0x80][blk];
        if ver == RootVersion::V4 && blk == 1 {
            cf |= 1 << 33; // 40-bit content flags
        }
        let nh = if ver == RootVersion::V1 || named { Some(rng.next()) } else { None };
        if ver != RootVersion::V1 && !named {
            cf |= ContentFlags::NO_NAME_HASH;
        }
        recs.push((*fd, k16(rng), nh, locs[blk], cf));
    }
    (ver, recs)
}

/// hand-framed root file: `blocks` = (locale, content flags, [(delta, content key, name hash)]);
/// the FileDataID column is written as the DELTAS given (not derived from IDs)
fn frame_root(ver: RootVersion, blocks: &[(u32, u64, Vec<(u32, [u8; 16], u64)>)]) -> Vec<u8> {
    let named_block = |cf: u64| ver == RootVersion::V1 || cf & ContentFlags::NO_NAME_HASH == 0;
    let total: u32 = blocks.iter().map(|b| b.2.len() as u32).sum();
    let named: u32 = blocks.iter().filter(|b| named_block(b.1)).map(|b| b.2.len() as u32).sum();
    let mut d: Vec<u8> = vec![];
    match ver {
        RootVersion::V1 => {}
        RootVersion::V2 => {
            d.extend_from_slice(b"TSFM");
            d.extend_from_slice(&total.to_le_bytes());
            d.extend_from_slice(&named.to_le_bytes());
        }
        RootVersion::V3 | RootVersion::V4 => {
            d.extend_from_slice(b"TSFM");
            d.extend_from_slice(&20u32.to_le_bytes());
            d.extend_from_slice(&(if ver == RootVersion::V3 { 3u32 } else { 4 }).to_le_bytes());
            d.extend_from_slice(&total.to_le_bytes());
            d.extend_from_slice(&named.to_le_bytes());
        }
    }
    for (loc, cf, recs) in blocks {
        let n = recs.len() as u32;
        d.extend_from_slice(&n.to_le_bytes());
        match ver {
            RootVersion::V1 => {
                d.extend_from_slice(&(*cf as u32).to_le_bytes());
                d.extend_from_slice(&loc.to_le_bytes());
            }
            RootVersion::V2 | RootVersion::V3 => {
                d.extend_from_slice(&loc.to_le_bytes());
                d.extend_from_slice(&(*cf as u32).to_le_bytes());
                d.extend_from_slice(&[0u8; 5]);
            }
            RootVersion::V4 => {
                d.extend_from_slice(&loc.to_le_bytes());
                d.extend_from_slice(&(*cf as u32).to_le_bytes());
                d.push((*cf >> 32) as u8);
                d.extend_from_slice(&[0u8; 5]);
            }
        }
        for r in recs {
            d.extend_from_slice(&r.0.to_le_bytes());
        }
        if ver == RootVersion::V1 {
            for r in recs {
                d.extend_from_slice(&r.1);
                d.extend_from_slice(&r.2.to_le_bytes());
            }
        } else {
            for r in recs {
                d.extend_from_slice(&r.1);
            }
            if named_block(*cf) {
                for r in recs {
                    d.extend_from_slice(&r.2.to_le_bytes());
                }
            }
        }
    }
    d
}

fn gen_tvfs(rng: &mut Rng) -> Option<Vec<u8>> {
    let flags = *rng.pick(&[0u32, 1, 1, 3, 7, 5]);
    let mut b = TvfsBuilder::with_flags(flags);
    if flags & 2 != 0 {
        for s in ["n", "z", "b:{256K*=z}"] {
            b.add_est_spec(s.to_string());
        }
    }
    let n = rng.range(1, 16);
    let dirs = ["", "a", "a/b", "data", "data/x/y", "interface"];
    let mut seen = std::collections::BTreeSet::new();
    for i in 0..n {
        let d = rng.pick(&dirs);
        let leaf: String = (0..rng.range(1, 10)).map(|_| (b'a' + rng.below(26) as u8) as char).collect();
        let p = if d.is_empty() { format!("{leaf}{i}") } else { format!("{d}/{leaf}{i}") };
        if !seen.insert(p.clone()) {
            continue;
        }
        let mut ek = [0u8; 9];
        for x in &mut ek {
            *x = rng.byte();
        }
        let ck = if flags & 1 != 0 { Some(k16(rng)) } else { None };
        if flags & 2 != 0 {
            b.add_file_with_est(p, ek, rng.next() as u32, rng.next() as u32 >> 1, ck, rng.below(3) as u32);
        } else {
            b.add_file(p, ek, rng.next() as u32, rng.next() as u32 >> 1, ck);
        }
    }
    b.build().ok()
}

fn gen_parchive(rng: &mut Rng) -> Option<Vec<u8>> {
    let mut b = PatchArchiveBuilder::new();
    let n = rng.range(1, 12);
    for i in 0..n {
        let mut t = k16(rng);
        t[0] = (i * 16) as u8 + 1;
        let np = rng.range(1, 3);
        let patches = (0..np).map(|j| (k16(rng), rng.next() % (1u64 << 40), k16(rng), rng.next() as u32, j as u8)).collect();
        b.add_file_entry(t, rng.next() % (1u64 << 40), patches);
    }
    b.sort_entries();
    b.build().ok()
}

fn gen_pindex(rng: &mut Rng) -> Option<Vec<u8>> {
    let n = rng.range(0, 10);
    // key sizes above 16 only without entries (`entry.build` slices the 16-byte keys by key_size)
    let ks = if n == 0 && rng.chance(1, 3) { *rng.pick(&[17u8, 40, 255]) } else { *rng.pick(&[16u8, 16, 16, 9, 12, 1, 0]) };
    let mut b = PatchIndexBuilder::new().key_size(ks);
    for _ in 0..n {
        b.add_entry(PatchIndexEntry { source_ekey: k16(rng), source_size: rng.next() as u32, target_ekey: k16(rng), target_size: rng.next() as u32, encoded_size: rng.next() as u32, suffix_offset: rng.byte(), patch_ekey: k16(rng) });
    }
    b.build().ok()
}

fn hex32(rng: &mut Rng) -> String {
    hex::encode(k16(rng))
}

fn gen_text(rng: &mut Rng, fmt: &str) -> Option<Vec<u8>> {
    Some(match fmt {
        "buildcfg" => {
            let mut c = BuildConfig::new();
            c.set("root", vec![hex32(rng)]);
            c.set("encoding", vec![hex32(rng), hex32(rng)]);
            c.set("encoding-size", vec![rng.below(1 << 30).to_string(), rng.below(1 << 30).to_string()]);
            if rng.chance(1, 2) {
                c.set("build-name", vec![format!("WOW-{}patch1.{}", rng.below(99999), rng.below(20))]);
            }
            if rng.chance(1, 2) {
                c.set(format!("vfs-{}", rng.below(5)), vec![hex32(rng), hex32(rng)]);
            }
            if rng.chance(1, 3) {
                c.set(name(rng, 8).replace(['\\', '/', '.', ' ', 'é'], "x"), (0..rng.below(3)).map(|_| name(rng, 6).replace(' ', "_")).collect());
            }
            c.build()
        }
        "cdncfg" => {
            let mut c = CdnConfig::new();
            let n = rng.range(1, 4);
            c.set("archives", (0..n).map(|_| hex32(rng)).collect());
            c.set("archives-index-size", (0..n).map(|_| rng.below(1 << 20).to_string()).collect());
            c.set("archive-group", vec![hex32(rng)]);
            if rng.chance(1, 2) {
                c.set("file-index", vec![hex32(rng)]);
            }
            c.build()
        }
        "patchcfg" => {
            let mut c = PatchConfig::new();
            c.set_patch_hash(hex32(rng));
            c.set_patch_size(rng.below(1 << 30));
            if rng.chance(1, 2) {
                c.set_property("patch-extra", name(rng, 6).replace(' ', "_"));
            }
            for _ in 0..rng.below(3) {
                c.add_entry(PatchCfgEntry::new(rng.pick(&["encoding", "install", "download"]).to_string(), hex32(rng), rng.below(1 << 30), hex32(rng), rng.below(1 << 30)));
            }
            c.build()
        }
        "keyring" => {
            let mut c = KeyringConfig::new();
            for _ in 0..rng.below(4) {
                c.add_entry(hex::encode(rng.bytes(8)), hex32(rng));
            }
            c.build()
        }
        "productcfg" => {
            let maps = rng.chance(1, 2);
            let m = if maps { r#","opaque_product_specific":{"a":"1","b":"2","c":"3","d":"4","e":"5"},"replacement_locales":{"enGB":"enUS","esMX":"esES","ptPT":"ptBR"}"# } else { "" };
            format!(r#"{{"all":{{"config":{{"product":"p{}","data_dir":"Data/","supported_locales":["enUS","deDE"]{m}}}}},"enus":{{"config":{{"install":[{{"start_menu_shortcut":{{"args":"--x","link":"l","target":"t","working_dir":"w"}}}}]}}}}}}"#, rng.below(100)).into_bytes()
        }
        "bpsv" => {
            let mut b = BpsvBuilder::new();
            let nf = rng.range(1, 4) as usize;
            let tys: Vec<u8> = (0..nf).map(|_| rng.below(3) as u8).collect();
            for (i, t) in tys.iter().enumerate() {
                let ty = match t {
                    0 => BpsvType::String(0),
                    1 => BpsvType::Hex(16),
                    _ => BpsvType::Dec(4),
                };
                b.add_field(BpsvField::new(format!("F{i}"), ty));
            }
            if rng.chance(1, 2) {
                b.set_sequence(rng.next() as u32);
            }
            for _ in 0..rng.below(4) {
                let row = tys
                    .iter()
                    .map(|t| match (t, rng.below(5)) {
                        (_, 0) => BpsvValue::Empty,
                        (0, _) => BpsvValue::String(name(rng, 8)),
                        (1, _) => BpsvValue::Hex(k16(rng).to_vec()),
                        _ => BpsvValue::Dec(*rng.pick(&[0i64, -1, 1, i64::MAX, i64::MIN, 42])),
                    })
                    .collect();
                b.add_row(row).ok()?;
            }
            CascFormat::build(&b.build()).ok()?
        }
        "espec" => rng
            .pick(&[
                "n",
                "z",
                "z:9",
                "z:{9,15}",
                "z:{6,mpq}",
                "z:{,15}",
                "z:{,mpq}",
                "z:{,zlib,15}",
                "z:{9,lz4hc,8}",
                "b:{256K*=z}",
                "b:{164=z,16K*565=z,1656=z,*=n}",
                "b:{1M=e:{0123456789abcdef,01020304,z},*=n}",
                "e:{0123456789ABCDEF,01020304,n}",
                "b:{16K*=z:{6,mpq}}",
                "c:{3}",
                "c",
                "g",
                "g:{5}",
                "b:{22=n,31943=z,211232=n,27037696=n,138656=n,17747968=n,*=z}",
            ])
            .as_bytes()
            .to_vec(),
        _ => return None,
    })
}

fn gen_builder(rng: &mut Rng, fmt: &str) -> Option<Vec<u8>> {
    match fmt {
        "blte" => gen_blte(rng),
        "encoding" => gen_encoding(rng),
        "agroup" => gen_agroup(rng),
        "install" => gen_install(rng).map(|x| x.1),
        "download" => gen_download(rng).map(|x| x.1),
        "size" => gen_size(rng, false).and_then(|r| r.ok()).map(|x| x.1),
        "tvfs" => gen_tvfs(rng),
        "parchive" => gen_parchive(rng),
        "pindex" => gen_pindex(rng),
        "zbsdiff" => gen_zbs(rng),
        _ => gen_text(rng, fmt),
    }
}

fn is_text(fmt: &str) -> bool {
    matches!(fmt, "buildcfg" | "cdncfg" | "patchcfg" | "productcfg" | "keyring" | "bpsv" | "espec")
}

/// counts in the fixed headers of the three manifest formats: a mutated count near 2^32 makes
/// the parsers reserve gigabytes before reading (property C02's ground), so such mutants are skipped
fn absurd_count(fmt: &str, b: &[u8]) -> bool {
    let lim = 200_000;
    match fmt {
        "install" => be32(b, 6) > lim,
        "download" => be32(b, 5) > lim,
        "size" => be32(b, 4) > lim,
        _ => false,
    }
}

// ---------------------------------------------------------------------------------------------

fn main() {
    quiet_panics();
    let args = Args::parse();
    let mut cx = Ctx { s: Session::new(&args.out), fixtures: load_fixtures() };
    cx.s.rule = "inputs: (a) every CDN fixture of crates/cascette-formats/test_fixtures unmutated (byte-identity test) and under 1-3 random mutations aimed at header fields, counts, sizes, footers, truncation, trailing bytes, small inserts/deletes (text formats: white space, separators, comments, CR/LF, non-ASCII); (b) outputs of every format's builder on random programs, unmutated (builder-form claim) and mutated; (c) hand-framed size/download/install/ZBSDIFF headers over every version, key size, esize width, has_checksum byte 0/1/2/255, flag size 0-5, reserved bytes, sizes at 0/2^31/10^9+-1; hand-framed patch indices over every extra-header shape (absent, key size 0..16, > 16, with extra data, overrunning), block-type sequences (1/2/8/unknown, 2 before/after 8, repeated), header_size before / at / after the end of the descriptors, block-8 data offsets 0/8/14/20/300, key sizes 0..200 with and without entries, wrong counts / sizes / data_size, each also with 1-3 mutations and data_size repaired; (d) component lines for TVFS: VfsTable::parse on random entry sequences under cft_table_size at every offset-width boundary (tables written for the header's width or for another one), ContainerFileTable::parse+build on random lengths with and without slack; (e) root builder programs V1-V4 (`rp`): 1-3 blocks, named / unnamed, FileDataIDs strictly increasing, or the same ID added twice to one block / all equal / neighbours / pairs / decreasing or random insertion order / both ends of the u32 range, and hand-framed root files V1-V4 whose FileDataID column is given as deltas (0xFFFFFFFF = same ID again, 0xFFFFFFFE.. = decreasing, 0, wrap past u32::MAX), 1-3 blocks of which two often share (locale, content) flags (merged on rebuild), each also mutated — all through the root model as well; (f) archive-index builder programs (`ap`) on every record layout (key size 2/4/9/12/16 x offset width 4/5/6), entry counts around the page capacity of that layout, locations at the ends of the offset width (5-byte offsets above 4 GiB, 6-byte archive:offset), taken through build -> parse -> from_archive_index -> build -> parse; archive-group builder outputs also as archive indices; encoding builder programs with unequal CKey/EKey page sizes; (g) builder-as-mutator: EVERY accepted input of archive index / root / install / download / encoding that reached the fixed point is loaded into the builder by its from_* constructor, built, serialised and parsed back (same logical content), archive index and root additionally with one entry added (location at the top of the offset width; FileDataID repeating / next to one of the block or at an end of the range) and removed again. Each whole-file input runs parse->build->parse->build on the real code. non-trivial = the first parse ACCEPTED the input (so the fixed-point claim was actually evaluated); distinct = (format, input hash)".into();
    if let Some(p) = &args.replay {
        for l in read_case(p) {
            cx.run_req(&l);
        }
        cx.s.finish();
        return;
    }
    let mut rng = Rng::new(args.seed);
    let th = args.thorough();

    // (0) the smallest members of the builder-program families first, so that a failure there is
    // reported on a three-record input rather than on a CDN fixture: every root version with one
    // FileDataID listed twice in a block, every archive-index offset width with a location above
    // the 4-byte range (6-byte: non-zero archive index)
    for ver in ROOT_VERSIONS {
        let cf = if ver == RootVersion::V1 { 0 } else { ContentFlags::NO_NAME_HASH };
        let nh = |h: u64| if ver == RootVersion::V1 { Some(h) } else { None };
        let recs: Vec<RRec> = vec![(250, [3; 16], nh(7), LocaleFlags::ENUS, cf), (100, [1; 16], nh(5), LocaleFlags::ENUS, cf), (100, [2; 16], nh(6), LocaleFlags::ENUS, cf)];
        let req = format!("rp {} {}", ver_num(ver), rrecs_text(&recs));
        let (r, b) = cx.rp_resp(ver, &recs, &req);
        cx.s.line(&req, &r);
        if let Some(b) = b {
            cx.m_line("root", &b);
        }
    }
    for (ks, ob) in [(16u8, 4u8), (16, 5), (16, 6), (9, 5), (9, 6)] {
        let top = 1u64 << (8 * ob as u32);
        let ents: Vec<(Vec<u8>, u32, u64)> = (0..3u64).map(|i| (vec![0x30 - 0x10 * i as u8; ks as usize], 1000 + i as u32, top / 2 + 4096 * i)).collect();
        let req = format!("ap {ks} {ob} {}", aents_text(&ents));
        let (r, b) = cx.ap_resp(ks, ob, &ents, &req);
        cx.s.line(&req, &r);
        if let Some(b) = b {
            cx.o_inline("aidx", &b);
        }
    }

    // (a) fixtures unmutated: the byte-identity test
    for i in 0..cx.fixtures.len() {
        cx.o_fixture(i, &[]);
    }
    // modelled formats: fixtures through the model as well
    for i in 0..cx.fixtures.len() {
        let (fmt, _, b) = cx.fixtures[i].clone();
        let m = match fmt.as_str() {
            "install" => "inst",
            "download" => "dl",
            "zbsdiff" => "zbs",
            "pindex" => "pidx",
            _ => continue,
        };
        cx.m_line(m, &b);
        let n = if th { 60 } else { 12 };
        for _ in 0..n {
            let ms = gen_muts(&mut rng, b.len(), false);
            let x = apply_muts(&b, &ms);
            if absurd_count(&fmt, &x) {
                cx.s.tally("skipped:absurd-count");
                continue;
            }
            cx.m_line(m, &x);
        }
    }
    // (a') fixtures mutated, oracle-only formats
    let per_fixture = if th { 150 } else { 25 };
    for i in 0..cx.fixtures.len() {
        let (fmt, _, b) = cx.fixtures[i].clone();
        if matches!(fmt.as_str(), "install" | "download" | "zbsdiff" | "pindex") {
            continue;
        }
        // big binary fixtures cost a few ms per round trip
        let k = if b.len() > 100_000 { per_fixture / 3 } else { per_fixture };
        for _ in 0..k {
            let ms = gen_muts(&mut rng, b.len(), is_text(&fmt));
            cx.o_fixture(i, &ms);
        }
    }

    // (a'') ESpec strings taken from real encoding files (fixture JSON): identity + mutation
    for f in ["espec/representative_especs.json", "espec/wow_classic_era_especs.json"] {
        let Ok(txt) = std::fs::read_to_string(format!("{FIX}/{f}")) else { continue };
        let Ok(v) = serde_json::from_str::<serde_json::Value>(&txt) else { continue };
        let mut specs: Vec<String> = vec![];
        fn walk(v: &serde_json::Value, out: &mut Vec<String>) {
            match v {
                serde_json::Value::Array(a) => a.iter().for_each(|x| walk(x, out)),
                serde_json::Value::Object(o) => o.iter().for_each(|(k, x)| {
                    if k.contains("espec") || x.is_array() || x.is_object() {
                        walk(x, out)
                    }
                }),
                serde_json::Value::String(s) => out.push(s.clone()),
                _ => {}
            }
        }
        if let Some(e) = v.get("especs") {
            walk(e, &mut specs);
        }
        for sp in specs.iter().take(if th { 400 } else { 80 }) {
            let b = sp.as_bytes();
            let req = format!("o espec {}", hex(b));
            if let Some(out) = cx.oracle("espec", b, req.clone(), false) {
                cx.s.line(&req, "-");
                cx.count("espec", b, &out);
                if out.stage == Stage::Ok && out.rebuilt.as_deref() != Some(b) {
                    cx.s.oracle_fail("espec-cdn-string-not-byte-identical", &format!("real ESpec string {sp:?} is printed back as {:?}", String::from_utf8_lossy(out.rebuilt.as_deref().unwrap_or(&[]))), &[req.clone()]);
                    cx.s.tally("espec:cdn-string-differs");
                } else if out.stage == Stage::Ok {
                    cx.s.tally("espec:cdn-string-byte-identical(test)");
                }
            }
            let ms = gen_muts(&mut rng, b.len(), true);
            let x = apply_muts(b, &ms);
            cx.o_inline("espec", &x);
        }
    }

    // (b) builder programs
    let rounds = if th { 400 } else { 60 };
    for fmt in FORMATS {
        for _ in 0..rounds {
            // root / archive index: the PROGRAM is a request line of its own (`rp` / `ap`)
            let generated = match *fmt {
                "root" => {
                    let (ver, recs) = gen_root_program(&mut rng);
                    let req = format!("rp {} {}", ver_num(ver), rrecs_text(&recs));
                    let (r, b) = cx.rp_resp(ver, &recs, &req);
                    cx.s.line(&req, &r);
                    b
                }
                "aidx" => {
                    let (ks, ob, ents) = gen_aidx_program(&mut rng);
                    let req = format!("ap {ks} {ob} {}", aents_text(&ents));
                    let (r, b) = cx.ap_resp(ks, ob, &ents, &req);
                    cx.s.line(&req, &r);
                    b
                }
                _ => gen_builder(&mut rng, fmt),
            };
            let Some(bytes) = generated else {
                cx.s.tally(&format!("{fmt}:builder-refused"));
                continue;
            };
            let modelled = match *fmt {
                "root" => Some("root"),
                "install" => Some("inst"),
                "download" => Some("dl"),
                "size" => Some("size"),
                "zbsdiff" => Some("zbs"),
                "pindex" => Some("pidx"),
                _ => None,
            };
            // builder-form claim: the builder's output must be accepted and be a fixed point
            let accepted = match modelled {
                Some(m) => {
                    cx.m_line(m, &bytes);
                    run_fmt(fmt, &bytes).is_some_and(|o| o.stage != Stage::Rejected && o.stage != Stage::ParsePanic)
                }
                None => {
                    cx.o_inline(fmt, &bytes);
                    run_fmt(fmt, &bytes).is_some_and(|o| o.stage != Stage::Rejected && o.stage != Stage::ParsePanic)
                }
            };
            if !accepted {
                let req = format!("o {fmt} {}", hex(&bytes));
                let sh = shape(fmt, "builder-output-rejected", &bytes, &Out { stage: Stage::Rejected, detail: String::new(), rebuilt: None, logical: None, field: None });
                cx.s.oracle_fail(&sh, &format!("{fmt}: the builder's own output ({} bytes) is not accepted by the parser", bytes.len()), &[req]);
                cx.s.tally(&format!("{fmt}:builder-output-rejected"));
            }
            // an archive group file is an archive index with 6-byte locations: the index parser,
            // its rebuild and from_archive_index on that layout
            if *fmt == "agroup" {
                cx.o_inline("aidx", &bytes);
            }
            // TVFS: a CFT size just above 255 with slack, so that the rebuilt (slack-free) table
            // drops to a one-byte offset width while the VFS table bytes are kept as they were
            if *fmt == "tvfs" && (258..0x200).contains(&be32(&bytes, 32)) {
                let x = apply_muts(&bytes, &[Mut::Set(34, 0x01), Mut::Set(35, 0x02)]);
                cx.o_inline(fmt, &x);
                cx.s.tally("tvfs:cft-slack-at-width-boundary");
            }
            for _ in 0..(if th { 6 } else { 3 }) {
                let ms = gen_muts(&mut rng, bytes.len(), is_text(fmt));
                let x = apply_muts(&bytes, &ms);
                if absurd_count(fmt, &x) {
                    cx.s.tally("skipped:absurd-count");
                    continue;
                }
                match modelled {
                    Some(m) => cx.m_line(m, &x),
                    None => {
                        cx.o_inline(fmt, &x);
                    }
                }
            }
        }
    }
    // builder value vs parsed value (install / download / size have PartialEq)
    for _ in 0..rounds {
        if let Some((m, bytes)) = gen_install(&mut rng) {
            if InstallManifest::parse(&bytes).ok().as_ref() != Some(&m) {
                cx.s.oracle_fail("install-builder-value-differs", "parse(serialise(builder value)) != builder value", &[format!("m inst {}", hex(&bytes))]);
            }
            cx.s.tally("install:builder-value-eq");
        }
        if let Some((m, bytes)) = gen_download(&mut rng) {
            if DownloadManifest::parse(&bytes).ok().as_ref() != Some(&m) {
                cx.s.oracle_fail("download-builder-value-differs", "parse(serialise(builder value)) != builder value", &[format!("m dl {}", hex(&bytes))]);
            }
            cx.s.tally("download:builder-value-eq");
        }
        for overwide in [false, true] {
            match gen_size(&mut rng, overwide) {
                Some(Ok((m, bytes))) => {
                    let p = SizeManifest::parse(&bytes);
                    if p.as_ref().ok() != Some(&m) {
                        let sig = if overwide { "size-builder-value-overwide-esize-truncated" } else { "size-builder-value-differs" };
                        cx.s.oracle_fail(sig, &format!("SizeManifestBuilder value serialises to bytes that parse to {}", if p.is_ok() { "another value" } else { "an error" }), &[format!("m size {}", hex(&bytes))]);
                        cx.m_line("size", &bytes);
                    }
                    cx.s.tally(if overwide { "size:builder-overwide-built" } else { "size:builder-value-eq" });
                }
                Some(Err(_)) => cx.s.tally("size:builder-serialise-refused"),
                None => cx.s.tally("size:builder-refused"),
            }
        }
    }
    // from_* constructors (builder-as-mutator): parsed fixture -> builder -> same content
    for i in 0..cx.fixtures.len() {
        let (fmt, rel, b) = cx.fixtures[i].clone();
        match fmt.as_str() {
            "install" => {
                if let Ok(m) = InstallManifest::parse(&b) {
                    let ok = InstallManifestBuilder::from_manifest(&m).build().ok().as_ref() == Some(&m);
                    cx.s.tally(if ok { "install:from_manifest-eq" } else { "install:from_manifest-differs" });
                    if !ok {
                        cx.s.oracle_fail("install-from-manifest-differs", "InstallManifestBuilder::from_manifest(m).build() != m", &[format!("of install {rel} -")]);
                    }
                }
            }
            "download" => {
                if let Ok(m) = DownloadManifest::parse(&b) {
                    let ok = DownloadManifestBuilder::from_manifest(&m).build().ok().as_ref() == Some(&m);
                    cx.s.tally(if ok { "download:from_manifest-eq" } else { "download:from_manifest-differs" });
                    if !ok {
                        cx.s.oracle_fail("download-from-manifest-differs", "DownloadManifestBuilder::from_manifest(m).build() != m", &[format!("of download {rel} -")]);
                    }
                }
            }
            "root" => {
                if let Ok(r) = RootFile::parse(&b) {
                    let l1 = root_logical(&r);
                    let ok = RootBuilder::from_root_file(&r).build().ok().and_then(|x| RootFile::parse(&x).ok()).map(|r2| root_logical(&r2)) == Some(l1);
                    cx.s.tally(if ok { "root:from_root_file-eq" } else { "root:from_root_file-differs" });
                    if !ok {
                        cx.s.oracle_fail("root-from-root-file-differs", "RootBuilder::from_root_file(r).build() parses to other records", &[format!("of root {rel} -")]);
                    }
                }
            }
            "encoding" => {
                if let Ok(e) = EncodingFile::parse(&b) {
                    let ok = EncodingBuilder::from_encoding_file(&e).build().ok().map(|e2| (e2.ckey_count(), e2.ekey_count())) == Some((e.ckey_count(), e.ekey_count()));
                    cx.s.tally(if ok { "encoding:from_encoding_file-counts-eq" } else { "encoding:from_encoding_file-differs" });
                    if !ok {
                        cx.s.oracle_fail("encoding-from-encoding-file-differs", "EncodingBuilder::from_encoding_file(e).build() has other entry counts", &[format!("of encoding {rel} -")]);
                    }
                }
            }
            _ => {}
        }
    }

    // (c) hand-framed headers for the modelled formats
    framed(&mut cx, &mut rng, th);
    framed_root(&mut cx, &mut rng, th);
    framed_pindex(&mut cx, &mut rng, th);
    framed_tvfs_tables(&mut cx, &mut rng, th);
    cx.s.finish();
}

fn tag_bytes(name: &[u8], ty: u16, mask: &[u8]) -> Vec<u8> {
    let mut v = name.to_vec();
    v.push(0);
    v.extend_from_slice(&ty.to_be_bytes());
    v.extend_from_slice(mask);
    v
}

fn framed(cx: &mut Ctx, rng: &mut Rng, th: bool) {
    let rounds = if th { 40 } else { 8 };
    // ---- size manifests: every version x key size x esize width, tags, totals right and wrong
    for ver in [0u8, 1, 2, 3] {
        for ks in [0u8, 1, 9, 16, 17] {
            for w in [0u8, 1, 2, 3, 4, 5, 7, 8, 9] {
                if ver == 2 && w != 4 {
                    continue;
                }
                for _ in 0..(if th { 3 } else { 1 }) {
                    let n = *rng.pick(&[0u32, 1, 2, 8, 9]);
                    let nt = rng.below(3) as u16;
                    let mut ents = vec![];
                    let mut total: u64 = 0;
                    for _ in 0..n {
                        let e = if w >= 8 || w == 0 { rng.next() >> rng.below(64) } else { rng.next() % (1u64 << (8 * w as u32)) };
                        let e = match rng.below(5) {
                            0 => 0,
                            1 if w >= 8 => u64::MAX,
                            _ => e,
                        };
                        total = total.wrapping_add(e);
                        ents.push((rng.bytes(ks as usize), e));
                    }
                    if rng.chance(1, 8) {
                        total = total.wrapping_add(1);
                    }
                    let mut d = vec![b'D', b'S', ver, ks];
                    d.extend_from_slice(&n.to_be_bytes());
                    d.extend_from_slice(&nt.to_be_bytes());
                    if ver == 2 {
                        d.extend_from_slice(&total.to_be_bytes()[3..]);
                    } else {
                        d.extend_from_slice(&total.to_be_bytes());
                        d.push(w);
                    }
                    for t in 0..nt {
                        let nm: &[u8] = if rng.chance(1, 10) { b"\xff\xfe" } else if rng.chance(1, 6) { "é".as_bytes() } else { b"tag" };
                        let mut nm = nm.to_vec();
                        nm.push(b'0' + t as u8);
                        d.extend(tag_bytes(&nm, *rng.pick(&[1u16, 2, 3, 0x10, 0x8000, 6, 0]), &rng.bytes((n as usize).div_ceil(8))));
                    }
                    for (k, e) in &ents {
                        d.extend_from_slice(k);
                        let eb = e.to_be_bytes();
                        let w = if ver == 2 { 4 } else { w.min(8) } as usize;
                        d.extend_from_slice(&eb[8 - w..]);
                    }
                    if rng.chance(1, 6) {
                        d.extend(rng.bytes(3));
                    }
                    cx.m_line("size", &d);
                    for _ in 0..2 {
                        let ms = gen_muts(rng, d.len(), false);
                        let x = apply_muts(&d, &ms);
                        if !absurd_count("size", &x) {
                            cx.m_line("size", &x);
                        }
                    }
                }
            }
        }
    }
    // ---- download headers: version 0..4, has_checksum byte, flag size, base priority, reserved
    for ver in [0u8, 1, 2, 3, 4] {
        for hc in [0u8, 1, 2, 255] {
            for fs in [0u8, 1, 4, 5] {
                for _ in 0..rounds.min(3) {
                    let n = *rng.pick(&[0u32, 1, 2, 8, 9]);
                    let nt = rng.below(3) as u16;
                    let mut d = vec![b'D', b'L', ver, if rng.chance(1, 12) { 9 } else { 16 }, hc];
                    d.extend_from_slice(&n.to_be_bytes());
                    d.extend_from_slice(&nt.to_be_bytes());
                    if ver >= 2 {
                        d.push(fs);
                    }
                    if ver >= 3 {
                        d.push(rng.byte());
                        d.extend(if rng.chance(1, 2) { vec![0, 0, 0] } else { rng.bytes(3) });
                    }
                    let efs = if ver >= 2 { fs as usize } else { 0 };
                    for _ in 0..n {
                        d.extend(rng.bytes(16));
                        d.extend(rng.bytes(5));
                        d.push(rng.byte());
                        if hc != 0 {
                            d.extend(rng.bytes(4));
                        }
                        d.extend(rng.bytes(efs));
                    }
                    for t in 0..nt {
                        let nm: Vec<u8> = if rng.chance(1, 10) { vec![0xC3, 0x28, b'0' + t as u8] } else { vec![b'T', b'0' + t as u8] };
                        d.extend(tag_bytes(&nm, *rng.pick(&[1u16, 2, 3, 0x4000, 7]), &rng.bytes((n as usize).div_ceil(8))));
                    }
                    if rng.chance(1, 6) {
                        d.extend(rng.bytes(2));
                    }
                    cx.m_line("dl", &d);
                    let ms = gen_muts(rng, d.len(), false);
                    let x = apply_muts(&d, &ms);
                    if !absurd_count("download", &x) {
                        cx.m_line("dl", &x);
                    }
                }
            }
        }
    }
    // ---- install headers: version 0..3 (V2 extension), ckey length, utf-8 in names/paths
    for ver in [0u8, 1, 2, 3] {
        for _ in 0..rounds * 2 {
            let n = *rng.pick(&[0u32, 1, 2, 8, 9]);
            let nt = rng.below(3) as u16;
            let mut d = vec![b'I', b'N', ver, if rng.chance(1, 12) { 15 } else { 16 }];
            d.extend_from_slice(&nt.to_be_bytes());
            d.extend_from_slice(&n.to_be_bytes());
            if ver >= 2 {
                d.push(rng.byte());
                d.extend(rng.bytes(4));
                d.push(if rng.chance(1, 2) { 0 } else { rng.byte() });
            }
            for t in 0..nt {
                let nm: Vec<u8> = match rng.below(8) {
                    0 => vec![0xE2, 0x82, 0xAC, b'0' + t as u8],
                    1 => vec![0xE2, 0x82, b'0' + t as u8],
                    2 => vec![0xF0, 0x9F, 0x98, 0x80],
                    3 => vec![0xED, 0xA0, 0x80],
                    4 => vec![],
                    _ => vec![b'T', b'0' + t as u8],
                };
                d.extend(tag_bytes(&nm, *rng.pick(&[1u16, 2, 3, 0x4000, 7]), &rng.bytes((n as usize).div_ceil(8))));
            }
            for i in 0..n {
                let p: Vec<u8> = match rng.below(8) {
                    0 => vec![0xC0, 0x80],
                    1 => vec![0xF4, 0x90, 0x80, 0x80],
                    2 => "ü/x".as_bytes().to_vec(),
                    _ => format!("dir\\f{i}.txt").into_bytes(),
                };
                d.extend(p);
                d.push(0);
                d.extend(rng.bytes(16));
                d.extend(rng.bytes(4));
                if ver >= 2 {
                    d.push(rng.byte());
                }
            }
            if rng.chance(1, 6) {
                d.extend(rng.bytes(2));
            }
            cx.m_line("inst", &d);
            let ms = gen_muts(rng, d.len(), false);
            let x = apply_muts(&d, &ms);
            if !absurd_count("install", &x) {
                cx.m_line("inst", &x);
            }
        }
    }
    // ---- ZBSDIFF container: sizes at the guards
    let sizes: &[i64] = &[0, 1, 5, 31, -1, i64::MIN, 1_000_000_000, 1_000_000_001, 999_999_999, 500_000_000, 500_000_001, i64::MAX];
    for &c in sizes {
        for &dsz in sizes {
            for &o in &[0i64, 7, -1, 1_000_000_000, 1_000_000_001] {
                let mut d = b"ZBSDIFF1".to_vec();
                d.extend_from_slice(&c.to_le_bytes());
                d.extend_from_slice(&dsz.to_le_bytes());
                d.extend_from_slice(&o.to_le_bytes());
                let body = if (0..=64).contains(&c) && (0..=64).contains(&dsz) { (c + dsz) as usize + rng.below(4) as usize } else { rng.below(8) as usize };
                d.extend(rng.bytes(body));
                // a well-formed header with sizes near 10^9 would make the parser allocate the
                // declared size before reading; keep those to the rejected side of the guard
                if (c > 64 && c <= 1_000_000_000 && dsz >= 0 && c + dsz <= 1_000_000_000 && o >= 0 && o <= 1_000_000_000) || (dsz > 64 && dsz <= 1_000_000_000 && c >= 0 && c + dsz <= 1_000_000_000 && o >= 0 && o <= 1_000_000_000) {
                    cx.s.tally("skipped:zbs-huge-accepted-size");
                    continue;
                }
                cx.m_line("zbs", &d);
            }
        }
    }
    for _ in 0..rounds * 4 {
        let c = rng.below(6) as i64;
        let dsz = rng.below(6) as i64;
        let mut d = if rng.chance(1, 10) { b"ZBSDIFF2".to_vec() } else { b"ZBSDIFF1".to_vec() };
        d.extend_from_slice(&c.to_le_bytes());
        d.extend_from_slice(&dsz.to_le_bytes());
        d.extend_from_slice(&(rng.below(100) as i64).to_le_bytes());
        let n = (c + dsz) as usize + rng.below(5) as usize;
        d.extend(rng.bytes(n));
        if rng.chance(1, 4) {
            let l = d.len();
            d.truncate(l - rng.below(6.min(l as u64)) as usize);
        }
        cx.m_line("zbs", &d);
    }
}

// ---- root V1–V4: blocks whose FileDataID column is given as DELTAS — 0xFFFFFFFF (the same ID
// again), 0xFFFFFFFE… (decreasing IDs), 0 (neighbours), wrap-around past u32::MAX — and files
// with two blocks of equal (locale, content) flags, which the rebuild merges into one block
fn framed_root(cx: &mut Ctx, rng: &mut Rng, th: bool) {
    let rounds = if th { 900 } else { 160 };
    let tail: &[u32] = &[0, 0, 1, 2, 7, 0xFFFF_FFFF, 0xFFFF_FFFF, 0xFFFF_FFFF, 0xFFFF_FFFE, 0xFFFF_FFF0, 0x8000_0000, 0x7FFF_FFFF];
    let first: &[u32] = &[0, 7, 7, 1000, u32::MAX, u32::MAX - 1, 0x8000_0000];
    let flag_pairs: &[(u32, u64)] = &[(LocaleFlags::ENUS, 0), (LocaleFlags::ENUS, 0), (LocaleFlags::DEDE, 0x8), (LocaleFlags::ENUS | LocaleFlags::FRFR, 0x80)];
    for _ in 0..rounds {
        let ver = *rng.pick(&ROOT_VERSIONS);
        let named = rng.chance(1, 2);
        let nb = rng.range(1, 3) as usize;
        let mut blocks = vec![];
        for _ in 0..nb {
            let (loc, mut cf) = *rng.pick(flag_pairs);
            if ver != RootVersion::V1 && !named {
                cf |= ContentFlags::NO_NAME_HASH;
            }
            if ver == RootVersion::V4 && rng.chance(1, 4) {
                cf |= 1 << 33;
            }
            let n = *rng.pick(&[1usize, 2, 3, 3, 5, 8]);
            let recs: Vec<(u32, [u8; 16], u64)> = (0..n)
                .map(|i| {
                    let d = if i == 0 {
                        if rng.chance(1, 5) { rng.next() as u32 } else { *rng.pick(first) }
                    } else if rng.chance(1, 8) {
                        rng.next() as u32
                    } else {
                        *rng.pick(tail)
                    };
                    (d, k16(rng), rng.next())
                })
                .collect();
            blocks.push((loc, cf, recs));
        }
        let kind = if blocks.iter().any(|b| b.2.iter().skip(1).any(|r| r.0 == 0xFFFF_FFFF)) {
            "same-id-again"
        } else if blocks.iter().any(|b| b.2.iter().skip(1).any(|r| r.0 >= 0x8000_0000)) {
            "decreasing-ids"
        } else {
            "increasing-ids"
        };
        let shared = (0..nb).any(|i| (0..i).any(|j| blocks[i].0 == blocks[j].0 && blocks[i].1 == blocks[j].1));
        cx.s.tally(&format!("root:framed:{ver:?}:{kind}{}", if shared { ":two-blocks-same-flags" } else { "" }));
        let d = frame_root(ver, &blocks);
        cx.m_line("root", &d);
        let ms = gen_muts(rng, d.len(), false);
        cx.m_line("root", &apply_muts(&d, &ms));
    }
}

// ---- patch index: every header / block-table shape the parser distinguishes
fn framed_pindex(cx: &mut Ctx, rng: &mut Rng, th: bool) {
    let rounds = if th { 900 } else { 160 };
    for _ in 0..rounds {
        // extra header
        let mut extra: Vec<u8> = vec![];
        let xl: u16 = match rng.below(7) {
            0 => 0,
            1 => {
                extra.push(0);
                1
            }
            2 => {
                let ks = rng.range(1, 17) as u8;
                extra.push(ks);
                extra.extend(rng.bytes(ks as usize));
                if rng.chance(1, 4) { 1 } else { 1 + ks as u16 }
            }
            3 => {
                let ks = rng.range(17, 40) as u8;
                extra.push(ks);
                extra.extend(rng.bytes(ks as usize));
                let m = rng.below(4) as usize;
                extra.extend(rng.bytes(m));
                1 + ks as u16 + m as u16
            }
            4 => {
                let ks = rng.below(17) as u8;
                extra.push(ks);
                extra.extend(rng.bytes(ks as usize));
                let m = rng.range(1, 9) as usize;
                extra.extend(rng.bytes(m));
                1 + ks as u16 + m as u16
            }
            5 => {
                // key size byte promises more than the input holds
                extra.push(*rng.pick(&[30u8, 200, 255]));
                extra.extend(rng.bytes(3));
                rng.range(1, 300) as u16
            }
            _ => {
                extra.push(0);
                rng.range(2, 6) as u16 // extra data taken from what follows
            }
        };
        // blocks
        let nb = rng.below(5) as usize;
        let mut descs: Vec<(u32, u32)> = vec![];
        let mut body: Vec<u8> = vec![];
        for _ in 0..nb {
            let ty = *rng.pick(&[1u32, 2, 2, 8, 8, 5, 0, 6]);
            let mut bd: Vec<u8> = vec![];
            match ty {
                2 => {
                    let ks = *rng.pick(&[16u8, 16, 9, 1, 0, 17, 200]);
                    let n = if ks > 16 { rng.below(2) as u32 } else { rng.below(4) as u32 };
                    let declared = if rng.chance(1, 10) { n + 1 } else { n };
                    bd.extend_from_slice(&declared.to_le_bytes());
                    bd.push(ks);
                    for _ in 0..n {
                        bd.extend(rng.bytes(3 * ks as usize + 13));
                    }
                    if rng.chance(1, 5) {
                        let k = rng.range(1, 6) as usize;
                        bd.extend(rng.bytes(k));
                    }
                    if rng.chance(1, 12) {
                        bd.truncate(rng.below(5) as usize);
                    }
                }
                8 => {
                    let ks = *rng.pick(&[16u8, 16, 9, 0, 17]);
                    let n = if ks > 16 { rng.below(2) as u32 } else { rng.below(4) as u32 };
                    let doff = *rng.pick(&[14u16, 14, 14, 0, 8, 20, 300]);
                    bd.push(*rng.pick(&[3u8, 3, 3, 3, 2]));
                    bd.push(ks);
                    bd.extend_from_slice(&doff.to_le_bytes());
                    bd.extend_from_slice(&n.to_le_bytes());
                    bd.extend(rng.bytes(6));
                    if doff > 14 && doff < 100 {
                        bd.extend(rng.bytes(doff as usize - 14));
                    }
                    for _ in 0..n {
                        bd.extend(rng.bytes(3 * ks as usize + 13));
                    }
                    if rng.chance(1, 12) {
                        bd.truncate(rng.below(14) as usize);
                    }
                }
                _ => {
                    let k = rng.below(10) as usize;
                    bd.extend(rng.bytes(k));
                }
            }
            descs.push((ty, bd.len() as u32));
            body.extend(bd);
        }
        let natural = 14 + extra.len() + 4 + 8 * nb;
        let (hs, gap) = match rng.below(8) {
            0 => (natural + 3, 3usize),                  // unused bytes between descriptors and blocks
            1 if natural > 20 => (natural - 5, 0usize), // block data overlaps the descriptors
            2 => (natural + 1000, 0usize),              // header_size beyond the input
            _ => (natural, 0usize),
        };
        let total = natural + gap + body.len();
        let ds = if rng.chance(1, 10) { total as u32 + 1 } else { total as u32 };
        let mut d: Vec<u8> = vec![];
        d.extend_from_slice(&(hs as u32).to_le_bytes());
        d.extend_from_slice(&(if rng.chance(1, 14) { 2u32 } else { 1u32 }).to_le_bytes());
        d.extend_from_slice(&ds.to_le_bytes());
        d.extend_from_slice(&xl.to_le_bytes());
        d.extend(&extra);
        d.extend_from_slice(&((if rng.chance(1, 14) { nb + 1 } else { nb }) as u32).to_le_bytes());
        for (t, sz) in &descs {
            d.extend_from_slice(&t.to_le_bytes());
            d.extend_from_slice(&(if rng.chance(1, 25) { sz + 1 } else { *sz }).to_le_bytes());
        }
        d.extend(rng.bytes(gap));
        d.extend(&body);
        cx.m_line("pidx", &d);
        // a mutant with the data_size repaired, so that the mutation reaches the block parsers
        let ms = gen_muts(rng, d.len(), false);
        let mut x = apply_muts(&d, &ms);
        if x.len() >= 12 && rng.chance(3, 4) {
            let l = (x.len() as u32).to_le_bytes();
            x[8..12].copy_from_slice(&l);
        }
        cx.m_line("pidx", &x);
    }
}

// ---- TVFS: the VFS-table reader under every offset width, and the container-table slack
fn framed_tvfs_tables(cx: &mut Ctx, rng: &mut Rng, th: bool) {
    let rounds = if th { 1500 } else { 250 };
    let sizes: &[u32] = &[0, 13, 247, 255, 256, 258, 65535, 65536, 0x00FF_FFFF, 0x0100_0000, u32::MAX];
    for _ in 0..rounds {
        let cft = *rng.pick(sizes);
        let w_of = |c: u32| if c > 0x00FF_FFFF { 4usize } else if c > 0xFFFF { 3 } else if c > 0xFF { 2 } else { 1 };
        // entries are written for the width of `wcft`: mostly the header's, sometimes the one of a
        // table that lost its slack (the rebuild of finding tvfs-…-crosses-offset-width)
        let wcft = if rng.chance(1, 3) { *rng.pick(sizes) } else { cft };
        let w = w_of(wcft);
        let mut d: Vec<u8> = vec![];
        for _ in 0..rng.below(5) {
            let c = match rng.below(10) {
                0 => 0u8,
                1 => *rng.pick(&[225u8, 254, 255]),
                2 => 224,
                _ => rng.range(1, 4) as u8,
            };
            d.push(c);
            let n = if c >= 224 && rng.chance(2, 3) { rng.below(30) as usize } else { c as usize * (8 + w) };
            d.extend(rng.bytes(n));
        }
        if rng.chance(1, 6) {
            let l = d.len();
            d.truncate(l - rng.below(4.min(l as u64 + 1)) as usize);
        }
        let req = format!("tv {cft} {}", hex(&d));
        cx.run_req(&req);
        cx.s.tally(&format!("tvfs-vfs-table:width-{}", w_of(cft)));
    }
    for _ in 0..rounds / 2 {
        let fl = rng.below(2) as u32;
        let es = if fl == 1 { 22 } else { 13 };
        let n = match rng.below(4) {
            0 => es * rng.below(30) as usize,
            1 => es * rng.range(18, 22) as usize + rng.range(1, es as u64) as usize,
            _ => rng.below(600) as usize,
        };
        let d = rng.bytes(n);
        let req = format!("tc {fl} {}", hex(&d));
        cx.run_req(&req);
        cx.s.tally(if n % es == 0 { "tvfs-cft:no-slack" } else { "tvfs-cft:slack" });
    }
}
