//! C08 — serialisation is stable: parse → build → parse → build reaches a fixed point.
//!
//! O (every format of the property, on the REAL code): each input goes through
//!   parse₁ → build₁ → parse₂ → build₂ and must satisfy, whenever parse₁ accepts:
//!   build₁ succeeds, parse₂ succeeds, logical(parse₂) = logical(parse₁), build₂ = build₁;
//!   an unmutated CDN fixture must additionally satisfy build₁ = input (labelled as a test);
//!   a builder's value must satisfy logical(parse(serialise(value))) = logical(value).
//! K (modelled formats: install, download v1–v3, size v1/v2, ZBSDIFF container, patch index): the
//!   same pipeline is printed as one response line (`m <fmt> <hex>`) and compared with the Lean
//!   model; `tv <cft_table_size> <hex>` / `tc <flags> <hex>` compare the TVFS VFS-table reader and
//!   the container-table slack arithmetic (the mechanism of the TVFS findings) with their models.
//!
//! Request lines:
//!   m  <fmt> <hex>                 modelled format; detailed response compared with the model
//!   o  <fmt> <hex>                 oracle-only format; both sides answer `-`
//!   tv <cft_size> <hex>           VfsTable::parse under a header with that container-table size
//!   tc <flags> <hex>              ContainerFileTable::parse + build: entry count, rebuilt size
//!   of <fmt> <fixture> <muts>      oracle-only, input = fixture file with mutations applied
//!                                  (muts: `-` or comma list of s<pos>=<hh> | t<len> | a<hex> |
//!                                  i<pos>=<hex> | d<pos>+<n>); both sides answer `-`
//!   rp <ver> <recs>                root builder program (recs: `;` list of fdid,ckey,hash|-,locale,
//!                                  content in insertion order): RootBuilder::build, answered
//!                                  `ok n=<len> h=<fnv64 of the bytes>` / `err`, compared with the
//!                                  model (C03's Model/RootFile.build); O: the parsed records are the
//!                                  program's records (builder-form claim)
//!   ap <ks> <ob> <entries>         archive-index builder program on a chosen layout (entries: `;`
//!                                  list of key,size,offset): with_config(ks, ob, 4) -> build -> parse
//!                                  -> from_archive_index -> build -> parse, answered
//!                                  `ok n=<count> h=<fnv64 of the entry listing>` / `err`, compared
//!                                  with C03's Model/ArchiveIndex.buildParse applied twice
//!   bp <fmt> <parameters…>         builder program given by parameters (see the `bp` section below):
//!                                  install / download builder-as-mutator programs from new() and from a
//!                                  manifest of every version, BLTE chunk counts, TVFS file counts at the
//!                                  offset-width thresholds, count / width families of every builder;
//!                                  install bytes, BLTE table head and TVFS sizing are compared with the
//!                                  models, the rest is answered `-`
//! Every accepted input of a format that has a builder-as-mutator constructor (archive index, root,
//! install, download, encoding) is additionally taken through parsed value -> from_*(value) ->
//! [add an entry -> remove it] -> build -> parse and must come back with the same logical content.
use cascette_crypto::md5::FileDataId;
use cascette_crypto::{ContentKey, EncodingKey};
use cascette_formats::CascFormat;
use cascette_formats::archive::{ArchiveBuilder, ArchiveGroup, ArchiveGroupBuilder, ArchiveGroupEntry, ArchiveIndex, ArchiveIndexBuilder};
use cascette_formats::archive::IndexEntry;
use cascette_formats::blte::{BlteBuilder, BlteFile, BlteHeader, ChunkData, CompressionMode};
use cascette_formats::bpsv::{BpsvBuilder, BpsvDocument, BpsvField, BpsvType, BpsvValue};
use cascette_formats::config::{BuildConfig, CdnConfig, KeyringConfig, PatchConfig, PatchEntry as PatchCfgEntry, ProductConfig};
use cascette_formats::download::{DownloadManifest, DownloadManifestBuilder};
use cascette_formats::encoding::{CKeyEntryData, EKeyEntryData, EncodingBuilder, EncodingFile};
use cascette_formats::espec::{BlockChunk, BlockSizeSpec, ESpec};
use cascette_formats::install::{InstallManifest, InstallManifestBuilder, TagType};
use cascette_formats::patch_archive::{FilePatch, PatchArchive, PatchArchiveBuilder, PatchArchiveEncodingInfo, PatchFileEntry};
use cascette_formats::patch_index::{PatchIndex, PatchIndexBuilder, PatchIndexEntry};
use cascette_formats::root::{ContentFlags, LocaleFlags, RootBuilder, RootFile, RootVersion};
use cascette_formats::size::{SizeManifest, SizeManifestBuilder};
use cascette_formats::tvfs::{ContainerFileTable, TvfsBuilder, TvfsFile, TvfsHeader, VfsTable};
use cascette_formats::zbsdiff::{ZbsDiff, ZbsdiffBuilder};
use std::io::Cursor;
use std::panic::AssertUnwindSafe;
use verif_harness::*;

const FIX: &str = "/repo/crates/cascette-formats/test_fixtures";

// ---------------------------------------------------------------------------------------------
// small helpers

fn fnv64(b: &[u8]) -> u64 {
    let mut h = 0xcbf2_9ce4_8422_2325u64;
    for x in b {
        h ^= *x as u64;
        h = h.wrapping_mul(0x0000_0100_0000_01b3);
    }
    h
}

/// Canonical form of a `{:?}` string: the elements of every map/set body (`{…}` not preceded by
/// a type name) are sorted, so two values that differ only in hash-map iteration order print alike.
fn canon_debug(s: &str) -> String {
    fn parse(b: &[u8], i: &mut usize, close: u8) -> String {
        // returns the canonical text up to (not including) the matching `close`
        let mut items: Vec<String> = vec![];
        let mut cur = String::new();
        let mut sortable = false;
        while *i < b.len() {
            let c = b[*i];
            if c == close {
                break;
            }
            match c {
                b'"' => {
                    let st = *i;
                    *i += 1;
                    while *i < b.len() && b[*i] != b'"' {
                        if b[*i] == b'\\' {
                            *i += 1;
                        }
                        *i += 1;
                    }
                    *i += 1;
                    cur.push_str(&String::from_utf8_lossy(&b[st..(*i).min(b.len())]));
                    continue;
                }
                b'{' | b'[' | b'(' => {
                    let cl = match c {
                        b'{' => b'}',
                        b'[' => b']',
                        _ => b')',
                    };
                    // a map/set body: `{` not preceded by "Name " (struct) — i.e. preceded by
                    // nothing, '(' , '[', ' ' after ':' or ','
                    let prev_ident = cur.trim_end().chars().last().is_some_and(|ch| ch.is_alphanumeric() || ch == '_' || ch == '>');
                    *i += 1;
                    let inner = parse(b, i, cl);
                    *i += 1;
                    cur.push(c as char);
                    if c == b'{' && !prev_ident {
                        let mut parts: Vec<&str> = inner.split("\u{1}").collect();
                        parts.sort_unstable();
                        cur.push_str(&parts.join(", "));
                    } else {
                        cur.push_str(&inner.replace('\u{1}', ", "));
                    }
                    cur.push(cl as char);
                    continue;
                }
                b',' => {
                    items.push(std::mem::take(&mut cur).trim().to_string());
                    sortable = true;
                    *i += 1;
                    continue;
                }
                _ => {
                    cur.push(c as char);
                }
            }
            *i += 1;
        }
        let _ = sortable;
        if !cur.trim().is_empty() {
            items.push(cur.trim().to_string());
        }
        items.join("\u{1}")
    }
    let b = s.as_bytes();
    let mut i = 0;
    parse(b, &mut i, 0).replace('\u{1}', ", ")
}

#[derive(Clone, Debug)]
enum Mut {
    Set(usize, u8),
    Trunc(usize),
    Append(Vec<u8>),
    Insert(usize, Vec<u8>),
    Delete(usize, usize),
}

fn muts_text(ms: &[Mut]) -> String {
    if ms.is_empty() {
        return "-".into();
    }
    ms.iter()
        .map(|m| match m {
            Mut::Set(p, v) => format!("s{p}={v:02x}"),
            Mut::Trunc(n) => format!("t{n}"),
            Mut::Append(b) => format!("a{}", hex::encode(b)),
            Mut::Insert(p, b) => format!("i{p}={}", hex::encode(b)),
            Mut::Delete(p, n) => format!("d{p}+{n}"),
        })
        .collect::<Vec<_>>()
        .join(",")
}

fn parse_muts(t: &str) -> Option<Vec<Mut>> {
    if t == "-" {
        return Some(vec![]);
    }
    let mut v = vec![];
    for part in t.split(',') {
        let (k, rest) = part.split_at(1);
        v.push(match k {
            "s" => {
                let (p, h) = rest.split_once('=')?;
                Mut::Set(p.parse().ok()?, u8::from_str_radix(h, 16).ok()?)
            }
            "t" => Mut::Trunc(rest.parse().ok()?),
            "a" => Mut::Append(hex::decode(rest).ok()?),
            "i" => {
                let (p, h) = rest.split_once('=')?;
                Mut::Insert(p.parse().ok()?, hex::decode(h).ok()?)
            }
            "d" => {
                let (p, n) = rest.split_once('+')?;
                Mut::Delete(p.parse().ok()?, n.parse().ok()?)
            }
            _ => return None,
        });
    }
    Some(v)
}

fn apply_muts(base: &[u8], ms: &[Mut]) -> Vec<u8> {
    let mut d = base.to_vec();
    for m in ms {
        match m {
            Mut::Set(p, v) => {
                if *p < d.len() {
                    d[*p] = *v;
                }
            }
            Mut::Trunc(n) => d.truncate(*n),
            Mut::Append(b) => d.extend_from_slice(b),
            Mut::Insert(p, b) => {
                let p = (*p).min(d.len());
                d.splice(p..p, b.iter().copied());
            }
            Mut::Delete(p, n) => {
                let p = (*p).min(d.len());
                let e = (p + *n).min(d.len());
                d.drain(p..e);
            }
        }
    }
    d
}

/// one random mutation list aimed at the accepted-but-non-canonical region: header fields,
/// footers, counts/sizes (±1, 0, 0xFF), truncation, trailing bytes, small inserts/deletes.
fn gen_muts(rng: &mut Rng, len: usize, text: bool) -> Vec<Mut> {
    let mut v = vec![];
    if len == 0 {
        let k = rng.range(1, 8) as usize;
        return vec![Mut::Append(rng.bytes(k))];
    }
    let pos = |rng: &mut Rng| -> usize {
        match rng.below(10) {
            0..=4 => rng.below(len.min(64) as u64) as usize,
            5 | 6 => len - 1 - rng.below(len.min(64) as u64) as usize,
            _ => rng.below(len as u64) as usize,
        }
    };
    let n = match rng.below(10) {
        0..=5 => 1,
        6..=8 => 2,
        _ => 3,
    };
    for _ in 0..n {
        let k = rng.below(if text { 14 } else { 10 });
        match k {
            0..=5 => {
                let p = pos(rng);
                let val = match rng.below(8) {
                    0 => 0,
                    1 => 0xFF,
                    2 => 1,
                    3 => rng.below(8) as u8,
                    4 => 0x80,
                    _ => rng.byte(),
                };
                v.push(Mut::Set(p, val));
            }
            6 => v.push(Mut::Trunc(if rng.chance(1, 2) { len - 1 - rng.below(len.min(40) as u64) as usize } else { rng.below(len as u64) as usize })),
            7 => {
                let k = rng.range(1, 8) as usize;
                v.push(Mut::Append(if rng.chance(1, 2) { vec![0; k] } else { rng.bytes(k) }));
            }
            8 => {
                let k = rng.range(1, 4) as usize;
                v.push(Mut::Insert(pos(rng), if rng.chance(1, 2) { vec![0; k] } else { rng.bytes(k) }));
            }
            9 => v.push(Mut::Delete(pos(rng), rng.range(1, 4) as usize)),
            // text formats: white space, separators, comments, line ends, non-ASCII
            10 => v.push(Mut::Insert(pos(rng), rng.pick(&[&b" "[..], b"\t", b"\r", b"\n", b"  ", b"\n\n", b" = ", b"=", b"|", b"#", b"\xc2\xa0", b"\xe3\x80\x80", b"\xff"]).to_vec())),
            11 => v.push(Mut::Append(rng.pick(&[&b"\n"[..], b"\r\n", b"x = y\n", b"key-0000000000000001 = 00000000000000000000000000000001\n", b"## seqn = 5\n", b"a|b\n", b"# c\n", b" "]).to_vec())),
            12 => v.push(Mut::Set(pos(rng), *rng.pick(&[b' ', b'\t', b'\n', b'\r', b'=', b'|', b'#', b'!', b':', b'0', b'A', b'-']))),
            _ => {
                let p = pos(rng);
                v.push(Mut::Delete(p, rng.range(1, 12) as usize));
            }
        }
    }
    v
}

// ---------------------------------------------------------------------------------------------
// the fixed-point pipeline

#[derive(Debug, Clone, PartialEq)]
enum Stage {
    Rejected,
    ParsePanic,
    Ok,
    Fail(&'static str),
}

struct Out {
    stage: Stage,
    detail: String,
    rebuilt: Option<Vec<u8>>,
    logical: Option<String>,
    field: Option<String>,
}

fn pipeline<V>(
    bytes: &[u8],
    parse: &dyn Fn(&[u8]) -> Result<V, String>,
    build: &dyn Fn(&V) -> Result<Vec<u8>, String>,
    logical: &dyn Fn(&V) -> String,
) -> Out {
    let mk = |stage, detail: String, rebuilt, logical| Out { stage, detail, rebuilt, logical, field: None };
    let v1 = match catch(AssertUnwindSafe(|| parse(bytes))) {
        Err(p) => return mk(Stage::ParsePanic, p, None, None),
        Ok(Err(_)) => return mk(Stage::Rejected, String::new(), None, None),
        Ok(Ok(v)) => v,
    };
    let l1 = match catch(AssertUnwindSafe(|| logical(&v1))) {
        Ok(l) => l,
        Err(p) => return mk(Stage::Fail("accessor-panics"), p, None, None),
    };
    let b1 = match catch(AssertUnwindSafe(|| build(&v1))) {
        Err(p) => return mk(Stage::Fail("build-panics"), p, None, Some(l1)),
        Ok(Err(e)) => return mk(Stage::Fail("accepted-not-rebuildable"), e, None, Some(l1)),
        Ok(Ok(b)) => b,
    };
    let v2 = match catch(AssertUnwindSafe(|| parse(&b1))) {
        Err(p) => return mk(Stage::Fail("rebuilt-not-parseable"), format!("panic: {p}"), Some(b1), Some(l1)),
        Ok(Err(e)) => return mk(Stage::Fail("rebuilt-not-parseable"), e, Some(b1), Some(l1)),
        Ok(Ok(v)) => v,
    };
    let l2 = catch(AssertUnwindSafe(|| logical(&v2))).unwrap_or_else(|p| format!("<panic {p}>"));
    if l1 != l2 {
        let at = l1.bytes().zip(l2.bytes()).position(|(a, b)| a != b).unwrap_or(l1.len().min(l2.len()));
        let cut = |s: &str| s.chars().skip(at.saturating_sub(30)).take(90).collect::<String>();
        if std::env::var("C08_DEBUG").is_ok() {
            eprintln!("L1 {l1}\nL2 {l2}");
        }
        let field = diff_field(&l1, &l2);
        let mut o = mk(Stage::Fail("rebuild-changes-content"), format!("first parse …{}… second parse …{}…", cut(&l1), cut(&l2)), Some(b1), Some(l1));
        o.field = Some(field);
        return o;
    }
    let b2 = match catch(AssertUnwindSafe(|| build(&v2))) {
        Err(p) => return mk(Stage::Fail("second-build-fails"), format!("panic: {p}"), Some(b1), Some(l1)),
        Ok(Err(e)) => return mk(Stage::Fail("second-build-fails"), e, Some(b1), Some(l1)),
        Ok(Ok(b)) => b,
    };
    if b1 != b2 {
        let at = b1.iter().zip(b2.iter()).position(|(a, b)| a != b).unwrap_or(b1.len().min(b2.len()));
        return mk(Stage::Fail("second-build-differs"), format!("lengths {} / {}, first difference at byte {at}", b1.len(), b2.len()), Some(b1), Some(l1));
    }
    mk(Stage::Ok, String::new(), Some(b1), Some(l1))
}

fn es<E: std::fmt::Display>(e: E) -> String {
    e.to_string()
}

fn casc<T: CascFormat>(bytes: &[u8], logical: &dyn Fn(&T) -> String) -> Out {
    pipeline::<T>(bytes, &|b| T::parse(b).map_err(es), &|v| v.build().map_err(es), logical)
}

fn dbg<T: std::fmt::Debug>(v: &T) -> String {
    format!("{v:?}")
}

fn cdbg<T: std::fmt::Debug>(v: &T) -> String {
    canon_debug(&format!("{v:?}"))
}

/// one root record with the flags of its block: (FileDataID, content key, name hash, locale, content)
type RRec = (u32, [u8; 16], Option<u64>, u32, u64);

fn rrec_str(r: &RRec) -> String {
    format!("{}:{}:{:?}:{:x}:{:x}", r.0, hex(&r.1), r.2, r.3, r.4)
}

fn root_recs(r: &RootFile) -> Vec<RRec> {
    let mut recs = vec![];
    for b in &r.blocks {
        for rec in &b.records {
            recs.push((rec.file_data_id.get(), *rec.content_key.as_bytes(), rec.name_hash, b.locale_flags().value(), b.content_flags().value));
        }
    }
    recs
}

/// logical content of a root: version + the MULTISET of records (sorted; a FileDataID listed twice
/// in one block counts twice)
fn root_logical_of(ver: RootVersion, recs: &[RRec]) -> String {
    let mut v: Vec<String> = recs.iter().map(rrec_str).collect();
    v.sort();
    format!("{:?} n={} {}", ver, v.len(), v.join(" "))
}

fn root_logical(r: &RootFile) -> String {
    root_logical_of(r.version, &root_recs(r))
}

/// RootBuilder(V2) output with these counts has a classic header that the header reader takes for
/// an extended one (C03 finding root-v2-small-header-ambiguity)
fn v2_window_counts(ver: RootVersion, total: usize, named: usize) -> bool {
    ver == RootVersion::V2 && (16..100).contains(&total) && named < 10
}

fn v2_window_recs(ver: RootVersion, recs: &[RRec]) -> bool {
    v2_window_counts(ver, recs.len(), recs.iter().filter(|r| r.2.is_some()).count())
}

/// bytes that START like a classic V2 header (magic, total, named) in that window — and are not a
/// genuine extended (V3/V4) file: a genuine one has header_size / version (1..4) in the same two
/// words, but then it parses to exactly the number of records its own total_files word states
fn root_v2_window(b: &[u8]) -> bool {
    let magic = b.len() >= 12 && (&b[..4] == b"TSFM" || &b[..4] == b"MFST");
    let (t, nm) = if magic { (u32::from_le_bytes([b[4], b[5], b[6], b[7]]), u32::from_le_bytes([b[8], b[9], b[10], b[11]])) } else { (0, 0) };
    if !(magic && (16..100).contains(&t) && nm < 10) {
        return false;
    }
    // (an extended header has its version, 1..4, where a classic one has named_files)
    let genuine_ext = b.len() >= 20
        && &b[..4] == b"TSFM"
        && (1..=4).contains(&nm)
        && catch(AssertUnwindSafe(|| RootFile::parse(b))).ok().and_then(|r| r.ok()).is_some_and(|r| {
            let n: usize = r.blocks.iter().map(|x| x.records.len()).sum();
            n > 0 && n as u32 == u32::from_le_bytes([b[12], b[13], b[14], b[15]])
        });
    !genuine_ext
}

/// one archive-index entry as the file stores it: key, size, 48-bit location (archive index in the
/// top 16 bits for the 6-byte archive-group layout)
fn aidx_entry_str(e: &IndexEntry) -> String {
    format!("{}:{}:{}", hex(&e.encoding_key), e.size, ((e.archive_index.unwrap_or(0) as u64) << 32) + e.offset)
}

/// logical content of an archive index: record layout of the footer + entries
fn aidx_logical(i: &ArchiveIndex) -> String {
    let es: Vec<String> = i.entries.iter().map(aidx_entry_str).collect();
    format!("ks={} ob={} sb={} hb={} n={} entries={}", i.footer.ekey_length, i.footer.offset_bytes, i.footer.size_bytes, i.footer.footer_hash_bytes, i.footer.element_count, es.join(";"))
}

fn aidx_parse(b: &[u8]) -> Result<ArchiveIndex, String> {
    ArchiveIndex::parse(&mut Cursor::new(b)).map_err(es)
}

fn aidx_builder_bytes(b: ArchiveIndexBuilder) -> Result<Vec<u8>, String> {
    let mut out = Vec::new();
    b.build(Cursor::new(&mut out)).map_err(es)?;
    Ok(out)
}

/// logical content of a download manifest: header through its accessors, entries, tags
fn dl_logical(m: &DownloadManifest) -> String {
    format!("v={} cks={} fs={} bp={} entries={:?} tags={:?}", m.header.version(), m.header.has_checksum(), m.header.flag_size(), m.header.base_priority(), m.entries, m.tags)
}

/// logical content of an encoding file: page sizes + the two entry tables with ESpec STRINGS
fn enc_logical(e: &EncodingFile) -> String {
    let mut ck: Vec<String> = e.ckey_pages.iter().flat_map(|p| p.entries.iter()).map(|x| format!("{}:{}:{}", hex(x.content_key.as_bytes()), x.file_size, x.encoding_keys.iter().map(|k| hex(k.as_bytes())).collect::<Vec<_>>().join("+"))).collect();
    let mut ek: Vec<String> = e.ekey_pages.iter().flat_map(|p| p.entries.iter()).map(|x| format!("{}:{}:{:?}", hex(x.encoding_key.as_bytes()), x.file_size, e.espec_table.get(x.espec_index))).collect();
    ck.sort();
    ek.sort();
    format!("cps={} eps={} ckeys={} ekeys={} ck=[{}] ek=[{}]", e.header.ckey_page_size_kb, e.header.ekey_page_size_kb, ck.len(), ek.len(), ck.join(" "), ek.join(" "))
}

fn tvfs_logical(t: &TvfsFile) -> String {
    let files: Vec<String> = t.path_table.files.iter().map(|f| format!("{:?}@{}", f.path, f.vfs_offset)).collect();
    let vfs: Vec<String> = t.vfs_table.entries.iter().map(|e| format!("{}:{:?}", e.offset, e.spans.iter().map(|s| (s.file_offset, s.span_length, s.cft_offset)).collect::<Vec<_>>())).collect();
    let cft: Vec<String> = t
        .container_table
        .entries
        .iter()
        .map(|e| format!("{}:{}:{}:{:?}:{:?}:{:?}", e.offset, hex(&e.ekey), e.encoded_size, e.content_key.as_ref().map(|k| hex(k)), e.est_index, e.patch_offset))
        .collect();
    format!("flags={:x} files={files:?} vfs={vfs:?} cft={cft:?} est={:?}", t.header.flags, t.est_table.as_ref().map(|e| e.specs.clone()))
}

fn pa_logical(p: &PatchArchive) -> String {
    // entries as a set: the builder behind `build` sorts them by target key
    let mut ents: Vec<String> = p.all_file_entries().map(|e| format!("{e:?}")).collect();
    ents.sort();
    format!(
        "v={} fk={} ok={} pk={} bits={} flags={} enc={:?} entries={:?}",
        p.header.version,
        p.header.file_key_size,
        p.header.old_key_size,
        p.header.patch_key_size,
        p.header.block_size_bits,
        p.header.flags,
        p.encoding_info,
        ents
    )
}

fn pi_logical(p: &PatchIndex) -> String {
    format!("ks={} v={} entries={:?}", p.key_size, p.header.version, p.entries)
}

fn group_parse(b: &[u8]) -> Result<ArchiveGroup, String> {
    ArchiveGroup::parse(&mut Cursor::new(b)).map_err(es)
}

fn group_build(g: &ArchiveGroup) -> Result<Vec<u8>, String> {
    let mut b = ArchiveGroupBuilder::new();
    for e in &g.entries {
        b.add_entry(e.clone());
    }
    let mut out = Vec::new();
    b.build(Cursor::new(&mut out)).map_err(es)?;
    Ok(out)
}

fn group_logical(g: &ArchiveGroup) -> String {
    format!("{:?}", g.entries)
}

pub const FORMATS: &[&str] = &[
    "blte", "encoding", "aidx", "agroup", "root", "install", "download", "size", "tvfs", "parchive", "pindex", "zbsdiff", "buildcfg", "cdncfg", "patchcfg", "productcfg",
    "keyring", "bpsv", "espec",
];

fn run_fmt(fmt: &str, b: &[u8]) -> Option<Out> {
    Some(match fmt {
        "blte" => casc::<BlteFile>(b, &dbg),
        "encoding" => casc::<EncodingFile>(b, &dbg),
        "aidx" => casc::<ArchiveIndex>(b, &dbg),
        "agroup" => pipeline::<ArchiveGroup>(b, &group_parse, &group_build, &group_logical),
        "root" => casc::<RootFile>(b, &root_logical),
        "install" => casc::<InstallManifest>(b, &dbg),
        "download" => casc::<DownloadManifest>(b, &dbg),
        "size" => casc::<SizeManifest>(b, &dbg),
        "tvfs" => casc::<TvfsFile>(b, &tvfs_logical),
        "parchive" => casc::<PatchArchive>(b, &pa_logical),
        "pindex" => casc::<PatchIndex>(b, &pi_logical),
        "zbsdiff" => casc::<ZbsDiff>(b, &dbg),
        "buildcfg" => casc::<BuildConfig>(b, &cdbg),
        "cdncfg" => casc::<CdnConfig>(b, &cdbg),
        "patchcfg" => casc::<PatchConfig>(b, &cdbg),
        "productcfg" => casc::<ProductConfig>(b, &cdbg),
        "keyring" => casc::<KeyringConfig>(b, &cdbg),
        "bpsv" => casc::<BpsvDocument>(b, &cdbg),
        "espec" => casc::<ESpec>(b, &dbg),
        _ => return None,
    })
}


// ---------------------------------------------------------------------------------------------
// allocation guard: several parsers reserve `count * size_of::<Entry>()` from a header field
// before reading (property C02's ground); a mutated count makes the process abort. A mutated
// binary input is therefore first parsed in a forked child with a 6 GiB address-space limit;
// if the child dies the input is tallied `parse-abort(C02)` and not evaluated here.
unsafe extern "C" {
    fn fork() -> i32;
    fn waitpid(pid: i32, status: *mut i32, options: i32) -> i32;
    fn _exit(code: i32) -> !;
    fn setrlimit(resource: i32, rlim: *const [u64; 2]) -> i32;
    fn close(fd: i32) -> i32;
}

fn survives_parse(fmt: &str, b: &[u8]) -> bool {
    unsafe {
        let pid = fork();
        if pid < 0 {
            return true;
        }
        if pid == 0 {
            close(2);
            let lim: [u64; 2] = [6 << 30, 6 << 30];
            setrlimit(9, &lim);
            let _ = catch(AssertUnwindSafe(|| parse_only(fmt, b)));
            _exit(0);
        }
        let mut st = 0i32;
        waitpid(pid, &mut st, 0);
        st == 0
    }
}

fn parse_only(fmt: &str, b: &[u8]) {
    match fmt {
        "blte" => drop(<BlteFile as CascFormat>::parse(b)),
        "encoding" => drop(<EncodingFile as CascFormat>::parse(b)),
        "aidx" => drop(<ArchiveIndex as CascFormat>::parse(b)),
        "agroup" => drop(group_parse(b)),
        "root" => drop(<RootFile as CascFormat>::parse(b)),
        "install" => drop(<InstallManifest as CascFormat>::parse(b)),
        "download" => drop(<DownloadManifest as CascFormat>::parse(b)),
        "size" => drop(<SizeManifest as CascFormat>::parse(b)),
        "tvfs" => drop(<TvfsFile as CascFormat>::parse(b)),
        "parchive" => drop(<PatchArchive as CascFormat>::parse(b)),
        "pindex" => drop(<PatchIndex as CascFormat>::parse(b)),
        "zbsdiff" => drop(<ZbsDiff as CascFormat>::parse(b)),
        _ => {}
    }
}

// ---------------------------------------------------------------------------------------------
// shape classifiers: the sig names format + failing stage + the shape of the input, so that a
// different defect of the same format is still a VIOLATION.

fn be32(b: &[u8], o: usize) -> u32 {
    if b.len() < o + 4 { 0 } else { u32::from_be_bytes([b[o], b[o + 1], b[o + 2], b[o + 3]]) }
}

/// first words of an error text as a slug (numbers dropped): the error class named by the code
fn slug(msg: &str) -> String {
    let words: Vec<String> = msg
        .split(|c: char| !c.is_ascii_alphabetic())
        .filter(|w| w.len() > 1)
        .take(5)
        .map(|w| w.to_ascii_lowercase())
        .collect();
    words.join("-")
}

/// name of the field in which two logical-content strings first differ (`name:` / `name=`
/// closest before the first differing byte)
fn diff_field(a: &str, b: &str) -> String {
    let at = a.bytes().zip(b.bytes()).position(|(x, y)| x != y).unwrap_or(a.len().min(b.len()));
    let pre = &a.as_bytes()[..at.min(a.len())];
    let mut end = pre.len();
    while end > 0 {
        if pre[end - 1] == b':' || pre[end - 1] == b'=' {
            let mut st = end - 1;
            while st > 0 && (pre[st - 1].is_ascii_alphanumeric() || pre[st - 1] == b'_') {
                st -= 1;
            }
            if st < end - 1 && pre[st].is_ascii_alphabetic() {
                return String::from_utf8_lossy(&pre[st..end - 1]).to_string();
            }
        }
        end -= 1;
    }
    "head".into()
}

fn shape(fmt: &str, stage: &str, input: &[u8], out: &Out) -> String {
    let tail = match stage {
        "rebuild-changes-content" => {
            let f = out.field.clone().unwrap_or_default();
            if fmt == "parchive" && ["v", "fk", "ok", "pk", "bits", "flags"].contains(&f.as_str()) {
                "header".to_string()
            } else if fmt == "root" {
                // the logical content of a root is one record multiset: no field names to point at
                "records".to_string()
            } else {
                f
            }
        }
        "accepted-not-rebuildable" | "rebuilt-not-parseable" | "second-build-fails" | "build-panics" => slug(&out.detail),
        _ => String::new(),
    };
    let input_shape = match fmt {
        "tvfs" => {
            // header: magic4 ver1 hdr1 ek1 pk1 flags4 path(off,size) vfs(off,size) cft(off,size) depth2 [est(off,size)]
            let flags = be32(input, 8);
            let (po, ps, vo, vs, co, cs) = (be32(input, 12) as u64, be32(input, 16) as u64, be32(input, 20) as u64, be32(input, 24) as u64, be32(input, 28) as u64, be32(input, 32) as u64);
            let hs = if flags & 2 != 0 { 46u64 } else { 38 };
            let (eo, esz) = if flags & 2 != 0 { (be32(input, 38) as u64, be32(input, 42) as u64) } else { (0, 0) };
            let w = |n: u64| if n > 0xFF_FFFF { 4u64 } else if n > 0xFFFF { 3 } else if n > 0xFF { 2 } else { 1 };
            let entry = 9 + 4 + if flags & 1 != 0 { 9 } else { 0 } + if flags & 2 != 0 { w(esz) } else { 0 } + if flags & 4 != 0 { w(cs) } else { 0 };
            let slack = cs % entry;
            // canonical layout written by build: header, path, [est], cft, vfs — contiguous
            let canonical = po == hs && (if flags & 2 != 0 { eo == po + ps && co == eo + esz } else { co == po + ps }) && vo == co + cs && vo + vs == input.len() as u64;
            if slack != 0 && w(cs) != w(cs - slack) {
                "cft-slack-crosses-offset-width"
            } else if slack != 0 {
                "cft-slack"
            } else if !canonical {
                "noncanonical-table-layout"
            } else {
                "canonical-layout"
            }
            .to_string()
        }
        "root" => {
            // a classic V2 header (magic, total, named) whose counts fall into the window the
            // header reader takes for an extended header (C03 finding root-v2-small-header-ambiguity),
            // in the input or in the bytes the rebuild wrote
            let win = root_v2_window;
            let window = win(input) || out.rebuilt.as_deref().is_some_and(win);
            match RootFile::parse(input) {
                _ if window => "v2-small-header-window".to_string(),
                Ok(r) => {
                    let n: usize = r.blocks.iter().map(|b| b.records.len()).sum();
                    if n == 0 { "no-records".to_string() } else { format!("{:?}", r.version).to_lowercase() }
                }
                Err(_) => "unparsed".to_string(),
            }
        }
        "encoding" => {
            let esz = be32(input, 18) as usize;
            let blk = input.get(22..22 + esz).unwrap_or(&[]);
            if std::str::from_utf8(blk).is_err() {
                "espec-not-utf8".to_string()
            } else if input.len() > 4 && (input[3] != 16 || input[4] != 16) {
                // header with a CKey / EKey hash size other than 16 (EncodingBuilder writes 16-byte keys only)
                "key-hash-size-not-16".to_string()
            } else if <EncodingFile as CascFormat>::parse(input).is_ok_and(|e| e.ekey_pages.iter().flat_map(|p| p.entries.iter()).any(|x| e.espec_table.get(x.espec_index).is_none())) {
                // an EKey entry whose ESpec index points outside the ESpec table (the parser accepts it)
                "espec-index-out-of-table".to_string()
            } else {
                String::new()
            }
        }
        "aidx" | "agroup" => {
            // footer fields that deviate from the usual layout
            if input.len() < 28 {
                String::new()
            } else {
                let hb = input[input.len() - 13] as usize;
                let fs = input.len().saturating_sub(20 + hb);
                let f = &input[fs..];
                let mut v = vec![];
                if f.len() >= 20 {
                    if f[12] != 4 && fmt == "aidx" {
                        v.push(format!("offset-bytes-{}", f[12]));
                    }
                    if f[14] != 16 {
                        v.push("short-keys".to_string());
                    }
                    if f[15] != 8 {
                        v.push("hash-bytes".to_string());
                    }
                }
                v.join("-")
            }
        }
        _ => String::new(),
    };
    // shapes that name a cause on their own: no error-text / field tail
    let tail = if (fmt == "tvfs") || input_shape == "v2-small-header-window" { String::new() } else { tail };
    [fmt, stage, &input_shape, &tail].iter().filter(|x| !x.is_empty()).map(|x| x.to_string()).collect::<Vec<_>>().join("-")
}

// ---------------------------------------------------------------------------------------------
// per-run state

struct Ctx {
    s: Session,
    fixtures: Vec<(String, String, Vec<u8>)>, // (fmt, relative path, bytes)
}

fn load_fixtures() -> Vec<(String, String, Vec<u8>)> {
    let mut v = vec![];
    let mut add = |fmt: &str, rel: &str| {
        if let Ok(b) = std::fs::read(format!("{FIX}/{rel}")) {
            v.push((fmt.to_string(), rel.to_string(), b));
        }
    };
    let dirs: &[(&str, &str, &[&str])] = &[
        ("aidx", "archive", &[".index"]),
        ("download", "download", &[".download"]),
        ("encoding", "encoding", &[".bin"]),
        ("install", "install", &[".install"]),
        ("parchive", "patch_archive", &[".bin"]),
        ("pindex", "patch_index", &[".bin"]),
        ("root", "root", &[".root"]),
        ("tvfs", "tvfs", &[".bin"]),
        ("blte", "tvfs", &[".blte"]),
        ("zbsdiff", "zbsdiff", &[".zbsdiff"]),
    ];
    for (fmt, dir, exts) in dirs {
        let mut names: Vec<String> = std::fs::read_dir(format!("{FIX}/{dir}")).map(|rd| rd.filter_map(|e| e.ok()).map(|e| e.file_name().to_string_lossy().to_string()).collect()).unwrap_or_default();
        names.sort();
        for n in names {
            if exts.iter().any(|e| n.ends_with(e)) {
                add(fmt, &format!("{dir}/{n}"));
            }
        }
    }
    for (fmt, rel) in [
        ("keyring", "config/odin_keyring_config.txt"),
        ("keyring", "config/overwatch_keyring_config.txt"),
        ("keyring", "config/wow_keyring_config.txt"),
        ("buildcfg", "config/wow_build_config.txt"),
        ("buildcfg", "config/wow_classic_build_config.txt"),
        ("buildcfg", "config/wow_classic_era_build_config.txt"),
    ] {
        add(fmt, rel);
    }
    v
}

/// outcome of one builder-as-mutator check: (failing step, detail, bytes the step wrote)
type FromFail = (String, String, Option<Vec<u8>>);

/// Builder-as-mutator constructors (`from_*`): the parsed value `v` of an accepted input is loaded
/// into the format's builder, optionally modified (one entry added, then removed again), built,
/// serialised and parsed back; the logical content must be the one of `v` (plus the added entry).
/// Every choice is a function of the input bytes, so the input's own request line replays it.
/// Returns the tally label and the failures.
fn from_ctor(fmt: &str, input: &[u8], rebuilt: &[u8]) -> Option<(String, Vec<FromFail>)> {
    let h = fnv64(input);
    let fails: std::cell::RefCell<Vec<FromFail>> = std::cell::RefCell::new(vec![]);
    let fail = |step: &str, detail: String, bytes: Option<Vec<u8>>| fails.borrow_mut().push((step.to_string(), detail, bytes));
    let first_diff = |a: &str, b: &str| {
        let at = a.bytes().zip(b.bytes()).position(|(x, y)| x != y).unwrap_or(a.len().min(b.len()));
        let cut = |s: &str| s.chars().skip(at.saturating_sub(30)).take(100).collect::<String>();
        format!("want …{}… got …{}…", cut(a), cut(b))
    };
    let label;
    match fmt {
        "aidx" => {
            let v = aidx_parse(input).ok()?;
            let (ks, ob) = (v.footer.ekey_length as usize, v.footer.offset_bytes);
            label = format!("aidx:from_archive_index(ks={ks},ob={ob})");
            let l0 = aidx_logical(&v);
            // (1) unmodified
            match catch(AssertUnwindSafe(|| aidx_builder_bytes(ArchiveIndexBuilder::from_archive_index(&v)))) {
                Err(p) => fail("from-archive-index-build-fails", format!("panic: {p}"), None),
                Ok(Err(e)) => fail("from-archive-index-build-fails", e, None),
                Ok(Ok(b)) => match catch(AssertUnwindSafe(|| aidx_parse(&b))) {
                    Ok(Ok(v2)) => {
                        let l = aidx_logical(&v2);
                        // (bytes are not compared with v.build(): that writer re-emits the footer's
                        // toc_hash / version as read, the builder computes its own)
                        if l != l0 {
                            fail("from-archive-index-changes-content", first_diff(&l0, &l), Some(b));
                        }
                    }
                    Ok(Err(e)) => fail("from-archive-index-not-parseable", e, Some(b)),
                    Err(p) => fail("from-archive-index-not-parseable", format!("panic: {p}"), Some(b)),
                },
            }
            // (2) add one entry (a key the index does not hold; location at the top of the offset
            // width), (3) remove it again
            if ks > 0 && fails.borrow().is_empty() {
                let mut key: Vec<u8> = (0..ks).map(|i| (h >> (8 * (i % 8))) as u8 ^ (i as u8).wrapping_mul(0x3b)).collect();
                key[0] |= 1;
                while v.entries.iter().any(|e| e.encoding_key == key) {
                    let l = key.len() - 1;
                    key[l] = key[l].wrapping_add(1);
                }
                let size = (h >> 13) as u32 | 1;
                let offset: u64 = match ob {
                    4 => 0x8000_0000 | (h >> 32),
                    5 => 0x80_0000_0000 | (h >> 25),
                    _ => 0x8000_0000_0000 | (h >> 17),
                };
                let added = IndexEntry { encoding_key: key.clone(), size, offset: if ob == 6 { offset & 0xFFFF_FFFF } else { offset }, archive_index: if ob == 6 { Some((offset >> 32) as u16) } else { None } };
                let mut want = v.entries.clone();
                want.push(added);
                want.sort();
                let want_l = want.iter().map(aidx_entry_str).collect::<Vec<_>>().join(";");
                let step = catch(AssertUnwindSafe(|| {
                    let mut b = ArchiveIndexBuilder::from_archive_index(&v);
                    b.add_entry(key.clone(), size, offset);
                    let bytes = aidx_builder_bytes(b)?;
                    let v2 = aidx_parse(&bytes).map_err(|e| format!("parse: {e}"))?;
                    Ok::<_, String>((bytes, v2))
                }));
                match step {
                    Ok(Ok((bytes, v2))) => {
                        let got_l = v2.entries.iter().map(aidx_entry_str).collect::<Vec<_>>().join(";");
                        if got_l != want_l || v2.footer.offset_bytes != ob || v2.footer.ekey_length as usize != ks {
                            fail("from-archive-index-add-changes-content", first_diff(&want_l, &got_l), Some(bytes));
                        } else {
                            let back = catch(AssertUnwindSafe(|| {
                                let mut b = ArchiveIndexBuilder::from_archive_index(&v2);
                                if !b.remove_entry(&key) {
                                    return Err("remove_entry does not find the added key".to_string());
                                }
                                let bytes = aidx_builder_bytes(b)?;
                                let v3 = aidx_parse(&bytes).map_err(|e| format!("parse: {e}"))?;
                                Ok::<_, String>((bytes, aidx_logical(&v3)))
                            }));
                            match back {
                                Ok(Ok((bytes, l))) if l != l0 => fail("from-archive-index-remove-changes-content", first_diff(&l0, &l), Some(bytes)),
                                Ok(Ok(_)) => {}
                                Ok(Err(e)) => fail("from-archive-index-remove-fails", e, None),
                                Err(p) => fail("from-archive-index-remove-fails", format!("panic: {p}"), None),
                            }
                        }
                    }
                    Ok(Err(e)) => fail("from-archive-index-add-fails", e, None),
                    Err(p) => fail("from-archive-index-add-fails", format!("panic: {p}"), None),
                }
            }
        }
        "root" => {
            let v = RootFile::parse(input).ok()?;
            label = format!("root:from_root_file({:?})", v.version);
            let recs = root_recs(&v);
            let l0 = root_logical_of(v.version, &recs);
            match catch(AssertUnwindSafe(|| RootBuilder::from_root_file(&v).build().map_err(es))) {
                Err(p) => fail("from-root-file-build-fails", format!("panic: {p}"), None),
                Ok(Err(e)) => fail("from-root-file-build-fails", e, None),
                Ok(Ok(b)) => match catch(AssertUnwindSafe(|| RootFile::parse(&b).map_err(es))) {
                    Ok(Ok(v2)) => {
                        let l = root_logical(&v2);
                        if l != l0 {
                            fail("from-root-file-changes-content", first_diff(&l0, &l), Some(b));
                        } else if b != rebuilt {
                            fail("from-root-file-bytes-differ", format!("from_root_file(v).build() writes {} bytes, v.build() {} bytes with the same content", b.len(), rebuilt.len()), Some(b));
                        }
                    }
                    Ok(Err(e)) => fail("from-root-file-not-parseable", e, Some(b)),
                    Err(p) => fail("from-root-file-not-parseable", format!("panic: {p}"), Some(b)),
                },
            }
            // add one record to an existing block — its FileDataID repeats one of the block, is a
            // neighbour of one, or an extreme — then remove that FileDataID again
            if !recs.is_empty() && fails.borrow().is_empty() {
                let base = recs[(h % recs.len() as u64) as usize];
                let (loc, cf) = (base.3, base.4);
                let named = v.version == RootVersion::V1 || cf & ContentFlags::NO_NAME_HASH == 0;
                let fd = match (h >> 8) % 6 {
                    0 | 1 => base.0,
                    2 => base.0.wrapping_add(1),
                    3 => base.0.wrapping_sub(1),
                    4 => 0,
                    _ => u32::MAX,
                };
                let mut ck = [0u8; 16];
                for (i, x) in ck.iter_mut().enumerate() {
                    *x = (h >> (8 * (i % 8))) as u8 ^ (i as u8).wrapping_mul(0x55);
                }
                let nh = if named { Some(h.rotate_left(17)) } else { None };
                let mut want = recs.clone();
                want.push((fd, ck, nh, loc, cf));
                let want_l = root_logical_of(v.version, &want);
                let step = catch(AssertUnwindSafe(|| {
                    let mut b = RootBuilder::from_root_file(&v);
                    b.add_file_with_hash(FileDataId::new(fd), ContentKey::from_bytes(ck), nh, LocaleFlags::new(loc), ContentFlags::new(cf));
                    let bytes = b.build().map_err(es)?;
                    if v2_window_recs(v.version, &want) {
                        return Ok(None);
                    }
                    let v2 = RootFile::parse(&bytes).map_err(|e| format!("parse: {e}"))?;
                    Ok::<_, String>(Some((bytes, v2)))
                }));
                match step {
                    Ok(Ok(None)) => {}
                    Ok(Ok(Some((bytes, v2)))) => {
                        let got_l = root_logical(&v2);
                        if got_l != want_l {
                            fail("from-root-file-add-changes-content", first_diff(&want_l, &got_l), Some(bytes));
                        } else {
                            let rest: Vec<RRec> = recs.iter().filter(|r| r.0 != fd).copied().collect();
                            if !rest.is_empty() {
                                let want_l = root_logical_of(v.version, &rest);
                                let back = catch(AssertUnwindSafe(|| {
                                    let mut b = RootBuilder::from_root_file(&v2);
                                    if !b.remove_file(FileDataId::new(fd)) {
                                        return Err("remove_file does not find the added FileDataID".to_string());
                                    }
                                    let bytes = b.build().map_err(es)?;
                                    if v2_window_recs(v.version, &rest) {
                                        return Ok(None);
                                    }
                                    let v3 = RootFile::parse(&bytes).map_err(|e| format!("parse: {e}"))?;
                                    Ok::<_, String>(Some((bytes, root_logical(&v3))))
                                }));
                                match back {
                                    Ok(Ok(Some((bytes, l)))) if l != want_l => fail("from-root-file-remove-changes-content", first_diff(&want_l, &l), Some(bytes)),
                                    Ok(Ok(_)) => {}
                                    Ok(Err(e)) => fail("from-root-file-remove-fails", e, None),
                                    Err(p) => fail("from-root-file-remove-fails", format!("panic: {p}"), None),
                                }
                            }
                        }
                    }
                    Ok(Err(e)) => fail("from-root-file-add-fails", e, None),
                    Err(p) => fail("from-root-file-add-fails", format!("panic: {p}"), None),
                }
            }
        }
        "install" => {
            let v = InstallManifest::parse(input).ok()?;
            label = format!("install:from_manifest(v{})", v.header.version);
            match catch(AssertUnwindSafe(|| InstallManifestBuilder::from_manifest(&v).build().map_err(es))) {
                Err(p) => fail("from-manifest-build-fails", format!("panic: {p}"), None),
                Ok(Err(e)) => fail("from-manifest-build-fails", e, None),
                Ok(Ok(x)) => match x.build().map_err(es) {
                    Err(e) => fail("from-manifest-not-serialisable", e, None),
                    Ok(b) => match catch(AssertUnwindSafe(|| InstallManifest::parse(&b).map_err(es))) {
                        Ok(Ok(v2)) => {
                            if v2 != v {
                                fail("from-manifest-changes-content", first_diff(&dbg(&v), &dbg(&v2)), Some(b));
                            }
                        }
                        Ok(Err(e)) => fail("from-manifest-not-parseable", e, Some(b)),
                        Err(p) => fail("from-manifest-not-parseable", format!("panic: {p}"), Some(b)),
                    },
                },
            }
        }
        "download" => {
            let v = DownloadManifest::parse(input).ok()?;
            label = format!("download:from_manifest(v{},cks={},fs={})", v.header.version(), v.header.has_checksum() as u8, v.header.flag_size());
            match catch(AssertUnwindSafe(|| DownloadManifestBuilder::from_manifest(&v).build().map_err(es))) {
                Err(p) => fail("from-manifest-build-fails", format!("panic: {p}"), None),
                Ok(Err(e)) => fail("from-manifest-build-fails", e, None),
                Ok(Ok(x)) => match x.build().map_err(es) {
                    Err(e) => fail("from-manifest-not-serialisable", e, None),
                    Ok(b) => match catch(AssertUnwindSafe(|| DownloadManifest::parse(&b).map_err(es))) {
                        Ok(Ok(v2)) => {
                            // the raw has_checksum byte (any non-zero value) is an encoding detail the
                            // builder normalises to 1: compared through the accessors
                            let (l0, l) = (dl_logical(&v), dl_logical(&v2));
                            if l != l0 {
                                fail("from-manifest-changes-content", first_diff(&l0, &l), Some(b));
                            }
                        }
                        Ok(Err(e)) => fail("from-manifest-not-parseable", e, Some(b)),
                        Err(p) => fail("from-manifest-not-parseable", format!("panic: {p}"), Some(b)),
                    },
                },
            }
        }
        "encoding" => {
            let v = <EncodingFile as CascFormat>::parse(input).ok()?;
            label = format!("encoding:from_encoding_file(cps={},eps={})", v.header.ckey_page_size_kb, v.header.ekey_page_size_kb);
            let l0 = enc_logical(&v);
            let round = |b: EncodingBuilder| -> Result<(Vec<u8>, EncodingFile), String> {
                let x = b.build().map_err(es)?;
                let bytes = CascFormat::build(&x).map_err(|e| format!("serialise: {e}"))?;
                let v2 = <EncodingFile as CascFormat>::parse(&bytes).map_err(|e| format!("parse: {e}"))?;
                Ok((bytes, v2))
            };
            match catch(AssertUnwindSafe(|| round(EncodingBuilder::from_encoding_file(&v)))) {
                Err(p) => fail("from-encoding-file-build-fails", format!("panic: {p}"), None),
                Ok(Err(e)) => fail("from-encoding-file-build-fails", e, None),
                Ok(Ok((b, v2))) => {
                    let l = enc_logical(&v2);
                    if l != l0 {
                        fail("from-encoding-file-changes-content", first_diff(&l0, &l), Some(b));
                    }
                }
            }
        }
        _ => return None,
    }
    Some((label, fails.into_inner()))
}

impl Ctx {
    /// evaluate the oracle on one input; `replay` reproduces it
    fn oracle(&mut self, fmt: &str, input: &[u8], replay: String, fixture_identity: bool) -> Option<Out> {
        if !FORMATS.contains(&fmt) {
            return None;
        }
        if !fixture_identity && !is_text(fmt) && !survives_parse(fmt, input) {
            self.s.tally(&format!("{fmt}:parse-abort(C02)"));
            return Some(Out { stage: Stage::ParsePanic, detail: "abort".into(), rebuilt: None, logical: None, field: None });
        }
        let out = run_fmt(fmt, input)?;
        self.s.tally(&format!(
            "{fmt}:{}",
            match &out.stage {
                Stage::Rejected => "rejected",
                Stage::ParsePanic => "parse-panic(C02)",
                Stage::Ok => "fixed-point",
                Stage::Fail(k) => k,
            }
        ));
        match &out.stage {
            Stage::Fail(k) => {
                let sig = shape(fmt, k, input, &out);
                self.s.oracle_fail(&sig, &format!("{fmt}: accepted input ({} bytes) — {k}: {}", input.len(), out.detail.chars().take(400).collect::<String>()), &[replay]);
            }
            Stage::Ok => {
                // builder-as-mutator constructors on the accepted value
                if let Some((label, fails)) = from_ctor(fmt, input, out.rebuilt.as_deref().unwrap_or(&[])) {
                    self.s.tally(&format!("{label}:{}", if fails.is_empty() { "same-content" } else { "differs" }));
                    for (step, detail, bytes) in fails {
                        let o2 = Out { stage: Stage::Ok, detail: detail.clone(), rebuilt: bytes, logical: None, field: None };
                        let sig = shape(fmt, &step, input, &o2);
                        self.s.oracle_fail(&sig, &format!("{fmt}: accepted input ({} bytes) — {step}: {}", input.len(), detail.chars().take(400).collect::<String>()), &[replay.clone()]);
                    }
                }
                if fixture_identity && out.rebuilt.as_deref() != Some(input) {
                    let rb = out.rebuilt.as_deref().unwrap_or(&[]);
                    let at = rb.iter().zip(input.iter()).position(|(a, b)| a != b).unwrap_or(rb.len().min(input.len()));
                    self.s.oracle_fail(&format!("{fmt}-cdn-fixture-not-byte-identical"), &format!("real CDN fixture: rebuilt {} bytes vs {} bytes, first difference at {at}", rb.len(), input.len()), &[replay]);
                    self.s.tally(&format!("{fmt}:fixture-bytes-differ"));
                } else if fixture_identity {
                    self.s.tally(&format!("{fmt}:fixture-byte-identical(test)"));
                }
            }
            _ => {}
        }
        Some(out)
    }

    fn count(&mut self, fmt: &str, input: &[u8], out: &Out) {
        let nontrivial = matches!(out.stage, Stage::Ok | Stage::Fail(_));
        if nontrivial {
            self.s.case(Some(&format!("{fmt}:{:016x}:{}", fnv64(input), input.len())));
        } else {
            self.s.case(None);
        }
    }

    /// oracle-only request with inline bytes
    fn o_inline(&mut self, fmt: &str, input: &[u8]) -> bool {
        let req = format!("o {fmt} {}", hex(input));
        match self.oracle(fmt, input, req.clone(), false) {
            Some(out) => {
                self.s.line(&req, "-");
                self.count(fmt, input, &out);
                out.stage == Stage::Ok
            }
            None => {
                self.s.line(&req, "bad-op");
                false
            }
        }
    }

    /// oracle-only request: fixture + mutation list
    fn o_fixture(&mut self, idx: usize, ms: &[Mut]) {
        let (fmt, rel, base) = self.fixtures[idx].clone();
        let input = apply_muts(&base, ms);
        let req = format!("of {fmt} {rel} {}", muts_text(ms));
        if let Some(out) = self.oracle(&fmt, &input, req.clone(), ms.is_empty()) {
            self.s.line(&req, "-");
            self.count(&fmt, &input, &out);
        } else {
            self.s.line(&req, "bad-op");
        }
    }

    /// modelled request: response carries the whole pipeline outcome
    fn m_line(&mut self, fmt: &str, input: &[u8]) {
        let req = format!("m {fmt} {}", hex(input));
        let resp = self.m_resp(fmt, input, &req);
        self.s.line(&req, &resp);
    }

    fn m_resp(&mut self, fmt: &str, input: &[u8], req: &str) -> String {
        let mfmt = match fmt {
            "inst" => "install",
            "dl" => "download",
            "size" => "size",
            "zbs" => "zbsdiff",
            "pidx" => "pindex",
            "root" => "root",
            _ => return "bad-op".into(),
        };
        let Some(out) = self.oracle(mfmt, input, req.to_string(), false) else { return "bad-op".into() };
        self.count(mfmt, input, &out);
        let summary = match fmt {
            "inst" => InstallManifest::parse(input).ok().map(|m| format!("v={} t={} e={}", m.header.version, m.tags.len(), m.entries.len())),
            "dl" => DownloadManifest::parse(input).ok().map(|m| format!("v={} e={} t={}", m.header.version(), m.entries.len(), m.tags.len())),
            "size" => SizeManifest::parse(input).ok().map(|m| format!("v={} e={} t={} total={}", m.header.version(), m.entries.len(), m.tags.len(), m.header.total_size())),
            "root" => RootFile::parse(input).ok().map(|r| format!("v={} b={} r={}", ver_num(r.version), r.blocks.len(), r.blocks.iter().map(|b| b.records.len()).sum::<usize>())),
            "pidx" => <PatchIndex as CascFormat>::parse(input).ok().map(|p| {
                let h = &p.header;
                let bt: Vec<String> = h.blocks.iter().map(|b| format!("{}:{}", b.block_type, b.block_size)).collect();
                format!(
                    "hs={} ds={} xk={} kd={} xd={} bt=[{}] ks={} e={}",
                    h.header_size,
                    h.data_size,
                    h.key_size,
                    hex(&h.key_data[..(h.key_size as usize).min(16)]),
                    h.extra_data.len(),
                    bt.join(","),
                    p.key_size,
                    p.entries.len()
                )
            }),
            _ => ZbsDiff::parse(input).ok().map(|z| format!("c={} d={} o={} x={}", z.header.control_size, z.header.diff_size, z.header.output_size, z.extra_data.len())),
        };
        match (&out.stage, summary) {
            (Stage::Rejected, _) => "err".into(),
            (Stage::ParsePanic, _) => "panic".into(),
            (_, None) => "err".into(),
            (Stage::Ok, Some(sm)) => {
                let rb = out.rebuilt.as_deref().unwrap_or(&[]);
                format!("ok {sm} n={} h={:016x} fp=ok", rb.len(), fnv64(rb))
            }
            (Stage::Fail(k), Some(sm)) => match &out.rebuilt {
                Some(rb) => format!("ok {sm} n={} h={:016x} fp={k}", rb.len(), fnv64(rb)),
                None => format!("ok {sm} fp={k}"),
            },
        }
    }

    /// `rp`: RootBuilder on a program. K: the built bytes (length + hash) against the model.
    /// O (builder form): the parsed records are the program's records — as a multiset with the
    /// flags of their blocks; a FileDataID added twice to one block must come back twice.
    fn rp_resp(&mut self, ver: RootVersion, recs: &[RRec], req: &str) -> (String, Option<Vec<u8>>) {
        let built = catch(AssertUnwindSafe(|| {
            let mut b = RootBuilder::new(ver);
            for r in recs {
                b.add_file_with_hash(FileDataId::new(r.0), ContentKey::from_bytes(r.1), r.2, LocaleFlags::new(r.3), ContentFlags::new(r.4));
            }
            b.build().map_err(es)
        }));
        let bytes = match built {
            Err(_) => {
                self.s.case(None);
                self.s.oracle_fail("root-builder-panics", &format!("RootBuilder({ver:?}) panics on a program of {} records", recs.len()), &[req.to_string()]);
                return ("panic".into(), None);
            }
            Ok(Err(e)) => {
                self.s.case(None);
                if !recs.is_empty() {
                    self.s.oracle_fail("root-builder-refuses", &format!("RootBuilder({ver:?}) refuses a program of {} records: {e}", recs.len()), &[req.to_string()]);
                }
                return ("err".into(), None);
            }
            Ok(Ok(b)) => b,
        };
        // shape of the program, for the tally and the sig
        let mut seen = std::collections::BTreeSet::new();
        let repeated = recs.iter().any(|r| !seen.insert((r.0, r.3, r.4)));
        let sorted_in = recs.windows(2).all(|w| w[0].0 <= w[1].0);
        let shape = if repeated { "repeated-fdid-in-block" } else if !sorted_in { "unsorted-insertion" } else { "increasing-fdids" };
        self.s.tally(&format!("root:program:{:?}:{shape}", ver));
        self.s.case(Some(&format!("rp:{:016x}:{}", fnv64(req.as_bytes()), recs.len())));
        if v2_window_recs(ver, recs) {
            // known finding (V2 small-header window): reported on the bytes' own line
            self.s.tally("root:program:v2-small-header-window");
        } else {
            match catch(AssertUnwindSafe(|| RootFile::parse(&bytes))) {
                Ok(Ok(v)) => {
                    let (want, got) = (root_logical_of(ver, recs), root_logical(&v));
                    if want != got {
                        let at = want.bytes().zip(got.bytes()).position(|(a, b)| a != b).unwrap_or(want.len().min(got.len()));
                        let cut = |s: &str| s.chars().skip(at.saturating_sub(40)).take(120).collect::<String>();
                        self.s.oracle_fail(
                            &format!("root-builder-value-differs-{shape}"),
                            &format!("RootBuilder({ver:?}) program of {} records: parse(build) has other records — program …{}… parsed …{}…", recs.len(), cut(&want), cut(&got)),
                            &[req.to_string()],
                        );
                        self.s.tally("root:builder-value-differs");
                    } else {
                        self.s.tally("root:builder-value-eq");
                    }
                }
                // a rejected builder output is reported by the builder-form check on the bytes
                _ => self.s.tally("root:program:output-rejected"),
            }
        }
        (format!("ok n={} h={:016x}", bytes.len(), fnv64(&bytes)), Some(bytes))
    }

    /// `ap`: ArchiveIndexBuilder::with_config(ks, ob, 4) on a program -> build -> parse ->
    /// from_archive_index -> build -> parse. K: the entries read back at the end against the model.
    /// O: the first parse gives the program's entries under the chosen layout (builder form), the
    /// builder loaded from the parsed index writes the same bytes, the second parse the same content.
    fn ap_resp(&mut self, ks: u8, ob: u8, ents: &[(Vec<u8>, u32, u64)], req: &str) -> (String, Option<Vec<u8>>) {
        let run = catch(AssertUnwindSafe(|| {
            let mut b = ArchiveIndexBuilder::with_config(ks, ob, 4);
            for (k, sz, off) in ents {
                b.add_entry(k.clone(), *sz, *off);
            }
            let b1 = aidx_builder_bytes(b).map_err(|e| ("build", e, None))?;
            let v1 = aidx_parse(&b1).map_err(|e| ("parse", e, Some(b1.clone())))?;
            let b2 = aidx_builder_bytes(ArchiveIndexBuilder::from_archive_index(&v1)).map_err(|e| ("from-archive-index-build", e, Some(b1.clone())))?;
            let v2 = aidx_parse(&b2).map_err(|e| ("from-archive-index-parse", e, Some(b1.clone())))?;
            Ok::<_, (&str, String, Option<Vec<u8>>)>((b1, v1, b2, v2))
        }));
        let o = |bytes: Option<Vec<u8>>, detail: &str| Out { stage: Stage::Ok, detail: detail.to_string(), rebuilt: bytes, logical: None, field: None };
        self.s.tally(&format!("aidx:program(ks={ks},ob={ob})"));
        match run {
            Err(p) => {
                self.s.case(None);
                self.s.oracle_fail("aidx-program-panics", &format!("archive index program (ks {ks}, offset bytes {ob}, {} entries) panics: {p}", ents.len()), &[req.to_string()]);
                ("panic".into(), None)
            }
            Ok(Err((step, e, bytes))) => {
                self.s.case(None);
                let b = bytes.clone().unwrap_or_default();
                let sig = shape("aidx", &format!("program-{step}-fails"), &b, &o(None, &e));
                self.s.oracle_fail(&sig, &format!("archive index program (ks {ks}, offset bytes {ob}, {} entries): {step} fails: {e}", ents.len()), &[req.to_string()]);
                ("err".into(), bytes)
            }
            Ok(Ok((b1, v1, b2, v2))) => {
                self.s.case(Some(&format!("ap:{:016x}:{}", fnv64(req.as_bytes()), ents.len())));
                // expected: the program's entries, sorted by key (stable), values in the layout's widths
                let mut want: Vec<IndexEntry> = ents
                    .iter()
                    .map(|(k, sz, off)| IndexEntry { encoding_key: k.clone(), size: *sz, offset: if ob == 6 { off & 0xFFFF_FFFF } else { *off }, archive_index: if ob == 6 { Some((off >> 32) as u16) } else { None } })
                    .collect();
                want.sort();
                let want_l = format!("ks={ks} ob={ob} sb=4 hb=8 n={} entries={}", want.len(), want.iter().map(aidx_entry_str).collect::<Vec<_>>().join(";"));
                let (l1, l2) = (aidx_logical(&v1), aidx_logical(&v2));
                let diff = |a: &str, b: &str| {
                    let at = a.bytes().zip(b.bytes()).position(|(x, y)| x != y).unwrap_or(a.len().min(b.len()));
                    let cut = |s: &str| s.chars().skip(at.saturating_sub(40)).take(110).collect::<String>();
                    format!("want …{}… got …{}…", cut(a), cut(b))
                };
                if l1 != want_l {
                    let sig = shape("aidx", "builder-value-differs", &b1, &o(None, ""));
                    self.s.oracle_fail(&sig, &format!("archive index program (ks {ks}, offset bytes {ob}, {} entries): parse(build) is not the program: {}", ents.len(), diff(&want_l, &l1)), &[req.to_string()]);
                } else if l2 != l1 {
                    let sig = shape("aidx", "from-archive-index-changes-content", &b1, &o(None, ""));
                    self.s.oracle_fail(&sig, &format!("archive index program (ks {ks}, offset bytes {ob}, {} entries): from_archive_index -> build -> parse: {}", ents.len(), diff(&l1, &l2)), &[req.to_string()]);
                } else if b2 != b1 {
                    let sig = shape("aidx", "from-archive-index-bytes-differ", &b1, &o(None, ""));
                    self.s.oracle_fail(&sig, &format!("archive index program (ks {ks}, offset bytes {ob}, {} entries): the builder loaded from its own parsed output writes other bytes ({} / {})", ents.len(), b2.len(), b1.len()), &[req.to_string()]);
                } else {
                    self.s.tally("aidx:program:from_archive_index-byte-identical");
                }
                let listing = v2.entries.iter().map(|e| format!("{}:{}:{}:{}", hex(&e.encoding_key), e.size, e.offset, e.archive_index.map_or("-".to_string(), |a| a.to_string()))).collect::<Vec<_>>().join(";");
                (format!("ok n={} h={:016x}", v2.entries.len(), fnv64(listing.as_bytes())), Some(b1))
            }
        }
    }

    fn run_req(&mut self, line: &str) {
        let toks: Vec<&str> = line.split(' ').filter(|t| !t.is_empty()).collect();
        match toks.as_slice() {
            ["m", fmt, h] => match unhex(h) {
                Some(b) => {
                    let r = self.m_resp(fmt, &b, line);
                    self.s.line(line, &r);
                }
                None => self.s.line(line, "bad-op"),
            },
            ["tv", n, h] => match (n.parse::<u32>().ok(), unhex(h)) {
                (Some(cft), Some(b)) => {
                    let r = tv_resp(cft, &b);
                    let key = format!("tv:{cft}:{:016x}", fnv64(&b));
                    self.s.case(if r.starts_with("ok") && b.len() > 1 { Some(&key) } else { None });
                    self.s.line(line, &r);
                }
                _ => self.s.line(line, "bad-op"),
            },
            ["tc", f, h] => match (f.parse::<u32>().ok().filter(|f| *f < 2), unhex(h)) {
                (Some(fl), Some(b)) => {
                    let r = tc_resp(fl, &b);
                    self.s.case(None);
                    self.s.line(line, &r);
                }
                _ => self.s.line(line, "bad-op"),
            },
            ["rp", ver, recs] => match (ver_of(ver), parse_rrecs(recs)) {
                (Some(ver), Some(recs)) => {
                    let (r, _) = self.rp_resp(ver, &recs, line);
                    self.s.line(line, &r);
                }
                _ => self.s.line(line, "bad-op"),
            },
            ["ap", ks, ob, ents] => match (ks.parse::<u8>().ok(), ob.parse::<u8>().ok(), parse_aents(ents)) {
                (Some(ks), Some(ob), Some(ents)) if (1..=16).contains(&ks) && (4..=6).contains(&ob) && ents.iter().all(|e| e.0.len() == ks as usize) => {
                    let (r, _) = self.ap_resp(ks, ob, &ents, line);
                    self.s.line(line, &r);
                }
                _ => self.s.line(line, "bad-op"),
            },
            ["bp", fmt, rest @ ..] => {
                let r = self.bp_resp(fmt, rest, line);
                self.s.line(line, &r);
            }
            ["o", fmt, h] => match unhex(h) {
                Some(b) if FORMATS.contains(fmt) => {
                    if let Some(out) = self.oracle(fmt, &b, line.to_string(), false) {
                        self.count(fmt, &b, &out);
                    }
                    self.s.line(line, "-");
                }
                _ => self.s.line(line, "bad-op"),
            },
            ["of", fmt, rel, ms] => {
                let base = if rel.contains("..") { None } else { std::fs::read(format!("{FIX}/{rel}")).ok() };
                match (base, parse_muts(ms)) {
                    (Some(base), Some(ms)) if FORMATS.contains(fmt) => {
                        let input = apply_muts(&base, &ms);
                        if let Some(out) = self.oracle(fmt, &input, line.to_string(), ms.is_empty()) {
                            self.count(fmt, &input, &out);
                        }
                        self.s.line(line, "-");
                    }
                    _ => self.s.line(line, "bad-op"),
                }
            }
            _ => self.s.line(line, "bad-op"),
        }
    }
}

/// `VfsTable::parse` under a header whose container-table size is `cft` (the width of every
/// cft-offset field is a function of that size)
fn tv_resp(cft: u32, data: &[u8]) -> String {
    let mut h = TvfsHeader::new(0);
    h.cft_table_size = cft;
    match catch(AssertUnwindSafe(|| VfsTable::parse(data, &h))) {
        Err(_) => "panic".into(),
        Ok(Err(_)) => "err".into(),
        Ok(Ok(t)) => {
            let es: Vec<String> = t
                .entries
                .iter()
                .map(|e| format!("{}:{}", e.offset, e.spans.iter().map(|s| format!("{}/{}/{}", s.file_offset, s.span_length, s.cft_offset)).collect::<Vec<_>>().join(",")))
                .collect();
            format!("ok e={} {}", es.len(), es.join(";"))
        }
    }
}

/// `ContainerFileTable::parse` then `build`: entry count and rebuilt size (slack is dropped)
fn tc_resp(flags: u32, data: &[u8]) -> String {
    let mut h = TvfsHeader::new(flags);
    h.cft_table_size = data.len() as u32;
    match catch(AssertUnwindSafe(|| ContainerFileTable::parse(data, &h).map(|t| (t.entries.len(), t.build(&h).len())))) {
        Err(_) => "panic".into(),
        Ok(Err(_)) => "err".into(),
        Ok(Ok((n, l))) => format!("ok n={n} rebuilt={l}"),
    }
}

// ---------------------------------------------------------------------------------------------
// builder programs

fn ver_of(t: &str) -> Option<RootVersion> {
    Some(match t {
        "1" => RootVersion::V1,
        "2" => RootVersion::V2,
        "3" => RootVersion::V3,
        "4" => RootVersion::V4,
        _ => return None,
    })
}

fn ver_num(v: RootVersion) -> u32 {
    match v {
        RootVersion::V1 => 1,
        RootVersion::V2 => 2,
        RootVersion::V3 => 3,
        RootVersion::V4 => 4,
    }
}

fn rrecs_text(recs: &[RRec]) -> String {
    if recs.is_empty() {
        return "-".into();
    }
    recs.iter().map(|r| format!("{},{},{},{},{}", r.0, hex(&r.1), r.2.map_or("-".to_string(), |h| h.to_string()), r.3, r.4)).collect::<Vec<_>>().join(";")
}

fn parse_rrecs(t: &str) -> Option<Vec<RRec>> {
    if t == "-" {
        return Some(vec![]);
    }
    let mut v = vec![];
    for part in t.split(';') {
        let f: Vec<&str> = part.split(',').collect();
        let [fd, ck, nh, loc, cf] = f.as_slice() else { return None };
        let ck: [u8; 16] = unhex(ck)?.try_into().ok()?;
        let nh = if *nh == "-" { None } else { Some(nh.parse::<u64>().ok()?) };
        v.push((fd.parse().ok()?, ck, nh, loc.parse().ok()?, cf.parse().ok()?));
    }
    Some(v)
}

fn aents_text(ents: &[(Vec<u8>, u32, u64)]) -> String {
    if ents.is_empty() {
        return "-".into();
    }
    ents.iter().map(|(k, s, o)| format!("{},{s},{o}", hex(k))).collect::<Vec<_>>().join(";")
}

fn parse_aents(t: &str) -> Option<Vec<(Vec<u8>, u32, u64)>> {
    if t == "-" {
        return Some(vec![]);
    }
    let mut v = vec![];
    for part in t.split(';') {
        let f: Vec<&str> = part.split(',').collect();
        let [k, s, o] = f.as_slice() else { return None };
        v.push((unhex(k)?, s.parse().ok()?, o.parse().ok()?));
    }
    Some(v)
}

fn k16(rng: &mut Rng) -> [u8; 16] {
    let mut k = [0u8; 16];
    match rng.below(12) {
        0 => {}
        1 => k = [0xFF; 16],
        _ => {
            for b in &mut k {
                *b = rng.byte();
            }
        }
    }
    k
}

fn name(rng: &mut Rng, max: usize) -> String {
    let n = rng.range(1, max as u64) as usize;
    (0..n)
        .map(|_| match rng.below(40) {
            0 => 'é',
            1 => ' ',
            2 => '\\',
            3 => '/',
            4 => '.',
            _ => (b'a' + rng.below(26) as u8) as char,
        })
        .collect()
}

const TAG_TYPES: &[TagType] = &[TagType::Platform, TagType::Architecture, TagType::Locale, TagType::Category, TagType::Unknown, TagType::Component, TagType::Version];

fn gen_install(rng: &mut Rng) -> Option<(InstallManifest, Vec<u8>)> {
    let mut b = InstallManifestBuilder::new();
    let nt = rng.below(5);
    let nf = *rng.pick(&[0u64, 1, 2, 7, 8, 9, 16, 17, 20]);
    for i in 0..nt {
        b = b.add_tag(format!("{}{i}", name(rng, 6)), *rng.pick(TAG_TYPES));
    }
    for _ in 0..nf {
        b = b.add_file(name(rng, 24), ContentKey::from_bytes(k16(rng)), *rng.pick(&[0u32, 1, 255, 256, 65536, u32::MAX, 12345]));
    }
    for f in 0..nf as usize {
        for t in 0..nt as usize {
            if rng.chance(1, 3) {
                b = b.associate_file_with_tag_by_index(f, t).ok()?;
            }
        }
    }
    let m = b.build().ok()?;
    let bytes = m.build().ok()?;
    Some((m, bytes))
}

fn gen_download(rng: &mut Rng) -> Option<(DownloadManifest, Vec<u8>)> {
    let ver = rng.range(1, 3) as u8;
    let mut b = DownloadManifestBuilder::new(ver).ok()?;
    let cks = rng.chance(1, 2);
    b = b.with_checksums(cks);
    let fs = if ver >= 2 { rng.below(5) as u8 } else { 0 };
    if fs > 0 {
        b = b.with_flags(fs).ok()?;
    }
    if ver >= 3 && rng.chance(1, 2) {
        b = b.with_base_priority(*rng.pick(&[-128i8, -1, 1, 5, 127])).ok()?;
    }
    let nt = rng.below(4);
    let nf = *rng.pick(&[0u64, 1, 2, 7, 8, 9, 16, 17]);
    for _ in 0..nf {
        b = b.add_file(EncodingKey::from_bytes(k16(rng)), *rng.pick(&[0u64, 1, 0xFFFF_FFFF, 0x1_0000_0000, 0xFF_FFFF_FFFF, 777]), *rng.pick(&[-128i8, -1, 0, 1, 2, 5, 127])).ok()?;
    }
    for i in 0..nt {
        b = b.add_tag(format!("{}{i}", name(rng, 6)), *rng.pick(TAG_TYPES));
    }
    for f in 0..nf as usize {
        if cks {
            b = b.set_file_checksum(f, rng.next() as u32).ok()?;
        }
        if fs > 0 && rng.chance(1, 2) {
            b = b.set_file_flags(f, rng.bytes(fs as usize)).ok()?;
        }
    }
    let m = b.build().ok()?;
    let bytes = m.build().ok()?;
    Some((m, bytes))
}

/// size manifests: builder with in-range values (the builder accepts esizes wider than the
/// field; those are generated separately as `size-builder-overwide`)
fn gen_size(rng: &mut Rng, overwide: bool) -> Option<Result<(SizeManifest, Vec<u8>), String>> {
    let ver = rng.range(1, 2) as u8;
    let ks = *rng.pick(&[1u8, 9, 16, 5]);
    let w = if ver == 1 { *rng.pick(&[1u8, 2, 4, 5, 8]) } else { 4 };
    let mut b = SizeManifestBuilder::new().version(ver).ekey_size(ks);
    if ver == 1 {
        b = b.esize_bytes(w);
    }
    let nf = *rng.pick(&[0u64, 1, 2, 7, 8, 9, 17]);
    let cap: u64 = if w >= 8 { u64::MAX / 64 } else { (1u64 << (8 * w as u32)) - 1 };
    for i in 0..nf {
        let mut e = match rng.below(4) {
            0 => 0,
            1 => cap,
            _ => rng.next() % (cap + 1).max(1),
        };
        if overwide && i == 0 && w < 8 {
            e = cap + 1 + rng.below(1000);
        }
        b = b.add_entry(rng.bytes(ks as usize), e);
    }
    let nt = rng.below(3);
    for i in 0..nt {
        b = b.add_tag(format!("{}{i}", name(rng, 5)), *rng.pick(TAG_TYPES));
        for f in 0..nf as usize {
            if rng.chance(1, 3) {
                b = b.tag_file(i as usize, f);
            }
        }
    }
    let m = b.build().ok()?;
    Some(m.build().map(|bytes| (m, bytes)).map_err(es))
}

fn gen_zbs(rng: &mut Rng) -> Option<Vec<u8>> {
    let old = gens::payload(rng, 300);
    let mut new = old.clone();
    for _ in 0..rng.below(4) {
        if new.is_empty() || rng.chance(1, 3) {
            let at = rng.below(new.len() as u64 + 1) as usize;
            let k = rng.range(1, 20) as usize;
            let ins = rng.bytes(k);
            new.splice(at..at, ins);
        } else {
            let at = rng.below(new.len() as u64) as usize;
            new[at] ^= 0x55;
        }
    }
    let b = ZbsdiffBuilder::new(old, new);
    match rng.below(3) {
        0 => b.build_simple_patch().ok(),
        1 => b.build_chunked_patch().ok(),
        _ => b.build().ok(),
    }
}

fn gen_blte(rng: &mut Rng) -> Option<Vec<u8>> {
    let data = gens::payload(rng, 400);
    let mode = *rng.pick(&[CompressionMode::None, CompressionMode::ZLib, CompressionMode::LZ4]);
    let f = if rng.chance(1, 2) {
        BlteFile::compress(&data, *rng.pick(&[16usize, 64, 100, 1000]), mode).ok()?
    } else {
        let mut b = BlteBuilder::new().with_compression(mode).with_chunk_size(*rng.pick(&[16usize, 64, 1000])).ok()?;
        for _ in 0..rng.range(1, 3) {
            b = b.add_data(&gens::payload(rng, 200)).ok()?;
        }
        b.build().ok()?
    };
    CascFormat::build(&f).ok()
}

fn gen_encoding(rng: &mut Rng) -> Option<Vec<u8>> {
    // CKey and EKey page sizes differ in most programs (a rebuild that swaps them is visible)
    let (cps, eps) = *rng.pick(&[(1u16, 1u16), (1, 2), (2, 1), (4, 1), (1, 4), (2, 4)]);
    let mut b = EncodingBuilder::new().with_page_sizes(cps, eps);
    let n = rng.range(1, 60);
    let especs = ["n", "z", "b:{256K*=z}", "b:{164=z,16K*565=z,1656=z}"];
    for i in 0..n {
        let ek = EncodingKey::from_bytes(k16(rng));
        let mut eks = vec![ek];
        if rng.chance(1, 6) {
            eks.push(EncodingKey::from_bytes(k16(rng)));
        }
        let mut ck = k16(rng);
        ck[0] = (i * 4) as u8;
        b.add_ckey_entry(CKeyEntryData { content_key: ContentKey::from_bytes(ck), file_size: rng.next() % (1u64 << 40), encoding_keys: eks });
        let mut ekb = *ek.as_bytes();
        ekb[0] |= 1; // keep away from the all-zero padding sentinel (C03 finding)
        b.add_ekey_entry(EKeyEntryData { encoding_key: EncodingKey::from_bytes(ekb), espec: rng.pick(&especs).to_string(), file_size: rng.next() % (1u64 << 40) });
    }
    let f = b.build().ok()?;
    f.build().ok()
}

fn gen_agroup(rng: &mut Rng) -> Option<Vec<u8>> {
    let n = *rng.pick(&[1u64, 2, 50, 156, 157, 158, 314, 315]);
    let mut out = Vec::new();
    let mut b = ArchiveGroupBuilder::new();
    for i in 0..n {
        let mut k = k16(rng).to_vec();
        k[0] = (i % 250) as u8 + 1;
        b.add_entry(ArchiveGroupEntry::new(k, rng.below(500) as u16, rng.next() as u32, rng.next() as u32 | 1));
    }
    b.build(Cursor::new(&mut out)).ok()?;
    Some(out)
}

/// archive-index builder program: every record layout the parser accepts (key size 1..16, offset
/// width 4 / 5 / 6 bytes), entry counts around the page capacity of THAT layout, locations at the
/// boundaries of the offset width (a 5-byte offset above 4 GiB, a 6-byte location with a non-zero
/// archive index)
fn gen_aidx_program(rng: &mut Rng) -> (u8, u8, Vec<(Vec<u8>, u32, u64)>) {
    let ks = *rng.pick(&[16u8, 16, 16, 9, 9, 12, 4, 2]);
    let ob = *rng.pick(&[4u8, 5, 5, 6, 6]);
    let cap = 4096 / (ks as u64 + 4 + ob as u64);
    let n = match rng.below(9) {
        0 => 1,
        1 => 2,
        2 => 50,
        3 => cap - 1,
        4 => cap,
        5 => cap + 1,
        6 => 2 * cap,
        7 => 2 * cap + 1,
        _ => rng.range(3, 40),
    };
    let top: u64 = 1u64 << (8 * ob as u32);
    let mut ents = vec![];
    for i in 0..n {
        let mut k = rng.bytes(ks as usize);
        // distinct, non-zero keys: a counter in the leading bytes
        k[0] = ((i + 1) >> 8) as u8;
        k[1] = (i + 1) as u8;
        let off = match rng.below(8) {
            0 => 0,
            1 => top - 1,
            2 => top / 2,
            3 => 0xFFFF_FFFF,
            4 if ob > 4 => 0x1_0000_0000 + i * 4096,
            5 if ob > 4 => 0x1_0000_0000,
            _ => rng.next() % top,
        };
        ents.push((k, rng.next() as u32 | 1, off));
    }
    // insertion order: the builder sorts
    for i in (1..ents.len()).rev() {
        let j = rng.below(i as u64 + 1) as usize;
        ents.swap(i, j);
    }
    (ks, ob, ents)
}

const ROOT_VERSIONS: [RootVersion; 4] = [RootVersion::V1, RootVersion::V2, RootVersion::V3, RootVersion::V4];

/// root builder program. FileDataIDs: strictly increasing (the shape of CDN files), or with the
/// same ID added twice to one block (two content keys for one ID — the builder does not
/// de-duplicate), neighbours (delta 0), all equal, inserted in decreasing / random order, and the
/// ends of the u32 range; V1–V4, 1–3 blocks, named / unnamed.
fn gen_root_program(rng: &mut Rng) -> (RootVersion, Vec<RRec>) {
    let ver = *rng.pick(&ROOT_VERSIONS);
    let named = rng.chance(1, 2);
    let nblocks = rng.range(1, 3) as usize;
    let n = *rng.pick(&[1u64, 2, 3, 5, 15, 16, 17, 30, 99, 100, 101, 120]) as usize;
    let shape = rng.below(9);
    let mut fds: Vec<u32> = vec![];
    let mut fd = rng.below(1000) as u32;
    let edges = [0u32, 1, u32::MAX, u32::MAX - 1, 0x8000_0000, 0x7FFF_FFFF, 0xFFFF_FF00];
    for i in 0..n {
        match shape {
            0 | 1 => fd += rng.range(1, 5) as u32,           // strictly increasing
            2 => fd += rng.below(3) as u32,                  // repeats and neighbours
            3 => {}                                          // all equal
            4 => fd = 1000 + rng.below(n as u64 / 2 + 1) as u32, // random order, many repeats
            5 => fd = *rng.pick(&edges),                     // ends of the range, repeated
            6 => fd = 5000 - 3 * i as u32,                   // decreasing insertion order
            7 => {
                if i % 2 == 0 {
                    fd += rng.range(1, 200) as u32; // pairs: every ID twice
                }
            }
            _ => fd = if rng.chance(1, 3) { *rng.pick(&edges) } else { fd.wrapping_add(rng.below(4) as u32) },
        }
        fds.push(fd);
    }
    let locs = [LocaleFlags::ENUS, LocaleFlags::DEDE, LocaleFlags::ENUS | LocaleFlags::FRFR];
    let mut recs = vec![];
    for (i, fd) in fds.iter().enumerate() {
        // increasing shapes spread round-robin (as before); the others keep runs of equal / close
        // IDs together in one block
        let blk = if shape <= 1 { i % nblocks } else if shape == 7 { (i / 2) % nblocks } else { rng.below(nblocks as u64) as usize };
        let mut cf = [0u64, 0x8, 0x80][blk];
        if ver == RootVersion::V4 && blk == 1 {
            cf |= 1 << 33; // 40-bit content flags
        }
        let nh = if ver == RootVersion::V1 || named { Some(rng.next()) } else { None };
        if ver != RootVersion::V1 && !named {
            cf |= ContentFlags::NO_NAME_HASH;
        }
        recs.push((*fd, k16(rng), nh, locs[blk], cf));
    }
    (ver, recs)
}

/// hand-framed root file: `blocks` = (locale, content flags, [(delta, content key, name hash)]);
/// the FileDataID column is written as the DELTAS given (not derived from IDs)
fn frame_root(ver: RootVersion, blocks: &[(u32, u64, Vec<(u32, [u8; 16], u64)>)]) -> Vec<u8> {
    let named_block = |cf: u64| ver == RootVersion::V1 || cf & ContentFlags::NO_NAME_HASH == 0;
    let total: u32 = blocks.iter().map(|b| b.2.len() as u32).sum();
    let named: u32 = blocks.iter().filter(|b| named_block(b.1)).map(|b| b.2.len() as u32).sum();
    let mut d: Vec<u8> = vec![];
    match ver {
        RootVersion::V1 => {}
        RootVersion::V2 => {
            d.extend_from_slice(b"TSFM");
            d.extend_from_slice(&total.to_le_bytes());
            d.extend_from_slice(&named.to_le_bytes());
        }
        RootVersion::V3 | RootVersion::V4 => {
            d.extend_from_slice(b"TSFM");
            d.extend_from_slice(&20u32.to_le_bytes());
            d.extend_from_slice(&(if ver == RootVersion::V3 { 3u32 } else { 4 }).to_le_bytes());
            d.extend_from_slice(&total.to_le_bytes());
            d.extend_from_slice(&named.to_le_bytes());
        }
    }
    for (loc, cf, recs) in blocks {
        let n = recs.len() as u32;
        d.extend_from_slice(&n.to_le_bytes());
        match ver {
            RootVersion::V1 => {
                d.extend_from_slice(&(*cf as u32).to_le_bytes());
                d.extend_from_slice(&loc.to_le_bytes());
            }
            RootVersion::V2 | RootVersion::V3 => {
                d.extend_from_slice(&loc.to_le_bytes());
                d.extend_from_slice(&(*cf as u32).to_le_bytes());
                d.extend_from_slice(&[0u8; 5]);
            }
            RootVersion::V4 => {
                d.extend_from_slice(&loc.to_le_bytes());
                d.extend_from_slice(&(*cf as u32).to_le_bytes());
                d.push((*cf >> 32) as u8);
                d.extend_from_slice(&[0u8; 5]);
            }
        }
        for r in recs {
            d.extend_from_slice(&r.0.to_le_bytes());
        }
        if ver == RootVersion::V1 {
            for r in recs {
                d.extend_from_slice(&r.1);
                d.extend_from_slice(&r.2.to_le_bytes());
            }
        } else {
            for r in recs {
                d.extend_from_slice(&r.1);
            }
            if named_block(*cf) {
                for r in recs {
                    d.extend_from_slice(&r.2.to_le_bytes());
                }
            }
        }
    }
    d
}

fn gen_tvfs(rng: &mut Rng) -> Option<Vec<u8>> {
    let flags = *rng.pick(&[0u32, 1, 1, 3, 7, 5]);
    let mut b = TvfsBuilder::with_flags(flags);
    if flags & 2 != 0 {
        for s in ["n", "z", "b:{256K*=z}"] {
            b.add_est_spec(s.to_string());
        }
    }
    let n = rng.range(1, 16);
    let dirs = ["", "a", "a/b", "data", "data/x/y", "interface"];
    let mut seen = std::collections::BTreeSet::new();
    for i in 0..n {
        let d = rng.pick(&dirs);
        let leaf: String = (0..rng.range(1, 10)).map(|_| (b'a' + rng.below(26) as u8) as char).collect();
        let p = if d.is_empty() { format!("{leaf}{i}") } else { format!("{d}/{leaf}{i}") };
        if !seen.insert(p.clone()) {
            continue;
        }
        let mut ek = [0u8; 9];
        for x in &mut ek {
            *x = rng.byte();
        }
        let ck = if flags & 1 != 0 { Some(k16(rng)) } else { None };
        if flags & 2 != 0 {
            b.add_file_with_est(p, ek, rng.next() as u32, rng.next() as u32 >> 1, ck, rng.below(3) as u32);
        } else {
            b.add_file(p, ek, rng.next() as u32, rng.next() as u32 >> 1, ck);
        }
    }
    b.build().ok()
}

fn gen_parchive(rng: &mut Rng) -> Option<Vec<u8>> {
    let mut b = PatchArchiveBuilder::new();
    let n = rng.range(1, 12);
    for i in 0..n {
        let mut t = k16(rng);
        t[0] = (i * 16) as u8 + 1;
        let np = rng.range(1, 3);
        let patches = (0..np).map(|j| (k16(rng), rng.next() % (1u64 << 40), k16(rng), rng.next() as u32, j as u8)).collect();
        b.add_file_entry(t, rng.next() % (1u64 << 40), patches);
    }
    b.sort_entries();
    b.build().ok()
}

fn gen_pindex(rng: &mut Rng) -> Option<Vec<u8>> {
    let n = rng.range(0, 10);
    // key sizes above 16 only without entries (`entry.build` slices the 16-byte keys by key_size)
    let ks = if n == 0 && rng.chance(1, 3) { *rng.pick(&[17u8, 40, 255]) } else { *rng.pick(&[16u8, 16, 16, 9, 12, 1, 0]) };
    let mut b = PatchIndexBuilder::new().key_size(ks);
    for _ in 0..n {
        b.add_entry(PatchIndexEntry { source_ekey: k16(rng), source_size: rng.next() as u32, target_ekey: k16(rng), target_size: rng.next() as u32, encoded_size: rng.next() as u32, suffix_offset: rng.byte(), patch_ekey: k16(rng) });
    }
    b.build().ok()
}

fn hex32(rng: &mut Rng) -> String {
    hex::encode(k16(rng))
}

fn gen_text(rng: &mut Rng, fmt: &str) -> Option<Vec<u8>> {
    Some(match fmt {
        "buildcfg" => {
            let mut c = BuildConfig::new();
            c.set("root", vec![hex32(rng)]);
            c.set("encoding", vec![hex32(rng), hex32(rng)]);
            c.set("encoding-size", vec![rng.below(1 << 30).to_string(), rng.below(1 << 30).to_string()]);
            if rng.chance(1, 2) {
                c.set("build-name", vec![format!("WOW-{}patch1.{}", rng.below(99999), rng.below(20))]);
            }
            if rng.chance(1, 2) {
                c.set(format!("vfs-{}", rng.below(5)), vec![hex32(rng), hex32(rng)]);
            }
            if rng.chance(1, 3) {
                c.set(name(rng, 8).replace(['\\', '/', '.', ' ', 'é'], "x"), (0..rng.below(3)).map(|_| name(rng, 6).replace(' ', "_")).collect());
            }
            c.build()
        }
        "cdncfg" => {
            let mut c = CdnConfig::new();
            let n = rng.range(1, 4);
            c.set("archives", (0..n).map(|_| hex32(rng)).collect());
            c.set("archives-index-size", (0..n).map(|_| rng.below(1 << 20).to_string()).collect());
            c.set("archive-group", vec![hex32(rng)]);
            if rng.chance(1, 2) {
                c.set("file-index", vec![hex32(rng)]);
            }
            c.build()
        }
        "patchcfg" => {
            let mut c = PatchConfig::new();
            c.set_patch_hash(hex32(rng));
            c.set_patch_size(rng.below(1 << 30));
            if rng.chance(1, 2) {
                c.set_property("patch-extra", name(rng, 6).replace(' ', "_"));
            }
            for _ in 0..rng.below(3) {
                c.add_entry(PatchCfgEntry::new(rng.pick(&["encoding", "install", "download"]).to_string(), hex32(rng), rng.below(1 << 30), hex32(rng), rng.below(1 << 30)));
            }
            c.build()
        }
        "keyring" => {
            let mut c = KeyringConfig::new();
            for _ in 0..rng.below(4) {
                c.add_entry(hex::encode(rng.bytes(8)), hex32(rng));
            }
            c.build()
        }
        "productcfg" => {
            let maps = rng.chance(1, 2);
            let m = if maps { r#","opaque_product_specific":{"a":"1","b":"2","c":"3","d":"4","e":"5"},"replacement_locales":{"enGB":"enUS","esMX":"esES","ptPT":"ptBR"}"# } else { "" };
            format!(r#"{{"all":{{"config":{{"product":"p{}","data_dir":"Data/","supported_locales":["enUS","deDE"]{m}}}}},"enus":{{"config":{{"install":[{{"start_menu_shortcut":{{"args":"--x","link":"l","target":"t","working_dir":"w"}}}}]}}}}}}"#, rng.below(100)).into_bytes()
        }
        "bpsv" => {
            let mut b = BpsvBuilder::new();
            let nf = rng.range(1, 4) as usize;
            let tys: Vec<u8> = (0..nf).map(|_| rng.below(3) as u8).collect();
            for (i, t) in tys.iter().enumerate() {
                let ty = match t {
                    0 => BpsvType::String(0),
                    1 => BpsvType::Hex(16),
                    _ => BpsvType::Dec(4),
                };
                b.add_field(BpsvField::new(format!("F{i}"), ty));
            }
            if rng.chance(1, 2) {
                b.set_sequence(rng.next() as u32);
            }
            for _ in 0..rng.below(4) {
                let row = tys
                    .iter()
                    .map(|t| match (t, rng.below(5)) {
                        (_, 0) => BpsvValue::Empty,
                        (0, _) => BpsvValue::String(name(rng, 8)),
                        (1, _) => BpsvValue::Hex(k16(rng).to_vec()),
                        _ => BpsvValue::Dec(*rng.pick(&[0i64, -1, 1, i64::MAX, i64::MIN, 42])),
                    })
                    .collect();
                b.add_row(row).ok()?;
            }
            CascFormat::build(&b.build()).ok()?
        }
        "espec" => rng
            .pick(&[
                "n",
                "z",
                "z:9",
                "z:{9,15}",
                "z:{6,mpq}",
                "z:{,15}",
                "z:{,mpq}",
                "z:{,zlib,15}",
                "z:{9,lz4hc,8}",
                "b:{256K*=z}",
                "b:{164=z,16K*565=z,1656=z,*=n}",
                "b:{1M=e:{0123456789abcdef,01020304,z},*=n}",
                "e:{0123456789ABCDEF,01020304,n}",
                "b:{16K*=z:{6,mpq}}",
                "c:{3}",
                "c",
                "g",
                "g:{5}",
                "b:{22=n,31943=z,211232=n,27037696=n,138656=n,17747968=n,*=z}",
            ])
            .as_bytes()
            .to_vec(),
        _ => return None,
    })
}

fn gen_builder(rng: &mut Rng, fmt: &str) -> Option<Vec<u8>> {
    match fmt {
        "blte" => gen_blte(rng),
        "encoding" => gen_encoding(rng),
        "agroup" => gen_agroup(rng),
        "install" => gen_install(rng).map(|x| x.1),
        "download" => gen_download(rng).map(|x| x.1),
        "size" => gen_size(rng, false).and_then(|r| r.ok()).map(|x| x.1),
        "tvfs" => gen_tvfs(rng),
        "parchive" => gen_parchive(rng),
        "pindex" => gen_pindex(rng),
        "zbsdiff" => gen_zbs(rng),
        _ => gen_text(rng, fmt),
    }
}

fn is_text(fmt: &str) -> bool {
    matches!(fmt, "buildcfg" | "cdncfg" | "patchcfg" | "productcfg" | "keyring" | "bpsv" | "espec")
}

/// counts in the fixed headers of the three manifest formats: a mutated count near 2^32 makes
/// the parsers reserve gigabytes before reading (property C02's ground), so such mutants are skipped
fn absurd_count(fmt: &str, b: &[u8]) -> bool {
    let lim = 200_000;
    match fmt {
        "install" => be32(b, 6) > lim,
        "download" => be32(b, 5) > lim,
        "size" => be32(b, 4) > lim,
        _ => false,
    }
}

// ---------------------------------------------------------------------------------------------

fn main() {
    quiet_panics();
    let args = Args::parse();
    let mut cx = Ctx { s: Session::new(&args.out), fixtures: load_fixtures() };
    cx.s.rule = "inputs: (a) every CDN fixture of crates/cascette-formats/test_fixtures unmutated (byte-identity test) and under 1-3 random mutations aimed at header fields, counts, sizes, footers, truncation, trailing bytes, small inserts/deletes (text formats: white space, separators, comments, CR/LF, non-ASCII); (b) outputs of every format's builder on random programs, unmutated (builder-form claim) and mutated; (c) hand-framed size/download/install/ZBSDIFF headers over every version, key size, esize width, has_checksum byte 0/1/2/255, flag size 0-5, reserved bytes, sizes at 0/2^31/10^9+-1; hand-framed patch indices over every extra-header shape (absent, key size 0..16, > 16, with extra data, overrunning), block-type sequences (1/2/8/unknown, 2 before/after 8, repeated), header_size before / at / after the end of the descriptors, block-8 data offsets 0/8/14/20/300, key sizes 0..200 with and without entries, wrong counts / sizes / data_size, each also with 1-3 mutations and data_size repaired; (d) component lines for TVFS: VfsTable::parse on random entry sequences under cft_table_size at every offset-width boundary (tables written for the header's width or for another one), ContainerFileTable::parse+build on random lengths with and without slack; (e) root builder programs V1-V4 (`rp`): 1-3 blocks, named / unnamed, FileDataIDs strictly increasing, or the same ID added twice to one block / all equal / neighbours / pairs / decreasing or random insertion order / both ends of the u32 range, and hand-framed root files V1-V4 whose FileDataID column is given as deltas (0xFFFFFFFF = same ID again, 0xFFFFFFFE.. = decreasing, 0, wrap past u32::MAX), 1-3 blocks of which two often share (locale, content) flags (merged on rebuild), each also mutated — all through the root model as well; (f) archive-index builder programs (`ap`) on every record layout (key size 2/4/9/12/16 x offset width 4/5/6), entry counts around the page capacity of that layout, locations at the ends of the offset width (5-byte offsets above 4 GiB, 6-byte archive:offset), taken through build -> parse -> from_archive_index -> build -> parse; archive-group builder outputs also as archive indices; encoding builder programs with unequal CKey/EKey page sizes; (g) builder-as-mutator: EVERY accepted input of archive index / root / install / download / encoding that reached the fixed point is loaded into the builder by its from_* constructor, built, serialised and parsed back (same logical content), archive index and root additionally with one entry added (location at the top of the offset width; FileDataID repeating / next to one of the block or at an end of the range) and removed again; (h) builder programs given by parameters (`bp` lines, each a replayable request of a few tokens): InstallManifestBuilder from new() and from a hand-framed V1 / V2 manifest (0-3 tags, 0-17 files) followed by 1-9 editing calls (add_file, add_file_with_tags, remove_file, add_tag, remove_tag, associate, remove_file_from_tag) — bytes compared with the model, value with the reference; DownloadManifestBuilder from new(V1-V3, checksums, flag size 0-4, base priority) and from a hand-framed V1-V3 manifest (has_checksum byte 1/2/255) followed by add_file(+checksum) / remove_file / remove_file_by_key / add_tag / remove_tag / associate / disassociate / update_file_{key,size,priority} / set_file_flags; BlteBuilder by add_chunk, by add_data with the chunk size, and the 40-byte-row table, with 1,2,3,254..257 and 65535, 65536, 65537, 65536+k chunks (2^24 chunks need > 400 MB: not reached); TvfsBuilder for all 8 flag combinations x EST {none, small, 255/256-byte, 65535/65536-byte} with file counts n at which n * entry_size crosses 0xFF and 0xFFFF for the entry size before and after each widening of the patch-offset field (t/es-1 .. t/es+2 for each candidate size, plus a random count inside the window where the width depends on itself; thorough: the 0xFFFFFF crossing), every path resolved path -> VFS span -> container record against the values added; count / width families of the other builders, the builder's VALUE compared with the parsed content: install and download (V1/V2, V1-V3) with 255/256/257/65535/65536(+k) tags and files, size manifests for every esize width 1-8 at the cap of the width, counts across 2^8 / 2^16 and the V2 40-bit total at 256/257 x u32::MAX, root V1-V4 with 255..65536+k records, archive index (key size x offset width) and archive group (archive numbers up to 65535) with counts across 2^8 / 2^16, EncodingBuilder with 0/254/255/256/257 EKeys per CKey, entries at and above the page size, sizes at 2^32 / 2^40-1 / 2^40, ESpec tables across 255/256/65535/65536 bytes, 65536+k entries, and from_encoding_file + add + remove, PatchArchiveBuilder with 0/254..257 patches per entry, 254..257-byte ESpec, 255/256+ blocks, sizes at 2^40 (65536 blocks need 265 MB: not reached), patch index / ZBSDIFF / BPSV / ESpec block sizes (K/M unit thresholds, 2^32, 2^40, u64::MAX) / the data-archive builder across the same thresholds; members beyond a field width may be refused by the builder, everything built must read back. Each whole-file input runs parse->build->parse->build on the real code. non-trivial = the first parse ACCEPTED the input (so the fixed-point claim was actually evaluated); distinct = (format, input hash)".into();
    if let Some(p) = &args.replay {
        for l in read_case(p) {
            cx.run_req(&l);
        }
        cx.s.finish();
        return;
    }
    let mut rng = Rng::new(args.seed);
    let th = args.thorough();

    // (0) the smallest members of the builder-program families first, so that a failure there is
    // reported on a three-record input rather than on a CDN fixture: every root version with one
    // FileDataID listed twice in a block, every archive-index offset width with a location above
    // the 4-byte range (6-byte: non-zero archive index)
    for ver in ROOT_VERSIONS {
        let cf = if ver == RootVersion::V1 { 0 } else { ContentFlags::NO_NAME_HASH };
        let nh = |h: u64| if ver == RootVersion::V1 { Some(h) } else { None };
        let recs: Vec<RRec> = vec![(250, [3; 16], nh(7), LocaleFlags::ENUS, cf), (100, [1; 16], nh(5), LocaleFlags::ENUS, cf), (100, [2; 16], nh(6), LocaleFlags::ENUS, cf)];
        let req = format!("rp {} {}", ver_num(ver), rrecs_text(&recs));
        let (r, b) = cx.rp_resp(ver, &recs, &req);
        cx.s.line(&req, &r);
        if let Some(b) = b {
            cx.m_line("root", &b);
        }
    }
    for (ks, ob) in [(16u8, 4u8), (16, 5), (16, 6), (9, 5), (9, 6)] {
        let top = 1u64 << (8 * ob as u32);
        let ents: Vec<(Vec<u8>, u32, u64)> = (0..3u64).map(|i| (vec![0x30 - 0x10 * i as u8; ks as usize], 1000 + i as u32, top / 2 + 4096 * i)).collect();
        let req = format!("ap {ks} {ob} {}", aents_text(&ents));
        let (r, b) = cx.ap_resp(ks, ob, &ents, &req);
        cx.s.line(&req, &r);
        if let Some(b) = b {
            cx.o_inline("aidx", &b);
        }
    }

    // (a) fixtures unmutated: the byte-identity test
    for i in 0..cx.fixtures.len() {
        cx.o_fixture(i, &[]);
    }
    // modelled formats: fixtures through the model as well
    for i in 0..cx.fixtures.len() {
        let (fmt, _, b) = cx.fixtures[i].clone();
        let m = match fmt.as_str() {
            "install" => "inst",
            "download" => "dl",
            "zbsdiff" => "zbs",
            "pindex" => "pidx",
            _ => continue,
        };
        cx.m_line(m, &b);
        let n = if th { 60 } else { 12 };
        for _ in 0..n {
            let ms = gen_muts(&mut rng, b.len(), false);
            let x = apply_muts(&b, &ms);
            if absurd_count(&fmt, &x) {
                cx.s.tally("skipped:absurd-count");
                continue;
            }
            cx.m_line(m, &x);
        }
    }
    // (a') fixtures mutated, oracle-only formats
    let per_fixture = if th { 150 } else { 25 };
    for i in 0..cx.fixtures.len() {
        let (fmt, _, b) = cx.fixtures[i].clone();
        if matches!(fmt.as_str(), "install" | "download" | "zbsdiff" | "pindex") {
            continue;
        }
        // big binary fixtures cost a few ms per round trip
        let k = if b.len() > 100_000 { per_fixture / 3 } else { per_fixture };
        for _ in 0..k {
            let ms = gen_muts(&mut rng, b.len(), is_text(&fmt));
            cx.o_fixture(i, &ms);
        }
    }

    // (a'') ESpec strings taken from real encoding files (fixture JSON): identity + mutation
    for f in ["espec/representative_especs.json", "espec/wow_classic_era_especs.json"] {
        let Ok(txt) = std::fs::read_to_string(format!("{FIX}/{f}")) else { continue };
        let Ok(v) = serde_json::from_str::<serde_json::Value>(&txt) else { continue };
        let mut specs: Vec<String> = vec![];
        fn walk(v: &serde_json::Value, out: &mut Vec<String>) {
            match v {
                serde_json::Value::Array(a) => a.iter().for_each(|x| walk(x, out)),
                serde_json::Value::Object(o) => o.iter().for_each(|(k, x)| {
                    if k.contains("espec") || x.is_array() || x.is_object() {
                        walk(x, out)
                    }
                }),
                serde_json::Value::String(s) => out.push(s.clone()),
                _ => {}
            }
        }
        if let Some(e) = v.get("especs") {
            walk(e, &mut specs);
        }
        for sp in specs.iter().take(if th { 400 } else { 80 }) {
            let b = sp.as_bytes();
            let req = format!("o espec {}", hex(b));
            if let Some(out) = cx.oracle("espec", b, req.clone(), false) {
                cx.s.line(&req, "-");
                cx.count("espec", b, &out);
                if out.stage == Stage::Ok && out.rebuilt.as_deref() != Some(b) {
                    cx.s.oracle_fail("espec-cdn-string-not-byte-identical", &format!("real ESpec string {sp:?} is printed back as {:?}", String::from_utf8_lossy(out.rebuilt.as_deref().unwrap_or(&[]))), &[req.clone()]);
                    cx.s.tally("espec:cdn-string-differs");
                } else if out.stage == Stage::Ok {
                    cx.s.tally("espec:cdn-string-byte-identical(test)");
                }
            }
            let ms = gen_muts(&mut rng, b.len(), true);
            let x = apply_muts(b, &ms);
            cx.o_inline("espec", &x);
        }
    }

    // (b) builder programs
    let rounds = if th { 400 } else { 60 };
    for fmt in FORMATS {
        for _ in 0..rounds {
            // root / archive index: the PROGRAM is a request line of its own (`rp` / `ap`)
            let generated = match *fmt {
                "root" => {
                    let (ver, recs) = gen_root_program(&mut rng);
                    let req = format!("rp {} {}", ver_num(ver), rrecs_text(&recs));
                    let (r, b) = cx.rp_resp(ver, &recs, &req);
                    cx.s.line(&req, &r);
                    b
                }
                "aidx" => {
                    let (ks, ob, ents) = gen_aidx_program(&mut rng);
                    let req = format!("ap {ks} {ob} {}", aents_text(&ents));
                    let (r, b) = cx.ap_resp(ks, ob, &ents, &req);
                    cx.s.line(&req, &r);
                    b
                }
                _ => gen_builder(&mut rng, fmt),
            };
            let Some(bytes) = generated else {
                cx.s.tally(&format!("{fmt}:builder-refused"));
                continue;
            };
            let modelled = match *fmt {
                "root" => Some("root"),
                "install" => Some("inst"),
                "download" => Some("dl"),
                "size" => Some("size"),
                "zbsdiff" => Some("zbs"),
                "pindex" => Some("pidx"),
                _ => None,
            };
            // builder-form claim: the builder's output must be accepted and be a fixed point
            let accepted = match modelled {
                Some(m) => {
                    cx.m_line(m, &bytes);
                    run_fmt(fmt, &bytes).is_some_and(|o| o.stage != Stage::Rejected && o.stage != Stage::ParsePanic)
                }
                None => {
                    cx.o_inline(fmt, &bytes);
                    run_fmt(fmt, &bytes).is_some_and(|o| o.stage != Stage::Rejected && o.stage != Stage::ParsePanic)
                }
            };
            if !accepted {
                let req = format!("o {fmt} {}", hex(&bytes));
                let sh = shape(fmt, "builder-output-rejected", &bytes, &Out { stage: Stage::Rejected, detail: String::new(), rebuilt: None, logical: None, field: None });
                cx.s.oracle_fail(&sh, &format!("{fmt}: the builder's own output ({} bytes) is not accepted by the parser", bytes.len()), &[req]);
                cx.s.tally(&format!("{fmt}:builder-output-rejected"));
            }
            // an archive group file is an archive index with 6-byte locations: the index parser,
            // its rebuild and from_archive_index on that layout
            if *fmt == "agroup" {
                cx.o_inline("aidx", &bytes);
            }
            // TVFS: a CFT size just above 255 with slack, so that the rebuilt (slack-free) table
            // drops to a one-byte offset width while the VFS table bytes are kept as they were
            if *fmt == "tvfs" && (258..0x200).contains(&be32(&bytes, 32)) {
                let x = apply_muts(&bytes, &[Mut::Set(34, 0x01), Mut::Set(35, 0x02)]);
                cx.o_inline(fmt, &x);
                cx.s.tally("tvfs:cft-slack-at-width-boundary");
            }
            for _ in 0..(if th { 6 } else { 3 }) {
                let ms = gen_muts(&mut rng, bytes.len(), is_text(fmt));
                let x = apply_muts(&bytes, &ms);
                if absurd_count(fmt, &x) {
                    cx.s.tally("skipped:absurd-count");
                    continue;
                }
                match modelled {
                    Some(m) => cx.m_line(m, &x),
                    None => {
                        cx.o_inline(fmt, &x);
                    }
                }
            }
        }
    }
    // builder value vs parsed value (install / download / size have PartialEq)
    for _ in 0..rounds {
        if let Some((m, bytes)) = gen_install(&mut rng) {
            if InstallManifest::parse(&bytes).ok().as_ref() != Some(&m) {
                cx.s.oracle_fail("install-builder-value-differs", "parse(serialise(builder value)) != builder value", &[format!("m inst {}", hex(&bytes))]);
            }
            cx.s.tally("install:builder-value-eq");
        }
        if let Some((m, bytes)) = gen_download(&mut rng) {
            if DownloadManifest::parse(&bytes).ok().as_ref() != Some(&m) {
                cx.s.oracle_fail("download-builder-value-differs", "parse(serialise(builder value)) != builder value", &[format!("m dl {}", hex(&bytes))]);
            }
            cx.s.tally("download:builder-value-eq");
        }
        for overwide in [false, true] {
            match gen_size(&mut rng, overwide) {
                Some(Ok((m, bytes))) => {
                    let p = SizeManifest::parse(&bytes);
                    if p.as_ref().ok() != Some(&m) {
                        let sig = if overwide { "size-builder-value-overwide-esize-truncated" } else { "size-builder-value-differs" };
                        cx.s.oracle_fail(sig, &format!("SizeManifestBuilder value serialises to bytes that parse to {}", if p.is_ok() { "another value" } else { "an error" }), &[format!("m size {}", hex(&bytes))]);
                        cx.m_line("size", &bytes);
                    }
                    cx.s.tally(if overwide { "size:builder-overwide-built" } else { "size:builder-value-eq" });
                }
                Some(Err(_)) => cx.s.tally("size:builder-serialise-refused"),
                None => cx.s.tally("size:builder-refused"),
            }
        }
    }
    // from_* constructors (builder-as-mutator): parsed fixture -> builder -> same content
    for i in 0..cx.fixtures.len() {
        let (fmt, rel, b) = cx.fixtures[i].clone();
        match fmt.as_str() {
            "install" => {
                if let Ok(m) = InstallManifest::parse(&b) {
                    let ok = InstallManifestBuilder::from_manifest(&m).build().ok().as_ref() == Some(&m);
                    cx.s.tally(if ok { "install:from_manifest-eq" } else { "install:from_manifest-differs" });
                    if !ok {
                        cx.s.oracle_fail("install-from-manifest-differs", "InstallManifestBuilder::from_manifest(m).build() != m", &[format!("of install {rel} -")]);
                    }
                }
            }
            "download" => {
                if let Ok(m) = DownloadManifest::parse(&b) {
                    let ok = DownloadManifestBuilder::from_manifest(&m).build().ok().as_ref() == Some(&m);
                    cx.s.tally(if ok { "download:from_manifest-eq" } else { "download:from_manifest-differs" });
                    if !ok {
                        cx.s.oracle_fail("download-from-manifest-differs", "DownloadManifestBuilder::from_manifest(m).build() != m", &[format!("of download {rel} -")]);
                    }
                }
            }
            "root" => {
                if let Ok(r) = RootFile::parse(&b) {
                    let l1 = root_logical(&r);
                    let ok = RootBuilder::from_root_file(&r).build().ok().and_then(|x| RootFile::parse(&x).ok()).map(|r2| root_logical(&r2)) == Some(l1);
                    cx.s.tally(if ok { "root:from_root_file-eq" } else { "root:from_root_file-differs" });
                    if !ok {
                        cx.s.oracle_fail("root-from-root-file-differs", "RootBuilder::from_root_file(r).build() parses to other records", &[format!("of root {rel} -")]);
                    }
                }
            }
            "encoding" => {
                if let Ok(e) = EncodingFile::parse(&b) {
                    let ok = EncodingBuilder::from_encoding_file(&e).build().ok().map(|e2| (e2.ckey_count(), e2.ekey_count())) == Some((e.ckey_count(), e.ekey_count()));
                    cx.s.tally(if ok { "encoding:from_encoding_file-counts-eq" } else { "encoding:from_encoding_file-differs" });
                    if !ok {
                        cx.s.oracle_fail("encoding-from-encoding-file-differs", "EncodingBuilder::from_encoding_file(e).build() has other entry counts", &[format!("of encoding {rel} -")]);
                    }
                }
            }
            _ => {}
        }
    }

    // (c) hand-framed headers for the modelled formats
    framed(&mut cx, &mut rng, th);
    framed_root(&mut cx, &mut rng, th);
    framed_pindex(&mut cx, &mut rng, th);
    framed_tvfs_tables(&mut cx, &mut rng, th);
    // (h) builder programs given by parameters (after everything else: the earlier sections keep
    // their random streams)
    builder_programs(&mut cx, &mut rng, th);
    cx.s.finish();
}

fn tag_bytes(name: &[u8], ty: u16, mask: &[u8]) -> Vec<u8> {
    let mut v = name.to_vec();
    v.push(0);
    v.extend_from_slice(&ty.to_be_bytes());
    v.extend_from_slice(mask);
    v
}

fn framed(cx: &mut Ctx, rng: &mut Rng, th: bool) {
    let rounds = if th { 40 } else { 8 };
    // ---- size manifests: every version x key size x esize width, tags, totals right and wrong
    for ver in [0u8, 1, 2, 3] {
        for ks in [0u8, 1, 9, 16, 17] {
            for w in [0u8, 1, 2, 3, 4, 5, 7, 8, 9] {
                if ver == 2 && w != 4 {
                    continue;
                }
                for _ in 0..(if th { 3 } else { 1 }) {
                    let n = *rng.pick(&[0u32, 1, 2, 8, 9]);
                    let nt = rng.below(3) as u16;
                    let mut ents = vec![];
                    let mut total: u64 = 0;
                    for _ in 0..n {
                        let e = if w >= 8 || w == 0 { rng.next() >> rng.below(64) } else { rng.next() % (1u64 << (8 * w as u32)) };
                        let e = match rng.below(5) {
                            0 => 0,
                            1 if w >= 8 => u64::MAX,
                            _ => e,
                        };
                        total = total.wrapping_add(e);
                        ents.push((rng.bytes(ks as usize), e));
                    }
                    if rng.chance(1, 8) {
                        total = total.wrapping_add(1);
                    }
                    let mut d = vec![b'D', b'S', ver, ks];
                    d.extend_from_slice(&n.to_be_bytes());
                    d.extend_from_slice(&nt.to_be_bytes());
                    if ver == 2 {
                        d.extend_from_slice(&total.to_be_bytes()[3..]);
                    } else {
                        d.extend_from_slice(&total.to_be_bytes());
                        d.push(w);
                    }
                    for t in 0..nt {
                        let nm: &[u8] = if rng.chance(1, 10) { b"\xff\xfe" } else if rng.chance(1, 6) { "é".as_bytes() } else { b"tag" };
                        let mut nm = nm.to_vec();
                        nm.push(b'0' + t as u8);
                        d.extend(tag_bytes(&nm, *rng.pick(&[1u16, 2, 3, 0x10, 0x8000, 6, 0]), &rng.bytes((n as usize).div_ceil(8))));
                    }
                    for (k, e) in &ents {
                        d.extend_from_slice(k);
                        let eb = e.to_be_bytes();
                        let w = if ver == 2 { 4 } else { w.min(8) } as usize;
                        d.extend_from_slice(&eb[8 - w..]);
                    }
                    if rng.chance(1, 6) {
                        d.extend(rng.bytes(3));
                    }
                    cx.m_line("size", &d);
                    for _ in 0..2 {
                        let ms = gen_muts(rng, d.len(), false);
                        let x = apply_muts(&d, &ms);
                        if !absurd_count("size", &x) {
                            cx.m_line("size", &x);
                        }
                    }
                }
            }
        }
    }
    // ---- download headers: version 0..4, has_checksum byte, flag size, base priority, reserved
    for ver in [0u8, 1, 2, 3, 4] {
        for hc in [0u8, 1, 2, 255] {
            for fs in [0u8, 1, 4, 5] {
                for _ in 0..rounds.min(3) {
                    let n = *rng.pick(&[0u32, 1, 2, 8, 9]);
                    let nt = rng.below(3) as u16;
                    let mut d = vec![b'D', b'L', ver, if rng.chance(1, 12) { 9 } else { 16 }, hc];
                    d.extend_from_slice(&n.to_be_bytes());
                    d.extend_from_slice(&nt.to_be_bytes());
                    if ver >= 2 {
                        d.push(fs);
                    }
                    if ver >= 3 {
                        d.push(rng.byte());
                        d.extend(if rng.chance(1, 2) { vec![0, 0, 0] } else { rng.bytes(3) });
                    }
                    let efs = if ver >= 2 { fs as usize } else { 0 };
                    for _ in 0..n {
                        d.extend(rng.bytes(16));
                        d.extend(rng.bytes(5));
                        d.push(rng.byte());
                        if hc != 0 {
                            d.extend(rng.bytes(4));
                        }
                        d.extend(rng.bytes(efs));
                    }
                    for t in 0..nt {
                        let nm: Vec<u8> = if rng.chance(1, 10) { vec![0xC3, 0x28, b'0' + t as u8] } else { vec![b'T', b'0' + t as u8] };
                        d.extend(tag_bytes(&nm, *rng.pick(&[1u16, 2, 3, 0x4000, 7]), &rng.bytes((n as usize).div_ceil(8))));
                    }
                    if rng.chance(1, 6) {
                        d.extend(rng.bytes(2));
                    }
                    cx.m_line("dl", &d);
                    let ms = gen_muts(rng, d.len(), false);
                    let x = apply_muts(&d, &ms);
                    if !absurd_count("download", &x) {
                        cx.m_line("dl", &x);
                    }
                }
            }
        }
    }
    // ---- install headers: version 0..3 (V2 extension), ckey length, utf-8 in names/paths
    for ver in [0u8, 1, 2, 3] {
        for _ in 0..rounds * 2 {
            let n = *rng.pick(&[0u32, 1, 2, 8, 9]);
            let nt = rng.below(3) as u16;
            let mut d = vec![b'I', b'N', ver, if rng.chance(1, 12) { 15 } else { 16 }];
            d.extend_from_slice(&nt.to_be_bytes());
            d.extend_from_slice(&n.to_be_bytes());
            if ver >= 2 {
                d.push(rng.byte());
                d.extend(rng.bytes(4));
                d.push(if rng.chance(1, 2) { 0 } else { rng.byte() });
            }
            for t in 0..nt {
                let nm: Vec<u8> = match rng.below(8) {
                    0 => vec![0xE2, 0x82, 0xAC, b'0' + t as u8],
                    1 => vec![0xE2, 0x82, b'0' + t as u8],
                    2 => vec![0xF0, 0x9F, 0x98, 0x80],
                    3 => vec![0xED, 0xA0, 0x80],
                    4 => vec![],
                    _ => vec![b'T', b'0' + t as u8],
                };
                d.extend(tag_bytes(&nm, *rng.pick(&[1u16, 2, 3, 0x4000, 7]), &rng.bytes((n as usize).div_ceil(8))));
            }
            for i in 0..n {
                let p: Vec<u8> = match rng.below(8) {
                    0 => vec![0xC0, 0x80],
                    1 => vec![0xF4, 0x90, 0x80, 0x80],
                    2 => "ü/x".as_bytes().to_vec(),
                    _ => format!("dir\\f{i}.txt").into_bytes(),
                };
                d.extend(p);
                d.push(0);
                d.extend(rng.bytes(16));
                d.extend(rng.bytes(4));
                if ver >= 2 {
                    d.push(rng.byte());
                }
            }
            if rng.chance(1, 6) {
                d.extend(rng.bytes(2));
            }
            cx.m_line("inst", &d);
            let ms = gen_muts(rng, d.len(), false);
            let x = apply_muts(&d, &ms);
            if !absurd_count("install", &x) {
                cx.m_line("inst", &x);
            }
        }
    }
    // ---- ZBSDIFF container: sizes at the guards
    let sizes: &[i64] = &[0, 1, 5, 31, -1, i64::MIN, 1_000_000_000, 1_000_000_001, 999_999_999, 500_000_000, 500_000_001, i64::MAX];
    for &c in sizes {
        for &dsz in sizes {
            for &o in &[0i64, 7, -1, 1_000_000_000, 1_000_000_001] {
                let mut d = b"ZBSDIFF1".to_vec();
                d.extend_from_slice(&c.to_le_bytes());
                d.extend_from_slice(&dsz.to_le_bytes());
                d.extend_from_slice(&o.to_le_bytes());
                let body = if (0..=64).contains(&c) && (0..=64).contains(&dsz) { (c + dsz) as usize + rng.below(4) as usize } else { rng.below(8) as usize };
                d.extend(rng.bytes(body));
                // a well-formed header with sizes near 10^9 would make the parser allocate the
                // declared size before reading; keep those to the rejected side of the guard
                if (c > 64 && c <= 1_000_000_000 && dsz >= 0 && c + dsz <= 1_000_000_000 && o >= 0 && o <= 1_000_000_000) || (dsz > 64 && dsz <= 1_000_000_000 && c >= 0 && c + dsz <= 1_000_000_000 && o >= 0 && o <= 1_000_000_000) {
                    cx.s.tally("skipped:zbs-huge-accepted-size");
                    continue;
                }
                cx.m_line("zbs", &d);
            }
        }
    }
    for _ in 0..rounds * 4 {
        let c = rng.below(6) as i64;
        let dsz = rng.below(6) as i64;
        let mut d = if rng.chance(1, 10) { b"ZBSDIFF2".to_vec() } else { b"ZBSDIFF1".to_vec() };
        d.extend_from_slice(&c.to_le_bytes());
        d.extend_from_slice(&dsz.to_le_bytes());
        d.extend_from_slice(&(rng.below(100) as i64).to_le_bytes());
        let n = (c + dsz) as usize + rng.below(5) as usize;
        d.extend(rng.bytes(n));
        if rng.chance(1, 4) {
            let l = d.len();
            d.truncate(l - rng.below(6.min(l as u64)) as usize);
        }
        cx.m_line("zbs", &d);
    }
}

// ---- root V1–V4: blocks whose FileDataID column is given as DELTAS — 0xFFFFFFFF (the same ID
// again), 0xFFFFFFFE… (decreasing IDs), 0 (neighbours), wrap-around past u32::MAX — and files
// with two blocks of equal (locale, content) flags, which the rebuild merges into one block
fn framed_root(cx: &mut Ctx, rng: &mut Rng, th: bool) {
    let rounds = if th { 900 } else { 160 };
    let tail: &[u32] = &[0, 0, 1, 2, 7, 0xFFFF_FFFF, 0xFFFF_FFFF, 0xFFFF_FFFF, 0xFFFF_FFFE, 0xFFFF_FFF0, 0x8000_0000, 0x7FFF_FFFF];
    let first: &[u32] = &[0, 7, 7, 1000, u32::MAX, u32::MAX - 1, 0x8000_0000];
    let flag_pairs: &[(u32, u64)] = &[(LocaleFlags::ENUS, 0), (LocaleFlags::ENUS, 0), (LocaleFlags::DEDE, 0x8), (LocaleFlags::ENUS | LocaleFlags::FRFR, 0x80)];
    for _ in 0..rounds {
        let ver = *rng.pick(&ROOT_VERSIONS);
        let named = rng.chance(1, 2);
        let nb = rng.range(1, 3) as usize;
        let mut blocks = vec![];
        for _ in 0..nb {
            let (loc, mut cf) = *rng.pick(flag_pairs);
            if ver != RootVersion::V1 && !named {
                cf |= ContentFlags::NO_NAME_HASH;
            }
            if ver == RootVersion::V4 && rng.chance(1, 4) {
                cf |= 1 << 33;
            }
            let n = *rng.pick(&[1usize, 2, 3, 3, 5, 8]);
            let recs: Vec<(u32, [u8; 16], u64)> = (0..n)
                .map(|i| {
                    let d = if i == 0 {
                        if rng.chance(1, 5) { rng.next() as u32 } else { *rng.pick(first) }
                    } else if rng.chance(1, 8) {
                        rng.next() as u32
                    } else {
                        *rng.pick(tail)
                    };
                    (d, k16(rng), rng.next())
                })
                .collect();
            blocks.push((loc, cf, recs));
        }
        let kind = if blocks.iter().any(|b| b.2.iter().skip(1).any(|r| r.0 == 0xFFFF_FFFF)) {
            "same-id-again"
        } else if blocks.iter().any(|b| b.2.iter().skip(1).any(|r| r.0 >= 0x8000_0000)) {
            "decreasing-ids"
        } else {
            "increasing-ids"
        };
        let shared = (0..nb).any(|i| (0..i).any(|j| blocks[i].0 == blocks[j].0 && blocks[i].1 == blocks[j].1));
        cx.s.tally(&format!("root:framed:{ver:?}:{kind}{}", if shared { ":two-blocks-same-flags" } else { "" }));
        let d = frame_root(ver, &blocks);
        cx.m_line("root", &d);
        let ms = gen_muts(rng, d.len(), false);
        cx.m_line("root", &apply_muts(&d, &ms));
    }
}

// ---- patch index: every header / block-table shape the parser distinguishes
fn framed_pindex(cx: &mut Ctx, rng: &mut Rng, th: bool) {
    let rounds = if th { 900 } else { 160 };
    for _ in 0..rounds {
        // extra header
        let mut extra: Vec<u8> = vec![];
        let xl: u16 = match rng.below(7) {
            0 => 0,
            1 => {
                extra.push(0);
                1
            }
            2 => {
                let ks = rng.range(1, 17) as u8;
                extra.push(ks);
                extra.extend(rng.bytes(ks as usize));
                if rng.chance(1, 4) { 1 } else { 1 + ks as u16 }
            }
            3 => {
                let ks = rng.range(17, 40) as u8;
                extra.push(ks);
                extra.extend(rng.bytes(ks as usize));
                let m = rng.below(4) as usize;
                extra.extend(rng.bytes(m));
                1 + ks as u16 + m as u16
            }
            4 => {
                let ks = rng.below(17) as u8;
                extra.push(ks);
                extra.extend(rng.bytes(ks as usize));
                let m = rng.range(1, 9) as usize;
                extra.extend(rng.bytes(m));
                1 + ks as u16 + m as u16
            }
            5 => {
                // key size byte promises more than the input holds
                extra.push(*rng.pick(&[30u8, 200, 255]));
                extra.extend(rng.bytes(3));
                rng.range(1, 300) as u16
            }
            _ => {
                extra.push(0);
                rng.range(2, 6) as u16 // extra data taken from what follows
            }
        };
        // blocks
        let nb = rng.below(5) as usize;
        let mut descs: Vec<(u32, u32)> = vec![];
        let mut body: Vec<u8> = vec![];
        for _ in 0..nb {
            let ty = *rng.pick(&[1u32, 2, 2, 8, 8, 5, 0, 6]);
            let mut bd: Vec<u8> = vec![];
            match ty {
                2 => {
                    let ks = *rng.pick(&[16u8, 16, 9, 1, 0, 17, 200]);
                    let n = if ks > 16 { rng.below(2) as u32 } else { rng.below(4) as u32 };
                    let declared = if rng.chance(1, 10) { n + 1 } else { n };
                    bd.extend_from_slice(&declared.to_le_bytes());
                    bd.push(ks);
                    for _ in 0..n {
                        bd.extend(rng.bytes(3 * ks as usize + 13));
                    }
                    if rng.chance(1, 5) {
                        let k = rng.range(1, 6) as usize;
                        bd.extend(rng.bytes(k));
                    }
                    if rng.chance(1, 12) {
                        bd.truncate(rng.below(5) as usize);
                    }
                }
                8 => {
                    let ks = *rng.pick(&[16u8, 16, 9, 0, 17]);
                    let n = if ks > 16 { rng.below(2) as u32 } else { rng.below(4) as u32 };
                    let doff = *rng.pick(&[14u16, 14, 14, 0, 8, 20, 300]);
                    bd.push(*rng.pick(&[3u8, 3, 3, 3, 2]));
                    bd.push(ks);
                    bd.extend_from_slice(&doff.to_le_bytes());
                    bd.extend_from_slice(&n.to_le_bytes());
                    bd.extend(rng.bytes(6));
                    if doff > 14 && doff < 100 {
                        bd.extend(rng.bytes(doff as usize - 14));
                    }
                    for _ in 0..n {
                        bd.extend(rng.bytes(3 * ks as usize + 13));
                    }
                    if rng.chance(1, 12) {
                        bd.truncate(rng.below(14) as usize);
                    }
                }
                _ => {
                    let k = rng.below(10) as usize;
                    bd.extend(rng.bytes(k));
                }
            }
            descs.push((ty, bd.len() as u32));
            body.extend(bd);
        }
        let natural = 14 + extra.len() + 4 + 8 * nb;
        let (hs, gap) = match rng.below(8) {
            0 => (natural + 3, 3usize),                  // unused bytes between descriptors and blocks
            1 if natural > 20 => (natural - 5, 0usize), // block data overlaps the descriptors
            2 => (natural + 1000, 0usize),              // header_size beyond the input
            _ => (natural, 0usize),
        };
        let total = natural + gap + body.len();
        let ds = if rng.chance(1, 10) { total as u32 + 1 } else { total as u32 };
        let mut d: Vec<u8> = vec![];
        d.extend_from_slice(&(hs as u32).to_le_bytes());
        d.extend_from_slice(&(if rng.chance(1, 14) { 2u32 } else { 1u32 }).to_le_bytes());
        d.extend_from_slice(&ds.to_le_bytes());
        d.extend_from_slice(&xl.to_le_bytes());
        d.extend(&extra);
        d.extend_from_slice(&((if rng.chance(1, 14) { nb + 1 } else { nb }) as u32).to_le_bytes());
        for (t, sz) in &descs {
            d.extend_from_slice(&t.to_le_bytes());
            d.extend_from_slice(&(if rng.chance(1, 25) { sz + 1 } else { *sz }).to_le_bytes());
        }
        d.extend(rng.bytes(gap));
        d.extend(&body);
        cx.m_line("pidx", &d);
        // a mutant with the data_size repaired, so that the mutation reaches the block parsers
        let ms = gen_muts(rng, d.len(), false);
        let mut x = apply_muts(&d, &ms);
        if x.len() >= 12 && rng.chance(3, 4) {
            let l = (x.len() as u32).to_le_bytes();
            x[8..12].copy_from_slice(&l);
        }
        cx.m_line("pidx", &x);
    }
}

// ---- TVFS: the VFS-table reader under every offset width, and the container-table slack
fn framed_tvfs_tables(cx: &mut Ctx, rng: &mut Rng, th: bool) {
    let rounds = if th { 1500 } else { 250 };
    let sizes: &[u32] = &[0, 13, 247, 255, 256, 258, 65535, 65536, 0x00FF_FFFF, 0x0100_0000, u32::MAX];
    for _ in 0..rounds {
        let cft = *rng.pick(sizes);
        let w_of = |c: u32| if c > 0x00FF_FFFF { 4usize } else if c > 0xFFFF { 3 } else if c > 0xFF { 2 } else { 1 };
        // entries are written for the width of `wcft`: mostly the header's, sometimes the one of a
        // table that lost its slack (the rebuild of finding tvfs-…-crosses-offset-width)
        let wcft = if rng.chance(1, 3) { *rng.pick(sizes) } else { cft };
        let w = w_of(wcft);
        let mut d: Vec<u8> = vec![];
        for _ in 0..rng.below(5) {
            let c = match rng.below(10) {
                0 => 0u8,
                1 => *rng.pick(&[225u8, 254, 255]),
                2 => 224,
                _ => rng.range(1, 4) as u8,
            };
            d.push(c);
            let n = if c >= 224 && rng.chance(2, 3) { rng.below(30) as usize } else { c as usize * (8 + w) };
            d.extend(rng.bytes(n));
        }
        if rng.chance(1, 6) {
            let l = d.len();
            d.truncate(l - rng.below(4.min(l as u64 + 1)) as usize);
        }
        let req = format!("tv {cft} {}", hex(&d));
        cx.run_req(&req);
        cx.s.tally(&format!("tvfs-vfs-table:width-{}", w_of(cft)));
    }
    for _ in 0..rounds / 2 {
        let fl = rng.below(2) as u32;
        let es = if fl == 1 { 22 } else { 13 };
        let n = match rng.below(4) {
            0 => es * rng.below(30) as usize,
            1 => es * rng.range(18, 22) as usize + rng.range(1, es as u64) as usize,
            _ => rng.below(600) as usize,
        };
        let d = rng.bytes(n);
        let req = format!("tc {fl} {}", hex(&d));
        cx.run_req(&req);
        cx.s.tally(if n % es == 0 { "tvfs-cft:no-slack" } else { "tvfs-cft:slack" });
    }
}

// ---------------------------------------------------------------------------------------------
// `bp` lines — builder programs given by PARAMETERS, so that a 65 536-chunk BLTE, a 2 731-file TVFS
// or a 65 537-entry manifest is a forty-byte request line that replays on its own.
//
//   bp install <new|hex of a V1/V2 manifest> <ops>     InstallManifestBuilder::{new, from_manifest}
//        then ops (`-` or comma list: af<id> add_file | aw<id>.<tag#> add_file_with_tags |
//        rf<i> remove_file | at<id>.<type> add_tag | rt<tag#> remove_tag | as<i>.<tag#> associate |
//        ds<i>.<tag#> remove_file_from_tag) then build -> serialise; answered
//        `ok v= t= e= n=<len> h=<fnv64>` / `err`, compared with the MODEL (Model/SerialBuilders);
//        O: parse(bytes) is the reference value of the program (version and V2 header fields of the
//        source kept, every entry of a V2 manifest carries a type byte, tags/entries as edited)
//   bp download <new:<ver>:<cks>:<fs>:<bp>|hex> <ops>   DownloadManifestBuilder likewise (af<id>.<prio>
//        | rf<i> | rk<id> | at<id>.<type> | rt<tag#> | as<i>.<tag#> | ds<i>.<tag#> | uk<i>.<id> |
//        us<i>.<id> | up<i>.<prio> | sf<i>.<hex>); oracle-only (`-`)
//   bp blte <c|d|x> <n|z|4> <chunks> <len>             BlteBuilder: add_chunk x n | add_data with chunk
//        size len | 40-byte-row table; answered `ok hs=<header_size> tbl=<flag byte + u24 count>`,
//        compared with C01's model; O: the parsed file has the program's chunks
//   bp tvfs <flags> <nspecs> <speclen> <files>          TvfsBuilder; answered `ok es= cft= w= last=`
//        (container entry size, table size, offset width, CFT offset stored in the LAST file's span),
//        compared with C03's Model/TvfsTables.layout; O: every path resolves path -> VFS span ->
//        container record to its OWN keys and sizes
//   bp installw|downloadw|sizew|rootw|aidxw|agroupw|encodingw|parchivew|pindexw|zbsw|bpsvw|especw|
//      archivew <numbers…>                              count / width boundary families, oracle-only
// Every id-derived datum (key, path, size, tag name) is a function of the id.

fn dkey(id: u64) -> [u8; 16] {
    let mut k = [0u8; 16];
    k[..4].copy_from_slice(&((id.wrapping_mul(2_654_435_761) & 0xFFFF_FFFF) as u32).to_be_bytes());
    for (j, x) in k.iter_mut().enumerate().skip(4) {
        *x = (id.wrapping_mul(17).wrapping_add(29 * j as u64 + 3) & 0xFF) as u8;
    }
    k
}

fn dpath(id: u64) -> String {
    format!("d\\f{id}.bin")
}

fn dsize32(id: u64) -> u32 {
    match id % 5 {
        0 => 0,
        1 => u32::MAX,
        _ => (id.wrapping_mul(2_654_435_761) & 0xFFFF_FFFF) as u32,
    }
}

fn dsize40(id: u64) -> u64 {
    match id % 6 {
        0 => 0,
        1 => 0xFF_FFFF_FFFF,
        2 => 0x1_0000_0000,
        3 => 0xFFFF_FFFF,
        _ => id.wrapping_mul(0x9E37_79B9_7F4A_7C15) & 0xFF_FFFF_FFFF,
    }
}

fn dtag(id: u64) -> String {
    format!("T{id}")
}

fn first_diff(a: &str, b: &str) -> String {
    let at = a.bytes().zip(b.bytes()).position(|(x, y)| x != y).unwrap_or(a.len().min(b.len()));
    let cut = |s: &str| s.chars().skip(at.saturating_sub(40)).take(120).collect::<String>();
    format!("want …{}… got …{}…", cut(a), cut(b))
}

/// hand-framed install manifest (not through the builder): tags T<100+j>, files d\f<200+i>.bin,
/// file i in tag j iff (i + 2j) % 3 == 0, V2: type byte (37 i + 5) & 0xFF and header extension
/// (content_key_size 20, entry_count_v2 n + 3, unknown 1)
fn frame_install(ver: u8, nt: usize, nf: usize) -> Vec<u8> {
    let mut d = vec![b'I', b'N', ver, 16];
    d.extend_from_slice(&(nt as u16).to_be_bytes());
    d.extend_from_slice(&(nf as u32).to_be_bytes());
    if ver >= 2 {
        d.push(20);
        d.extend_from_slice(&(nf as u32 + 3).to_be_bytes());
        d.push(1);
    }
    let types = [1u16, 2, 3, 0x10, 0x4000, 0x8000];
    for j in 0..nt {
        let mut mask = vec![0u8; nf.div_ceil(8)];
        for i in 0..nf {
            if (i + 2 * j) % 3 == 0 {
                mask[i / 8] |= 0x80 >> (i % 8);
            }
        }
        d.extend(tag_bytes(dtag(100 + j as u64).as_bytes(), types[j % types.len()], &mask));
    }
    for i in 0..nf {
        d.extend_from_slice(dpath(200 + i as u64).as_bytes());
        d.push(0);
        d.extend_from_slice(&dkey(200 + i as u64));
        d.extend_from_slice(&dsize32(200 + i as u64).to_be_bytes());
        if ver >= 2 {
            d.push(((37 * i + 5) & 0xFF) as u8);
        }
    }
    d
}

/// hand-framed download manifest V1-V3: tags T<100+j>, entries keyed dkey(200+i)
fn frame_download(ver: u8, hc: u8, fs: u8, bp: i8, nt: usize, nf: usize) -> Vec<u8> {
    let mut d = vec![b'D', b'L', ver, 16, hc];
    d.extend_from_slice(&(nf as u32).to_be_bytes());
    d.extend_from_slice(&(nt as u16).to_be_bytes());
    if ver >= 2 {
        d.push(fs);
    }
    if ver >= 3 {
        d.push(bp as u8);
        d.extend_from_slice(&[0, 0, 0]);
    }
    let efs = if ver >= 2 { fs as usize } else { 0 };
    for i in 0..nf {
        let id = 200 + i as u64;
        d.extend_from_slice(&dkey(id));
        d.extend_from_slice(&dsize40(id).to_be_bytes()[3..]);
        d.push([0u8, 1, 0xFF, 0x80, 0x7F, 5][i % 6]);
        if hc != 0 {
            d.extend_from_slice(&(dsize32(id) ^ 0x5A5A_5A5A).to_be_bytes());
        }
        d.extend((0..efs).map(|k| (i * 3 + k + 1) as u8));
    }
    let types = [1u16, 2, 3, 0x10, 0x4000, 0x8000];
    for j in 0..nt {
        let mut mask = vec![0u8; nf.div_ceil(8)];
        for i in 0..nf {
            if (i + 2 * j) % 3 == 0 {
                mask[i / 8] |= 0x80 >> (i % 8);
            }
        }
        d.extend(tag_bytes(dtag(100 + j as u64).as_bytes(), types[j % types.len()], &mask));
    }
    d
}

/// reference value of an install / download builder program: tags (name, type, members) + files
#[derive(Clone, Debug, PartialEq)]
struct RefTags {
    tags: Vec<(String, u16, Vec<bool>)>,
}

impl RefTags {
    fn add_file(&mut self) {
        for t in &mut self.tags {
            t.2.push(false);
        }
    }
    fn remove_file(&mut self, i: usize) {
        for t in &mut self.tags {
            t.2.remove(i);
        }
    }
    fn render(&self) -> String {
        self.tags.iter().map(|t| format!("{}:{:x}:{}", t.0, t.1, t.2.iter().map(|b| if *b { '1' } else { '0' }).collect::<String>())).collect::<Vec<_>>().join(" ")
    }
}

fn mask_members(mask: &[u8], n: usize) -> Vec<bool> {
    (0..n).map(|i| mask.get(i / 8).is_some_and(|b| b & (0x80 >> (i % 8)) != 0)).collect()
}

fn split2(t: &str) -> Option<(&str, &str)> {
    t.split_once('.')
}

fn nums(toks: &[&str]) -> Option<Vec<u64>> {
    toks.iter().map(|t| t.parse::<u64>().ok()).collect()
}

impl Ctx {
    fn bp_fail(&mut self, fmt: &str, what: &str, msg: String, line: &str) {
        self.s.oracle_fail(&format!("{fmt}-program-{what}"), &format!("{fmt} builder program: {}", msg.chars().take(500).collect::<String>()), &[line.to_string()]);
        self.s.tally(&format!("{fmt}:program:{what}"));
    }

    /// the serialised output of a builder program also goes through parse -> build -> parse -> build
    /// (and the format's from_* constructor) like every other accepted input
    fn bp_fixed_point(&mut self, fmt: &str, bytes: &[u8], line: &str) {
        let _ = self.oracle(fmt, bytes, line.to_string(), false);
    }

    fn bp_resp(&mut self, fmt: &str, a: &[&str], line: &str) -> String {
        let r = match (fmt, a) {
            ("install", [src, ops]) => self.bp_install(src, ops, line),
            ("download", [src, ops]) => self.bp_download(src, ops, line),
            ("blte", [via, mode, n, len]) => match (n.parse::<usize>().ok(), len.parse::<usize>().ok()) {
                (Some(n), Some(len)) if n >= 1 && len >= 1 && n < 0x100_0000 && ["c", "d", "x"].contains(via) && ["n", "z", "4"].contains(mode) => self.bp_blte(via, mode, n, len, line),
                _ => None,
            },
            ("tvfs", rest) => match nums(rest).as_deref() {
                Some(&[flags, ns, sl, n]) if flags < 8 && ns * (sl + 1) < 1 << 24 && n < 1 << 24 => self.bp_tvfs(flags as u32, ns as usize, sl as usize, n as usize, line),
                _ => None,
            },
            (_, rest) => match nums(rest) {
                Some(v) => self.bp_width(fmt, &v, line),
                None => None,
            },
        };
        r.unwrap_or_else(|| {
            self.s.case(None);
            "bad-op".to_string()
        })
    }

    // ---- install -----------------------------------------------------------------------------
    fn bp_install(&mut self, src: &str, ops: &str, line: &str) -> Option<String> {
        let source = if src == "new" { None } else { Some(unhex(src)?) };
        let ops: Vec<&str> = if ops == "-" { vec![] } else { ops.split(',').collect() };
        // every op must be well formed (a malformed line is bad-op on both sides)
        for o in &ops {
            if o.len() < 3 {
                return None;
            }
            let (k, r) = o.split_at(2);
            let ok = match k {
                "af" | "rf" | "rt" => r.parse::<u64>().is_ok(),
                "aw" | "at" | "as" | "ds" => split2(r).is_some_and(|(x, y)| x.parse::<u64>().is_ok() && y.parse::<u64>().is_ok()),
                _ => false,
            };
            if !ok {
                return None;
            }
        }
        let parsed = match &source {
            None => None,
            Some(b) => match catch(AssertUnwindSafe(|| InstallManifest::parse(b))) {
                Ok(Ok(m)) => Some(m),
                _ => {
                    self.s.case(None);
                    return Some("err".into());
                }
            },
        };
        // reference state
        let (ver, v2) = match &parsed {
            Some(m) => (m.header.version, if m.header.version >= 2 { Some((m.header.content_key_size, m.header.entry_count_v2, m.header.v2_unknown)) } else { None }),
            None => (1, None),
        };
        let mut files: Vec<(String, [u8; 16], u32, Option<u8>)> = parsed.as_ref().map_or(vec![], |m| m.entries.iter().map(|e| (e.path.clone(), *e.content_key.as_bytes(), e.file_size, e.file_type)).collect());
        let mut rt = RefTags { tags: parsed.as_ref().map_or(vec![], |m| m.tags.iter().map(|t| (t.name.clone(), t.tag_type as u16, mask_members(&t.bit_mask, m.entries.len()))).collect()) };
        let from = match &parsed {
            Some(m) => format!("from-v{}", m.header.version),
            None => "new".to_string(),
        };
        let run = catch(AssertUnwindSafe(|| -> Result<InstallManifest, String> {
            let mut b = match &parsed {
                Some(m) => InstallManifestBuilder::from_manifest(m),
                None => InstallManifestBuilder::new(),
            };
            for o in &ops {
                let (k, r) = o.split_at(2);
                let one = |t: &str| t.parse::<u64>().unwrap_or(0);
                let two = |t: &str| split2(t).map(|(x, y)| (one(x), one(y))).unwrap_or((0, 0));
                match k {
                    "af" => {
                        let id = one(r);
                        b = b.add_file(dpath(id), ContentKey::from_bytes(dkey(id)), dsize32(id));
                        files.push((dpath(id), dkey(id), dsize32(id), None));
                        rt.add_file();
                    }
                    "aw" => {
                        let (id, tj) = two(r);
                        if let Some(name) = rt.tags.get(tj as usize).map(|t| t.0.clone()) {
                            b = b.add_file_with_tags(dpath(id), ContentKey::from_bytes(dkey(id)), dsize32(id), &[name.as_str()]).map_err(|e| format!("add_file_with_tags: {e}"))?;
                            files.push((dpath(id), dkey(id), dsize32(id), None));
                            rt.add_file();
                            rt.tags[tj as usize].2[files.len() - 1] = true;
                        }
                    }
                    "rf" => {
                        let i = one(r) as usize;
                        if i < files.len() {
                            b = b.remove_file(i).map_err(|e| format!("remove_file: {e}"))?;
                            files.remove(i);
                            rt.remove_file(i);
                        }
                    }
                    "at" => {
                        let (id, ty) = two(r);
                        if let Some(tt) = u16::try_from(ty).ok().and_then(TagType::from_u16) {
                            if !rt.tags.iter().any(|t| t.0 == dtag(id)) {
                                b = b.add_tag(dtag(id), tt);
                                rt.tags.push((dtag(id), ty as u16, vec![false; files.len()]));
                            }
                        }
                    }
                    "rt" => {
                        let tj = one(r) as usize;
                        if tj < rt.tags.len() {
                            b = b.remove_tag(&rt.tags[tj].0.clone()).map_err(|e| format!("remove_tag: {e}"))?;
                            rt.tags.remove(tj);
                        }
                    }
                    "as" | "ds" => {
                        let (i, tj) = two(r);
                        let (i, tj) = (i as usize, tj as usize);
                        if i < files.len() && tj < rt.tags.len() {
                            let name = rt.tags[tj].0.clone();
                            b = if k == "as" { b.associate_file_with_tag(i, &name) } else { b.remove_file_from_tag(i, &name) }.map_err(|e| format!("{k}: {e}"))?;
                            rt.tags[tj].2[i] = k == "as";
                        }
                    }
                    _ => {}
                }
            }
            b.build().map_err(|e| format!("build: {e}"))
        }));
        self.s.tally(&format!("install:program:{from}"));
        let m = match run {
            Err(p) => {
                self.s.case(None);
                self.bp_fail("install", &format!("panics-{from}"), format!("panic: {p}"), line);
                return Some("panic".into());
            }
            Ok(Err(e)) => {
                self.s.case(None);
                self.bp_fail("install", &format!("refused-{from}"), format!("a valid program is refused: {e}"), line);
                return Some("err".into());
            }
            Ok(Ok(m)) => m,
        };
        let Ok(bytes) = m.build() else {
            self.s.case(None);
            self.bp_fail("install", &format!("not-serialisable-{from}"), "InstallManifest::build fails on the builder's value".into(), line);
            return Some("err".into());
        };
        self.s.case(Some(&format!("bp-install:{:016x}", fnv64(line.as_bytes()))));
        // expected content
        let want_files: Vec<String> = files.iter().map(|f| format!("{:?}:{}:{}:{:?}", f.0, hex(&f.1), f.2, if ver >= 2 { Some(f.3.unwrap_or(0)) } else { f.3 })).collect();
        let want = format!("v={ver} v2={v2:?} files=[{}] tags=[{}]", want_files.join(" "), rt.render());
        match catch(AssertUnwindSafe(|| InstallManifest::parse(&bytes))) {
            Ok(Ok(p)) => {
                let pv2 = if p.header.version >= 2 { Some((p.header.content_key_size, p.header.entry_count_v2, p.header.v2_unknown)) } else { None };
                let got_files: Vec<String> = p.entries.iter().map(|e| format!("{:?}:{}:{}:{:?}", e.path, hex(e.content_key.as_bytes()), e.file_size, e.file_type)).collect();
                let gt = RefTags { tags: p.tags.iter().map(|t| (t.name.clone(), t.tag_type as u16, mask_members(&t.bit_mask, p.entries.len()))).collect() };
                let got = format!("v={} v2={pv2:?} files=[{}] tags=[{}]", p.header.version, got_files.join(" "), gt.render());
                if got != want {
                    self.bp_fail("install", &format!("value-differs-{from}"), format!("parse(serialise(build)) is not the program's value: {}", first_diff(&want, &got)), line);
                } else {
                    self.s.tally("install:program:value-eq");
                }
            }
            Ok(Err(e)) => self.bp_fail("install", &format!("output-rejected-{from}"), format!("the serialised builder value ({} bytes) does not parse: {e}", bytes.len()), line),
            Err(p) => self.bp_fail("install", &format!("output-rejected-{from}"), format!("the serialised builder value makes the parser panic: {p}"), line),
        }
        self.bp_fixed_point("install", &bytes, line);
        Some(format!("ok v={} t={} e={} n={} h={:016x}", m.header.version, m.tags.len(), m.entries.len(), bytes.len(), fnv64(&bytes)))
    }

    // ---- download ----------------------------------------------------------------------------
    fn bp_download(&mut self, src: &str, ops: &str, line: &str) -> Option<String> {
        #[derive(Clone)]
        struct F {
            key: [u8; 16],
            size: u64,
            prio: i8,
            cks: Option<u32>,
            flags: Option<Vec<u8>>,
        }
        let ops: Vec<&str> = if ops == "-" { vec![] } else { ops.split(',').collect() };
        for o in &ops {
            if o.len() < 3 {
                return None;
            }
            let (k, r) = o.split_at(2);
            let ok = match k {
                "rf" | "rk" | "rt" => r.parse::<u64>().is_ok(),
                "af" | "up" => split2(r).is_some_and(|(x, y)| x.parse::<u64>().is_ok() && y.parse::<i8>().is_ok()),
                "at" | "as" | "ds" | "uk" | "us" => split2(r).is_some_and(|(x, y)| x.parse::<u64>().is_ok() && y.parse::<u64>().is_ok()),
                "sf" => split2(r).is_some_and(|(x, y)| x.parse::<u64>().is_ok() && unhex(y).is_some()),
                _ => false,
            };
            if !ok {
                return None;
            }
        }
        let (parsed, cfg) = if let Some(c) = src.strip_prefix("new:") {
            let p: Vec<&str> = c.split(':').collect();
            let [v, cks, fs, bp] = p.as_slice() else { return None };
            (None, (v.parse::<u8>().ok()?, cks.parse::<u8>().ok()? != 0, fs.parse::<u8>().ok()?, bp.parse::<i8>().ok()?))
        } else {
            let b = unhex(src)?;
            match catch(AssertUnwindSafe(|| DownloadManifest::parse(&b))) {
                Ok(Ok(m)) => {
                    let c = (m.header.version(), m.header.has_checksum(), m.header.flag_size(), m.header.base_priority());
                    (Some(m), c)
                }
                _ => {
                    self.s.case(None);
                    return Some("-".into());
                }
            }
        };
        let (ver, cks, fs, bp) = cfg;
        let from = if parsed.is_some() { format!("from-v{ver}") } else { format!("new-v{ver}") };
        let mut files: Vec<F> =
            parsed.as_ref().map_or(vec![], |m| m.entries.iter().map(|e| F { key: *e.encoding_key.as_bytes(), size: e.file_size.as_u64(), prio: e.priority, cks: e.checksum, flags: e.flags.clone() }).collect());
        let mut rt = RefTags { tags: parsed.as_ref().map_or(vec![], |m| m.tags.iter().map(|t| (t.name.clone(), t.tag_type as u16, mask_members(&t.bit_mask, m.entries.len()))).collect()) };
        let run = catch(AssertUnwindSafe(|| -> Result<Option<DownloadManifest>, String> {
            let mut b = match &parsed {
                Some(m) => DownloadManifestBuilder::from_manifest(m),
                None => {
                    let b = DownloadManifestBuilder::new(ver).map_err(|_| "cfg".to_string());
                    let b = b.map(|b| b.with_checksums(cks)).and_then(|b| b.with_flags(fs).map_err(|_| "cfg".to_string())).and_then(|b| b.with_base_priority(bp).map_err(|_| "cfg".to_string()));
                    match b {
                        Ok(b) => b,
                        Err(_) => return Ok(None), // a configuration the version does not have
                    }
                }
            };
            for o in &ops {
                let (k, r) = o.split_at(2);
                let one = |t: &str| t.parse::<u64>().unwrap_or(0);
                let (x, y) = split2(r).unwrap_or((r, "0"));
                match k {
                    "af" => {
                        let (id, prio) = (one(x), y.parse::<i8>().unwrap_or(0));
                        b = b.add_file(EncodingKey::from_bytes(dkey(id)), dsize40(id), prio).map_err(|e| format!("add_file: {e}"))?;
                        let c = if cks { Some(dsize32(id) ^ 0xA5A5_A5A5) } else { None };
                        if let Some(c) = c {
                            b = b.set_file_checksum(files.len(), c).map_err(|e| format!("set_file_checksum: {e}"))?;
                        }
                        files.push(F { key: dkey(id), size: dsize40(id), prio, cks: c, flags: if fs > 0 { Some(vec![0; fs as usize]) } else { None } });
                        rt.add_file();
                    }
                    "rf" => {
                        let i = one(r) as usize;
                        let did = b.remove_file(i);
                        if did != (i < files.len()) {
                            return Err(format!("remove_file({i}) returns {did} with {} files", files.len()));
                        }
                        if did {
                            files.remove(i);
                            rt.remove_file(i);
                        }
                    }
                    "rk" => {
                        let key = dkey(one(r));
                        let at = files.iter().position(|f| f.key == key);
                        let did = b.remove_file_by_key(&EncodingKey::from_bytes(key));
                        if did != at.is_some() {
                            return Err(format!("remove_file_by_key returns {did}, the key is at {at:?}"));
                        }
                        if let Some(i) = at {
                            files.remove(i);
                            rt.remove_file(i);
                        }
                    }
                    "at" => {
                        let (id, ty) = (one(x), one(y));
                        if let Some(tt) = u16::try_from(ty).ok().and_then(TagType::from_u16) {
                            if !rt.tags.iter().any(|t| t.0 == dtag(id)) {
                                b = b.add_tag(dtag(id), tt);
                                rt.tags.push((dtag(id), ty as u16, vec![false; files.len()]));
                            }
                        }
                    }
                    "rt" => {
                        let tj = one(r) as usize;
                        if tj < rt.tags.len() {
                            if !b.remove_tag(&rt.tags[tj].0.clone()) {
                                return Err("remove_tag does not find an existing tag".into());
                            }
                            rt.tags.remove(tj);
                        }
                    }
                    "as" | "ds" => {
                        let (i, tj) = (one(x) as usize, one(y) as usize);
                        if i < files.len() && tj < rt.tags.len() {
                            let name = rt.tags[tj].0.clone();
                            b = if k == "as" { b.associate_file_with_tag(i, &name) } else { b.disassociate_file_from_tag(i, &name) }.map_err(|e| format!("{k}: {e}"))?;
                            rt.tags[tj].2[i] = k == "as";
                        }
                    }
                    "uk" => {
                        let (i, id) = (one(x) as usize, one(y));
                        if b.update_file_key(i, EncodingKey::from_bytes(dkey(id))) != (i < files.len()) {
                            return Err("update_file_key: wrong result".into());
                        }
                        if i < files.len() {
                            files[i].key = dkey(id);
                        }
                    }
                    "us" => {
                        let (i, id) = (one(x) as usize, one(y));
                        if i < files.len() {
                            b.update_file_size(i, dsize40(id)).map_err(|e| format!("update_file_size: {e}"))?;
                            files[i].size = dsize40(id);
                        }
                    }
                    "up" => {
                        let (i, p) = (one(x) as usize, y.parse::<i8>().unwrap_or(0));
                        if b.update_file_priority(i, p) != (i < files.len()) {
                            return Err("update_file_priority: wrong result".into());
                        }
                        if i < files.len() {
                            files[i].prio = p;
                        }
                    }
                    "sf" => {
                        let (i, fl) = (one(x) as usize, unhex(y).unwrap_or_default());
                        if i < files.len() && fs > 0 && fl.len() == fs as usize {
                            b = b.set_file_flags(i, fl.clone()).map_err(|e| format!("set_file_flags: {e}"))?;
                            files[i].flags = Some(fl);
                        }
                    }
                    _ => {}
                }
            }
            b.build().map(Some).map_err(|e| format!("build: {e}"))
        }));
        self.s.tally(&format!("download:program:{from}"));
        let m = match run {
            Err(p) => {
                self.s.case(None);
                self.bp_fail("download", &format!("panics-{from}"), format!("panic: {p}"), line);
                return Some("-".into());
            }
            Ok(Err(e)) => {
                self.s.case(None);
                self.bp_fail("download", &format!("refused-{from}"), format!("a valid program is refused: {e}"), line);
                return Some("-".into());
            }
            Ok(Ok(None)) => {
                self.s.case(None);
                return Some("-".into());
            }
            Ok(Ok(Some(m))) => m,
        };
        let Ok(bytes) = m.build() else {
            self.s.case(None);
            self.bp_fail("download", &format!("not-serialisable-{from}"), "DownloadManifest::build fails on the builder's value".into(), line);
            return Some("-".into());
        };
        self.s.case(Some(&format!("bp-download:{:016x}", fnv64(line.as_bytes()))));
        let rf = |f: &F| format!("{}:{}:{}:{:?}:{:?}", hex(&f.key), f.size, f.prio, f.cks, f.flags.as_ref().map(|x| hex(x)));
        let want = format!("v={ver} cks={cks} fs={fs} bp={bp} files=[{}] tags=[{}]", files.iter().map(rf).collect::<Vec<_>>().join(" "), rt.render());
        match catch(AssertUnwindSafe(|| DownloadManifest::parse(&bytes))) {
            Ok(Ok(p)) => {
                let gf: Vec<String> = p.entries.iter().map(|e| rf(&F { key: *e.encoding_key.as_bytes(), size: e.file_size.as_u64(), prio: e.priority, cks: e.checksum, flags: e.flags.clone() })).collect();
                let gt = RefTags { tags: p.tags.iter().map(|t| (t.name.clone(), t.tag_type as u16, mask_members(&t.bit_mask, p.entries.len()))).collect() };
                let got = format!("v={} cks={} fs={} bp={} files=[{}] tags=[{}]", p.header.version(), p.header.has_checksum(), p.header.flag_size(), p.header.base_priority(), gf.join(" "), gt.render());
                if got != want {
                    self.bp_fail("download", &format!("value-differs-{from}"), format!("parse(serialise(build)) is not the program's value: {}", first_diff(&want, &got)), line);
                } else {
                    self.s.tally("download:program:value-eq");
                }
            }
            Ok(Err(e)) => self.bp_fail("download", &format!("output-rejected-{from}"), format!("the serialised builder value ({} bytes) does not parse: {e}", bytes.len()), line),
            Err(p) => self.bp_fail("download", &format!("output-rejected-{from}"), format!("the serialised builder value makes the parser panic: {p}"), line),
        }
        self.bp_fixed_point("download", &bytes, line);
        Some("-".into())
    }

    // ---- BLTE --------------------------------------------------------------------------------
    fn bp_blte(&mut self, via: &str, mode: &str, n: usize, len: usize, line: &str) -> Option<String> {
        let cm = match mode {
            "n" => CompressionMode::None,
            "z" => CompressionMode::ZLib,
            _ => CompressionMode::LZ4,
        };
        let piece = |i: usize| -> Vec<u8> { (0..len).map(|j| (i * 31 + j * 7 + 1) as u8).collect() };
        let content: Vec<u8> = (0..n).flat_map(piece).collect();
        let class = if n >= 65536 { "chunks-ge-65536" } else if n >= 256 { "chunks-ge-256" } else { "chunks-lt-256" };
        let built = catch(AssertUnwindSafe(|| -> Result<BlteFile, String> {
            match via {
                "d" => BlteBuilder::new().with_compression(cm).with_chunk_size_unchecked(len).add_data(&content).map_err(es)?.build().map_err(es),
                _ => {
                    let mut chunks = Vec::with_capacity(n);
                    for i in 0..n {
                        chunks.push(ChunkData::new(piece(i), cm).map_err(es)?);
                    }
                    if via == "x" {
                        Ok(BlteFile { header: BlteHeader::multi_chunk_extended(&chunks).map_err(es)?, chunks })
                    } else {
                        let mut b = BlteBuilder::new();
                        for c in chunks {
                            b = b.add_chunk(c);
                        }
                        b.build().map_err(es)
                    }
                }
            }
        }));
        self.s.tally(&format!("blte:program:{via}:{class}"));
        let f = match built {
            Ok(Ok(f)) => f,
            Ok(Err(e)) => {
                self.s.case(None);
                self.bp_fail("blte", &format!("refused-{class}"), format!("{n} chunks of {len} bytes refused: {e}"), line);
                return Some("err".into());
            }
            Err(p) => {
                self.s.case(None);
                self.bp_fail("blte", &format!("panics-{class}"), format!("{n} chunks of {len} bytes: panic {p}"), line);
                return Some("panic".into());
            }
        };
        let Ok(bytes) = CascFormat::build(&f) else {
            self.s.case(None);
            self.bp_fail("blte", &format!("not-serialisable-{class}"), format!("{n} chunks: CascFormat::build fails"), line);
            return Some("err".into());
        };
        self.s.case(Some(&format!("bp-blte:{via}:{mode}:{n}:{len}")));
        let hs = be32(&bytes, 4);
        let tbl = if hs == 0 { "-".to_string() } else { hex(&bytes[8..12.min(bytes.len())]) };
        match catch(AssertUnwindSafe(|| <BlteFile as CascFormat>::parse(&bytes).map_err(es))) {
            Ok(Ok(p)) => {
                let mut bad = None;
                if p.chunks.len() != n {
                    bad = Some(format!("{} chunks parsed, {n} built (header says {})", p.chunks.len(), p.header.chunk_count()));
                } else if p.header.chunk_count() != n {
                    bad = Some(format!("the parsed header states {} chunks, {n} built", p.header.chunk_count()));
                } else if let Some(i) = (0..n).find(|&i| p.chunks[i].mode != f.chunks[i].mode || p.chunks[i].data != f.chunks[i].data) {
                    bad = Some(format!("chunk {i} of {n} reads back with other mode / data"));
                } else {
                    match catch(AssertUnwindSafe(|| p.decompress().map_err(es))) {
                        Ok(Ok(d)) if d == content => {}
                        Ok(Ok(d)) => bad = Some(format!("decoded content has {} bytes, the program gave {}", d.len(), content.len())),
                        Ok(Err(e)) => bad = Some(format!("decoding the parsed file fails: {e}")),
                        Err(p) => bad = Some(format!("decoding the parsed file panics: {p}")),
                    }
                }
                match bad {
                    Some(m) => self.bp_fail("blte", &format!("value-differs-{class}"), m, line),
                    None => self.s.tally("blte:program:value-eq"),
                }
            }
            Ok(Err(e)) => self.bp_fail("blte", &format!("output-rejected-{class}"), format!("{n} chunks: the serialised file ({} bytes) does not parse: {e}", bytes.len()), line),
            Err(p) => self.bp_fail("blte", &format!("output-rejected-{class}"), format!("{n} chunks: the parser panics: {p}"), line),
        }
        self.bp_fixed_point("blte", &bytes, line);
        Some(format!("ok hs={hs} tbl={tbl}"))
    }

    // ---- TVFS --------------------------------------------------------------------------------
    fn bp_tvfs(&mut self, flags: u32, ns: usize, sl: usize, n: usize, line: &str) -> Option<String> {
        let mut b = TvfsBuilder::with_flags(flags);
        // EST strings of exactly `sl` bytes
        let spec = |j: usize| -> String {
            let d = format!("{j}");
            let mut s = String::from("z");
            while s.len() + d.len() < sl {
                s.push('0');
            }
            s.push_str(&d);
            s.truncate(sl.max(1));
            s
        };
        let nspecs = if flags & 2 != 0 { ns } else { 0 };
        for j in 0..nspecs {
            b.add_est_spec(spec(j));
        }
        struct R {
            path: String,
            ekey: [u8; 9],
            esize: u32,
            csize: u32,
            ckey: Option<[u8; 16]>,
            est: u32,
        }
        let recs: Vec<R> = (0..n as u64)
            .map(|i| {
                let k = dkey(i + 1);
                let mut ekey = [0u8; 9];
                ekey.copy_from_slice(&k[..9]);
                R {
                    path: format!("d{:06}/f{:07}", i / 61, i), // zero-padded: sorted order = insertion order
                    ekey,
                    esize: (i * 3 + 1) as u32,
                    csize: if i % 7 == 0 { u32::MAX >> 1 } else { (i * 5 + 2) as u32 },
                    ckey: if flags & 1 != 0 { Some(dkey(i + 0x100_0000)) } else { None },
                    est: if nspecs > 0 { (i % nspecs as u64) as u32 } else { 0 },
                }
            })
            .collect();
        for r in &recs {
            if flags & 2 != 0 {
                b.add_file_with_est(r.path.clone(), r.ekey, r.esize, r.csize, r.ckey, r.est);
            } else {
                b.add_file(r.path.clone(), r.ekey, r.esize, r.csize, r.ckey);
            }
        }
        let class = format!("flags-{flags}");
        self.s.tally(&format!("tvfs:program:{class}"));
        let bytes = match catch(AssertUnwindSafe(|| b.build().map_err(es))) {
            Ok(Ok(x)) => x,
            Ok(Err(e)) => {
                self.s.case(None);
                self.bp_fail("tvfs", &format!("refused-{class}"), format!("{n} files: {e}"), line);
                return Some("err".into());
            }
            Err(p) => {
                self.s.case(None);
                self.bp_fail("tvfs", &format!("panics-{class}"), format!("{n} files: panic {p}"), line);
                return Some("panic".into());
            }
        };
        self.s.case(Some(&format!("bp-tvfs:{flags}:{ns}:{sl}:{n}")));
        let resp;
        match catch(AssertUnwindSafe(|| TvfsFile::parse(&bytes).map_err(es))) {
            Ok(Ok(t)) => {
                use std::collections::HashMap;
                let by_path: HashMap<&str, u32> = t.path_table.files.iter().map(|f| (f.path.as_str(), f.vfs_offset)).collect();
                let vfs: HashMap<u32, &cascette_formats::tvfs::VfsEntry> = t.vfs_table.entries.iter().map(|e| (e.offset, e)).collect();
                let cft: HashMap<u32, &cascette_formats::tvfs::ContainerEntry> = t.container_table.entries.iter().map(|e| (e.offset, e)).collect();
                let mut bad: Option<String> = None;
                let mut wrong = 0usize;
                let mut last_off = 0u32;
                if t.path_table.files.len() != n || t.container_table.entries.len() != n || t.vfs_table.entries.len() != n {
                    bad = Some(format!("{n} files built; parsed {} paths / {} VFS entries / {} container entries", t.path_table.files.len(), t.vfs_table.entries.len(), t.container_table.entries.len()));
                }
                for (i, r) in recs.iter().enumerate() {
                    let got = by_path.get(r.path.as_str()).and_then(|o| vfs.get(o)).and_then(|v| v.spans.first()).and_then(|s| cft.get(&s.cft_offset).map(|c| (s, *c)));
                    let ok = got.is_some_and(|(s, c)| {
                        s.file_offset == 0
                            && s.span_length == r.csize
                            && c.ekey == r.ekey
                            && c.encoded_size == r.esize
                            && c.content_key.as_deref() == r.ckey.as_ref().map(|k| &k[..9])
                            && c.est_index == if flags & 2 != 0 { Some(r.est) } else { None }
                            && c.patch_offset == if flags & 4 != 0 { Some(0) } else { None }
                    });
                    if i + 1 == n {
                        last_off = got.map_or(u32::MAX, |(s, _)| s.cft_offset);
                    }
                    if !ok {
                        wrong += 1;
                        if bad.is_none() {
                            bad = Some(format!("path {:?} (file {i} of {n}) resolves to {:?}, added with ekey {} esize {} csize {}", r.path, got.map(|(s, c)| format!("span {}/{} -> cft@{} ekey {} esize {} ckey {:?} est {:?} patch {:?}", s.file_offset, s.span_length, s.cft_offset, hex(&c.ekey), c.encoded_size, c.content_key.as_ref().map(|k| hex(k)), c.est_index, c.patch_offset)), hex(&r.ekey), r.esize, r.csize));
                        }
                    }
                }
                // the crate's own chain on a sample
                if bad.is_none() {
                    for i in [0, n / 2, n.saturating_sub(1)] {
                        if let Some(r) = recs.get(i) {
                            if !t.resolve_path(&r.path).is_some_and(|c| c.ekey == r.ekey && c.encoded_size == r.esize) {
                                bad = Some(format!("TvfsFile::resolve_path({:?}) does not return the file's container record", r.path));
                            }
                        }
                    }
                }
                if bad.is_none() && nspecs > 0 && t.est_table.as_ref().map(|e| e.specs.clone()) != Some((0..nspecs).map(spec).collect::<Vec<_>>()) {
                    bad = Some("the EST strings read back differ from the ones added".into());
                }
                match bad {
                    Some(m) => self.bp_fail("tvfs", &format!("value-differs-{class}"), format!("{m} ({wrong} of {n} files wrong; container table {} bytes, entry size {})", t.header.cft_table_size, t.header.cft_entry_size()), line),
                    None => self.s.tally("tvfs:program:value-eq"),
                }
                resp = format!("ok es={} cft={} w={} last={}", t.header.cft_entry_size(), t.header.cft_table_size, t.header.cft_offs_size(), last_off);
            }
            Ok(Err(e)) => {
                self.bp_fail("tvfs", &format!("output-rejected-{class}"), format!("{n} files: the builder's output ({} bytes) does not parse: {e}", bytes.len()), line);
                resp = "rejected".to_string();
            }
            Err(p) => {
                self.bp_fail("tvfs", &format!("output-rejected-{class}"), format!("{n} files: the parser panics: {p}"), line);
                resp = "rejected".to_string();
            }
        }
        // the Debug-based fixed-point pipeline on tables of a million entries is thorough-only work
        if n <= 100_000 {
            self.bp_fixed_point("tvfs", &bytes, line);
        } else {
            match catch(AssertUnwindSafe(|| TvfsFile::parse(&bytes).map_err(es).and_then(|t| t.build().map_err(es)))) {
                Ok(Ok(b2)) if b2 == bytes => self.s.tally("tvfs:program:large-rebuild-identical"),
                other => self.bp_fail("tvfs", &format!("large-rebuild-differs-{class}"), format!("{n} files: parse -> build does not give the builder's bytes back ({})", match other { Ok(Ok(b2)) => format!("{} / {} bytes", b2.len(), bytes.len()), Ok(Err(e)) => e, Err(p) => p }), line),
            }
        }
        Some(resp)
    }
}

// ---- count / width boundary families (oracle-only): the builder's VALUE against the parsed content
impl Ctx {
    fn bp_width(&mut self, fmt: &str, v: &[u64], line: &str) -> Option<String> {
        // outcome of one family member: Ok(Some(bytes)) = built, value compared; Ok(None) = the builder
        // refused (allowed on the far side of a width); Err = a failure (what, message)
        type Res = Result<Option<Vec<u8>>, (String, String)>;
        let differs = |class: &str, msg: String| -> Res { Err((format!("value-differs-{class}"), msg)) };
        let cnt = |n: u64| if n >= 65536 { "ge-65536" } else if n >= 256 { "ge-256" } else { "lt-256" };
        let (ofmt, res): (&str, Result<Res, String>) = match (fmt, v) {
            // install: V1 from new(), V2 from a header-only V2 manifest; nt tags, nf files, file i in tag i % nt
            ("installw", &[ver, nt, nf]) if (1..=2).contains(&ver) && nt <= 70_000 && nf <= 200_000 => (
                "install",
                catch(AssertUnwindSafe(|| -> Res {
                    let class = format!("v{ver}-tags-{}-files-{}", cnt(nt), cnt(nf));
                    let mut b = if ver == 1 {
                        InstallManifestBuilder::new()
                    } else {
                        let src = InstallManifest::parse(&frame_install(2, 0, 0)).map_err(|e| ("source-rejected".to_string(), es(e)))?;
                        InstallManifestBuilder::from_manifest(&src)
                    };
                    for j in 0..nt {
                        b = b.add_tag(dtag(j), TAG_TYPES[j as usize % TAG_TYPES.len()]);
                    }
                    for i in 0..nf {
                        b = b.add_file(dpath(i), ContentKey::from_bytes(dkey(i)), dsize32(i));
                    }
                    let sample: Vec<u64> = if nf * nt.max(1) <= 300_000 { (0..nf).collect() } else { (0..nf).filter(|i| i % 97 == 0 || *i + 1 == nf).collect() };
                    if nt > 0 {
                        for &i in &sample {
                            b = b.associate_file_with_tag_by_index(i as usize, (i % nt) as usize).map_err(|e| ("refused".to_string(), es(e)))?;
                        }
                    }
                    let Ok(m) = b.build() else { return Ok(None) };
                    let bytes = m.build().map_err(|e| ("not-serialisable".to_string(), es(e)))?;
                    let p = InstallManifest::parse(&bytes).map_err(|e| (format!("output-rejected-{class}"), es(e)))?;
                    if p.header.version as u64 != ver || p.tags.len() as u64 != nt || p.entries.len() as u64 != nf {
                        return differs(&class, format!("built V{ver} with {nt} tags / {nf} files, parsed V{} with {} / {}", p.header.version, p.tags.len(), p.entries.len()));
                    }
                    for (i, e) in p.entries.iter().enumerate() {
                        let i = i as u64;
                        if e.path != dpath(i) || *e.content_key.as_bytes() != dkey(i) || e.file_size != dsize32(i) || e.file_type != if ver == 2 { Some(0) } else { None } {
                            return differs(&class, format!("entry {i} of {nf} reads back as {e:?}"));
                        }
                    }
                    for (j, t) in p.tags.iter().enumerate() {
                        if t.name != dtag(j as u64) || t.tag_type != TAG_TYPES[j % TAG_TYPES.len()] {
                            return differs(&class, format!("tag {j} of {nt} reads back as {:?}/{:?}", t.name, t.tag_type));
                        }
                    }
                    for &i in &sample {
                        for j in [i % nt.max(1), (i + 1) % nt.max(1)] {
                            if nt > 0 && p.tags[j as usize].has_file(i as usize) != (j == i % nt) {
                                return differs(&class, format!("file {i} / tag {j}: membership reads back wrong"));
                            }
                        }
                    }
                    Ok(Some(bytes))
                })),
            ),
            ("downloadw", &[ver, cks, fs, nt, nf]) if (1..=3).contains(&ver) && cks < 2 && fs <= 4 && nt <= 70_000 && nf <= 200_000 => (
                "download",
                catch(AssertUnwindSafe(|| -> Res {
                    let class = format!("v{ver}-tags-{}-files-{}", cnt(nt), cnt(nf));
                    let r = |e: cascette_formats::download::DownloadError| ("refused".to_string(), es(e));
                    let mut b = DownloadManifestBuilder::new(ver as u8).map_err(r)?.with_checksums(cks == 1);
                    if ver >= 2 {
                        b = b.with_flags(fs as u8).map_err(r)?;
                    }
                    if ver >= 3 {
                        b = b.with_base_priority(-3).map_err(r)?;
                    }
                    let efs = if ver >= 2 { fs as usize } else { 0 };
                    for i in 0..nf {
                        b = b.add_file(EncodingKey::from_bytes(dkey(i)), dsize40(i), (i as u8) as i8).map_err(r)?;
                    }
                    for j in 0..nt {
                        b = b.add_tag(dtag(j), TAG_TYPES[j as usize % TAG_TYPES.len()]);
                    }
                    for i in 0..nf {
                        if cks == 1 {
                            b = b.set_file_checksum(i as usize, dsize32(i) ^ 0x1234_5678).map_err(r)?;
                        }
                        if efs > 0 && i % 3 == 0 {
                            b = b.set_file_flags(i as usize, (0..efs).map(|k| (i as usize + k) as u8).collect()).map_err(r)?;
                        }
                    }
                    let sample: Vec<u64> = if nf <= 3000 { (0..nf).collect() } else { (0..nf).filter(|i| i % 97 == 0 || *i + 1 == nf).collect() };
                    if nt > 0 {
                        for &i in &sample {
                            b = b.associate_file_with_tag(i as usize, &dtag(i % nt)).map_err(r)?;
                        }
                    }
                    let Ok(m) = b.build() else { return Ok(None) };
                    let bytes = m.build().map_err(|e| ("not-serialisable".to_string(), es(e)))?;
                    let p = DownloadManifest::parse(&bytes).map_err(|e| (format!("output-rejected-{class}"), es(e)))?;
                    if p.header.version() as u64 != ver || p.tags.len() as u64 != nt || p.entries.len() as u64 != nf || p.header.has_checksum() != (cks == 1) || p.header.flag_size() as usize != efs {
                        return differs(&class, format!("built V{ver} with {nt} tags / {nf} files, parsed V{} with {} / {}", p.header.version(), p.tags.len(), p.entries.len()));
                    }
                    for (i, e) in p.entries.iter().enumerate() {
                        let i = i as u64;
                        let fl = if efs > 0 { Some(if i % 3 == 0 { (0..efs).map(|k| (i as usize + k) as u8).collect() } else { vec![0; efs] }) } else { None };
                        if *e.encoding_key.as_bytes() != dkey(i) || e.file_size.as_u64() != dsize40(i) || e.priority != (i as u8) as i8 || e.checksum != if cks == 1 { Some(dsize32(i) ^ 0x1234_5678) } else { None } || e.flags != fl {
                            return differs(&class, format!("entry {i} of {nf} reads back as {e:?}"));
                        }
                    }
                    for &i in &sample {
                        for j in [i % nt.max(1), (i + 1) % nt.max(1)] {
                            if nt > 0 && p.tags[j as usize].has_file(i as usize) != (j == i % nt) {
                                return differs(&class, format!("file {i} / tag {j}: membership reads back wrong"));
                            }
                        }
                    }
                    Ok(Some(bytes))
                })),
            ),
            // size manifest: pat 0 = every esize at the cap of the width, 1 = mixed, 2 = u32::MAX each (V2 total at 2^40)
            ("sizew", &[ver, ks, w, nt, nf, pat]) if (1..=2).contains(&ver) && (1..=16).contains(&ks) && (1..=8).contains(&w) && nt <= 70_000 && nf <= 200_000 && pat < 3 => (
                "size",
                catch(AssertUnwindSafe(|| -> Res {
                    let class = format!("v{ver}-w{w}-tags-{}-files-{}", cnt(nt), cnt(nf));
                    let w = if ver == 2 { 4 } else { w };
                    let cap: u64 = if w >= 8 { u64::MAX } else { (1u64 << (8 * w)) - 1 };
                    let esize = |i: u64| match pat {
                        0 => cap,
                        2 => cap.min(u32::MAX as u64),
                        _ => match i % 4 {
                            0 => 0,
                            1 => cap,
                            2 => cap / 256 + 1,
                            _ => i.wrapping_mul(0x9E37_79B9_7F4A_7C15) & cap,
                        },
                    };
                    let mut b = SizeManifestBuilder::new().version(ver as u8).ekey_size(ks as u8);
                    if ver == 1 {
                        b = b.esize_bytes(w as u8);
                    }
                    for i in 0..nf {
                        b = b.add_entry(dkey(i)[..ks as usize].to_vec(), esize(i));
                    }
                    for j in 0..nt {
                        b = b.add_tag(dtag(j), TAG_TYPES[j as usize % TAG_TYPES.len()]);
                    }
                    if nt > 0 {
                        for i in (0..nf).filter(|i| nf <= 3000 || i % 97 == 0) {
                            b = b.tag_file((i % nt) as usize, i as usize);
                        }
                    }
                    let Ok(m) = b.build() else { return Ok(None) };
                    let Ok(bytes) = m.build() else { return Ok(None) };
                    let p = SizeManifest::parse(&bytes).map_err(|e| (format!("output-rejected-{class}"), es(e)))?;
                    if p != m {
                        return differs(&class, "parse(serialise(value)) != value".to_string());
                    }
                    let total = (0..nf).fold(0u64, |a, i| a.wrapping_add(esize(i)));
                    if p.entries.len() as u64 != nf || p.tags.len() as u64 != nt || p.header.total_size() != total || p.entries.iter().enumerate().any(|(i, e)| e.esize != esize(i as u64) || e.key != dkey(i as u64)[..ks as usize]) {
                        return differs(&class, format!("built {nf} entries / {nt} tags / total {total}, parsed {} / {} / {}", p.entries.len(), p.tags.len(), p.header.total_size()));
                    }
                    Ok(Some(bytes))
                })),
            ),
            // root: n records in nb blocks (record i in block i % nb), FileDataIDs 10 + 3 i
            ("rootw", &[ver, named, nb, n]) if (1..=4).contains(&ver) && named < 2 && (1..=3).contains(&nb) && n >= 1 && n <= 200_000 => (
                "root",
                catch(AssertUnwindSafe(|| -> Res {
                    let rv = ROOT_VERSIONS[ver as usize - 1];
                    let class = format!("v{ver}-records-{}", cnt(n));
                    let locs = [LocaleFlags::ENUS, LocaleFlags::DEDE, LocaleFlags::ENUS | LocaleFlags::FRFR];
                    let recs: Vec<RRec> = (0..n)
                        .map(|i| {
                            let blk = (i % nb) as usize;
                            let mut cf = [0u64, 0x8, 0x80][blk];
                            if rv != RootVersion::V1 && named == 0 {
                                cf |= ContentFlags::NO_NAME_HASH;
                            }
                            (10 + 3 * i as u32, dkey(i), if rv == RootVersion::V1 || named == 1 { Some(i.wrapping_mul(0x9E37_79B9_7F4A_7C15)) } else { None }, locs[blk], cf)
                        })
                        .collect();
                    if v2_window_recs(rv, &recs) {
                        return Ok(None);
                    }
                    let mut b = RootBuilder::new(rv);
                    for r in &recs {
                        b.add_file_with_hash(FileDataId::new(r.0), ContentKey::from_bytes(r.1), r.2, LocaleFlags::new(r.3), ContentFlags::new(r.4));
                    }
                    let Ok(bytes) = b.build() else { return Ok(None) };
                    let p = RootFile::parse(&bytes).map_err(|e| (format!("output-rejected-{class}"), es(e)))?;
                    let (want, got) = (root_logical_of(rv, &recs), root_logical(&p));
                    if want != got {
                        return differs(&class, first_diff(&want, &got));
                    }
                    Ok(Some(bytes))
                })),
            ),
            // archive index: n entries under (ks, ob); locations spread over the whole offset width
            ("aidxw", &[ks, ob, n]) if (4..=16).contains(&ks) && (4..=6).contains(&ob) && n <= 300_000 => (
                "aidx",
                catch(AssertUnwindSafe(|| -> Res {
                    let class = format!("ks{ks}-ob{ob}-entries-{}", cnt(n));
                    let top: u64 = 1u64 << (8 * ob);
                    let ent = |i: u64| (dkey(i + 1)[..ks as usize].to_vec(), dsize32(i) | 1, match i % 4 { 0 => top - 1 - i, 1 => i * 4096 % top, 2 => top / 2 + i, _ => i });
                    let mut b = ArchiveIndexBuilder::with_config(ks as u8, ob as u8, 4);
                    for i in 0..n {
                        let (k, s, o) = ent(i);
                        b.add_entry(k, s, o);
                    }
                    let Ok(bytes) = aidx_builder_bytes(b) else { return Ok(None) };
                    let p = aidx_parse(&bytes).map_err(|e| (format!("output-rejected-{class}"), e))?;
                    let mut want: Vec<IndexEntry> = (0..n)
                        .map(|i| {
                            let (k, s, o) = ent(i);
                            IndexEntry { encoding_key: k, size: s, offset: if ob == 6 { o & 0xFFFF_FFFF } else { o }, archive_index: if ob == 6 { Some((o >> 32) as u16) } else { None } }
                        })
                        .collect();
                    want.sort();
                    if p.footer.element_count as u64 != n || p.entries != want {
                        let at = p.entries.iter().zip(want.iter()).position(|(a, b)| a != b);
                        return differs(&class, format!("{n} entries built, {} parsed (footer {}), first differing entry {at:?}", p.entries.len(), p.footer.element_count));
                    }
                    let b2 = aidx_builder_bytes(ArchiveIndexBuilder::from_archive_index(&p)).map_err(|e| (format!("from-archive-index-fails-{class}"), e))?;
                    if b2 != bytes {
                        return Err((format!("from-archive-index-bytes-differ-{class}"), format!("{} / {} bytes", b2.len(), bytes.len())));
                    }
                    Ok(Some(bytes))
                })),
            ),
            // archive group: n entries, archive numbers 0..=amax
            ("agroupw", &[n, amax]) if n <= 300_000 && amax <= 65535 => (
                "agroup",
                catch(AssertUnwindSafe(|| -> Res {
                    let class = format!("archives-{}-entries-{}", cnt(amax + 1), cnt(n));
                    let ent = |i: u64| ArchiveGroupEntry::new(dkey(i + 1).to_vec(), if i % 3 == 0 { amax as u16 } else { ((i * 257) % (amax + 1)) as u16 }, if i % 5 == 0 { u32::MAX - i as u32 } else { (i * 8192) as u32 }, dsize32(i) | 1);
                    let mut b = ArchiveGroupBuilder::new();
                    for i in 0..n {
                        b.add_entry(ent(i));
                    }
                    let mut bytes = Vec::new();
                    if b.build(Cursor::new(&mut bytes)).is_err() {
                        return Ok(None);
                    }
                    let p = group_parse(&bytes).map_err(|e| (format!("output-rejected-{class}"), e))?;
                    let key = |e: &ArchiveGroupEntry| (e.encoding_key.clone(), e.archive_index, e.offset, e.size);
                    let mut want: Vec<_> = (0..n).map(|i| key(&ent(i))).collect();
                    want.sort();
                    let mut got: Vec<_> = p.entries.iter().map(key).collect();
                    got.sort();
                    if got != want {
                        let at = got.iter().zip(want.iter()).position(|(a, b)| a != b);
                        return differs(&class, format!("{n} entries built, {} parsed, first differing entry {at:?}: want {:?} got {:?}", got.len(), at.and_then(|i| want.get(i)), at.and_then(|i| got.get(i))));
                    }
                    Ok(Some(bytes))
                })),
            ),
            // encoding: n CKey entries (entry 0 with k EKeys), sizes by pattern fsz (3 = one size of 2^40), ne distinct ESpec strings
            // of el bytes; mt = 1: the parsed file goes through from_encoding_file + add + remove
            ("encodingw", &[cps, eps, n, k, fsz, ne, el, mt]) if (1..=64).contains(&cps) && (1..=64).contains(&eps) && (1..=100_000).contains(&n) && k <= 300 && fsz < 4 && (1..=70_000).contains(&ne) && (1..=70_000).contains(&el) && ne * el <= 200_000 && mt < 2 => (
                "encoding",
                catch(AssertUnwindSafe(|| -> Res {
                    let class = format!("ekeys-per-ckey-{}-entries-{}-espec-bytes-{}", if k >= 256 { "ge-256" } else if k == 0 { "0" } else { "lt-256" }, cnt(n), cnt(ne * (el + 1)));
                    let size = |i: u64| match fsz {
                        0 => dsize40(i),
                        1 => 0xFF_FFFF_FFFF,
                        3 if i == 1 => 1 << 40,
                        _ => [0xFFFF_FFFFu64, 0x1_0000_0000, 0xFFFF_FFFF_FF, 0][i as usize % 4],
                    };
                    let spec = |j: u64| -> String {
                        let d = format!("{j}");
                        let mut s = String::from("z");
                        while s.len() + d.len() < el as usize {
                            s.push('0');
                        }
                        s.push_str(&d);
                        s.truncate((el as usize).max(1));
                        s
                    };
                    let ekeys_of = |i: u64| -> Vec<[u8; 16]> { (0..if i == 0 { k } else { 1 }).map(|j| dkey(1_000_000 + i * 512 + j)).collect() };
                    let ck_line = |ck: &[u8; 16], sz: u64, eks: &[[u8; 16]]| format!("{}:{}:{}", hex(ck), sz, eks.iter().map(|e| hex(e)).collect::<Vec<_>>().join("+"));
                    let ek_line = |ek: &[u8; 16], sz: u64, sp: &str| format!("{}:{}:{:?}", hex(ek), sz, Some(sp));
                    let mut b = EncodingBuilder::new().with_page_sizes(cps as u16, eps as u16);
                    let (mut ck, mut ek) = (vec![], vec![]);
                    for i in 0..n {
                        let eks = ekeys_of(i);
                        b.add_ckey_entry(CKeyEntryData { content_key: ContentKey::from_bytes(dkey(i + 1)), file_size: size(i), encoding_keys: eks.iter().map(|e| EncodingKey::from_bytes(*e)).collect() });
                        ck.push(ck_line(&dkey(i + 1), size(i), &eks));
                        let e0 = dkey(1_000_000 + i * 512);
                        let sp = spec(i % ne);
                        b.add_ekey_entry(EKeyEntryData { encoding_key: EncodingKey::from_bytes(e0), espec: sp.clone(), file_size: size(i + 1) });
                        ek.push(ek_line(&e0, size(i + 1), &sp));
                    }
                    let render = |ck: &[String], ek: &[String]| {
                        let (mut ck, mut ek) = (ck.to_vec(), ek.to_vec());
                        ck.sort();
                        ek.sort();
                        format!("cps={cps} eps={eps} ckeys={} ekeys={} ck=[{}] ek=[{}]", ck.len(), ek.len(), ck.join(" "), ek.join(" "))
                    };
                    let Ok(f) = b.build() else { return Ok(None) };
                    let Ok(bytes) = f.build() else { return Ok(None) };
                    let p = <EncodingFile as CascFormat>::parse(&bytes).map_err(|e| (format!("output-rejected-{class}"), es(e)))?;
                    let (want, got) = (render(&ck, &ek), enc_logical(&p));
                    if want != got {
                        return differs(&class, first_diff(&want, &got));
                    }
                    if mt == 1 {
                        // builder-as-mutator: load, add one CKey and one EKey entry, build, parse; remove them again
                        let (nck, nek) = (dkey(77_777_777), dkey(88_888_888));
                        let mut b2 = EncodingBuilder::from_encoding_file(&p);
                        b2.add_ckey_entry(CKeyEntryData { content_key: ContentKey::from_bytes(nck), file_size: 0x1_0000_0001, encoding_keys: vec![EncodingKey::from_bytes(nek)] });
                        b2.add_ekey_entry(EKeyEntryData { encoding_key: EncodingKey::from_bytes(nek), espec: "b:{256K*=z}".to_string(), file_size: 0xFF_FFFF_FFFE });
                        let f2 = b2.build().map_err(|e| (format!("mutator-add-refused-{class}"), es(e)))?;
                        let by2 = f2.build().map_err(|e| (format!("mutator-add-refused-{class}"), es(e)))?;
                        let p2 = <EncodingFile as CascFormat>::parse(&by2).map_err(|e| (format!("mutator-add-output-rejected-{class}"), es(e)))?;
                        let (mut ck2, mut ek2) = (ck.clone(), ek.clone());
                        ck2.push(ck_line(&nck, 0x1_0000_0001, &[nek]));
                        ek2.push(ek_line(&nek, 0xFF_FFFF_FFFE, "b:{256K*=z}"));
                        let (want2, got2) = (render(&ck2, &ek2), enc_logical(&p2));
                        if want2 != got2 {
                            return Err((format!("mutator-add-value-differs-{class}"), first_diff(&want2, &got2)));
                        }
                        let mut b3 = EncodingBuilder::from_encoding_file(&p2);
                        if !b3.remove_ckey_entry(&ContentKey::from_bytes(nck)) || !b3.remove_ekey_entry(&EncodingKey::from_bytes(nek)) {
                            return Err((format!("mutator-remove-fails-{class}"), "remove_*_entry does not find the added key".to_string()));
                        }
                        let f3 = b3.build().map_err(|e| (format!("mutator-remove-fails-{class}"), es(e)))?;
                        let by3 = f3.build().map_err(|e| (format!("mutator-remove-fails-{class}"), es(e)))?;
                        let p3 = <EncodingFile as CascFormat>::parse(&by3).map_err(|e| (format!("mutator-remove-output-rejected-{class}"), es(e)))?;
                        let got3 = enc_logical(&p3);
                        if want != got3 {
                            return Err((format!("mutator-remove-value-differs-{class}"), first_diff(&want, &got3)));
                        }
                    }
                    Ok(Some(bytes))
                })),
            ),
            // patch archive: n entries (entry 0 with np patches, the others 1 + i % 2), encoding-info ESpec
            // of el bytes (0 = no encoding info), sizes by pattern dsz (1 = one size above 40 bits)
            ("parchivew", &[ver, bits, n, np, el, dsz]) if ver <= 3 && bits <= 30 && (1..=100_000).contains(&n) && np <= 300 && el <= 300 && dsz < 2 => (
                "parchive",
                catch(AssertUnwindSafe(|| -> Res {
                    let class = format!("patches-per-entry-{}-espec-{}-entries-{}{}", if np >= 256 { "ge-256" } else if np == 0 { "0" } else { "lt-256" }, if el >= 256 { "ge-256" } else { "lt-256" }, cnt(n), if dsz == 1 { "-size-ge-2-40" } else { "" });
                    let mut b = PatchArchiveBuilder::new().version(ver as u8).block_size_bits(bits as u8);
                    let info = if el > 0 { Some(PatchArchiveEncodingInfo { encoding_ckey: dkey(5), encoding_ekey: dkey(6), decoded_size: u32::MAX, encoded_size: 0x8000_0000, espec: "b".repeat(el as usize) }) } else { None };
                    if let Some(i) = &info {
                        b = b.encoding_info(i.clone());
                    }
                    let mut want: Vec<PatchFileEntry> = vec![];
                    for i in 0..n {
                        let k = if i == 0 { np } else { 1 + i % 2 };
                        let patches: Vec<FilePatch> = (0..k).map(|j| FilePatch { source_ekey: dkey(i * 1000 + j + 7), source_decoded_size: dsize40(i + j), patch_ekey: dkey(i * 1000 + j + 500), patch_size: dsize32(i + j), patch_index: j as u8 }).collect();
                        let e = PatchFileEntry { target_ckey: dkey(i + 1), decoded_size: if dsz == 1 && i == 0 { 0x100_0000_0001 } else { dsize40(i + 3) }, patches };
                        b.add_entry(e.clone());
                        want.push(e);
                    }
                    let Ok(bytes) = b.build() else { return Ok(None) };
                    let p = <PatchArchive as CascFormat>::parse(&bytes).map_err(|e| (format!("output-rejected-{class}"), es(e)))?;
                    want.sort_by(|a, b| a.target_ckey.cmp(&b.target_ckey));
                    let mut got: Vec<PatchFileEntry> = p.all_file_entries().cloned().collect();
                    got.sort_by(|a, b| a.target_ckey.cmp(&b.target_ckey));
                    if got != want {
                        let at = got.iter().zip(want.iter()).position(|(a, b)| a != b).unwrap_or(got.len().min(want.len()));
                        return differs(&class, format!("{n} entries built, {} parsed; entry {at}: want {} got {}", got.len(), want.get(at).map_or("-".into(), |e| format!("{} patches, size {}", e.patches.len(), e.decoded_size)), got.get(at).map_or("-".into(), |e| format!("{} patches, size {}", e.patches.len(), e.decoded_size))));
                    }
                    if p.header.version as u64 != ver || p.header.block_size_bits as u64 != bits || p.encoding_info != info {
                        return differs(&class, format!("header / encoding info read back differ: version {} bits {} info {:?}", p.header.version, p.header.block_size_bits, p.encoding_info.as_ref().map(|i| i.espec.len())));
                    }
                    Ok(Some(bytes))
                })),
            ),
            ("pindexw", &[ks, n]) if ks <= 16 && n <= 100_000 => (
                "pindex",
                catch(AssertUnwindSafe(|| -> Res {
                    let class = format!("entries-{}", cnt(n));
                    let cut = |k: [u8; 16]| {
                        let mut o = [0u8; 16];
                        o[..ks as usize].copy_from_slice(&k[..ks as usize]);
                        o
                    };
                    let ent = |i: u64| PatchIndexEntry { source_ekey: cut(dkey(3 * i)), source_size: dsize32(i), target_ekey: cut(dkey(3 * i + 1)), target_size: dsize32(i + 1), encoded_size: dsize32(i + 2), suffix_offset: i as u8, patch_ekey: cut(dkey(3 * i + 2)) };
                    let mut b = PatchIndexBuilder::new().key_size(ks as u8);
                    for i in 0..n {
                        b.add_entry(ent(i));
                    }
                    let Ok(bytes) = b.build() else { return Ok(None) };
                    let p = <PatchIndex as CascFormat>::parse(&bytes).map_err(|e| (format!("output-rejected-{class}"), es(e)))?;
                    let want: Vec<PatchIndexEntry> = (0..n).map(ent).collect();
                    if p.key_size as u64 != ks || format!("{:?}", p.entries) != format!("{want:?}") {
                        return differs(&class, format!("{n} entries of key size {ks} built, {} of key size {} parsed (or other content)", p.entries.len(), p.key_size));
                    }
                    Ok(Some(bytes))
                })),
            ),
            // ZBSDIFF: old/new of the given lengths, builder kind 0 simple / 1 chunked / 2 build / 3 optimized
            ("zbsw", &[ol, nl, kind]) if ol <= 300_000 && nl <= 300_000 && kind < 4 => (
                "zbsdiff",
                catch(AssertUnwindSafe(|| -> Res {
                    let class = format!("old-{}-new-{}", cnt(ol), cnt(nl));
                    let old: Vec<u8> = (0..ol).map(|i| (i * 7 + i / 251) as u8).collect();
                    let new: Vec<u8> = (0..nl).map(|i| if i % 97 == 13 { 0xEE } else { ((i + 3) * 7 + (i + 3) / 251) as u8 }).collect();
                    let b = ZbsdiffBuilder::new(old.clone(), new.clone());
                    let r = match kind {
                        0 => b.build_simple_patch(),
                        1 => b.build_chunked_patch(),
                        2 => b.build(),
                        _ => b.build_optimized_patch(),
                    };
                    let Ok(bytes) = r else { return Ok(None) };
                    let p = ZbsDiff::parse(&bytes).map_err(|e| (format!("output-rejected-{class}"), es(e)))?;
                    let out = p.apply(&old).map_err(|e| (format!("value-differs-{class}"), format!("apply fails: {e}")))?;
                    if out != new || p.header.output_size as u64 != nl {
                        return differs(&class, format!("applying the parsed patch gives {} bytes (header says {}), the builder was given {nl}", out.len(), p.header.output_size));
                    }
                    Ok(Some(bytes))
                })),
            ),
            ("bpsvw", &[nf, nr, seq]) if (1..=300).contains(&nf) && nr <= 70_000 => (
                "bpsv",
                catch(AssertUnwindSafe(|| -> Res {
                    let class = format!("fields-{}-rows-{}", cnt(nf), cnt(nr));
                    let mut b = BpsvBuilder::new();
                    for i in 0..nf {
                        b.add_field(BpsvField::new(format!("F{i}"), match i % 3 { 0 => BpsvType::String(0), 1 => BpsvType::Hex(16), _ => BpsvType::Dec(4) }));
                    }
                    if seq <= u32::MAX as u64 {
                        b.set_sequence(seq as u32);
                    }
                    for r in 0..nr {
                        let row = (0..nf)
                            .map(|i| match (i % 3, (r + i) % 7) {
                                (_, 0) => BpsvValue::Empty,
                                (0, _) => BpsvValue::String(format!("s{r}x{i}")),
                                (1, _) => BpsvValue::Hex(dkey(r * 300 + i).to_vec()),
                                _ => BpsvValue::Dec([0i64, -1, 1, i64::MAX, i64::MIN, 4_294_967_296, 65_536][((r + i) % 7) as usize]),
                            })
                            .collect();
                        if b.add_row(row).is_err() {
                            return Ok(None);
                        }
                    }
                    let doc = b.build();
                    let bytes = CascFormat::build(&doc).map_err(|e| ("not-serialisable".to_string(), es(e)))?;
                    let p = <BpsvDocument as CascFormat>::parse(&bytes).map_err(|e| (format!("output-rejected-{class}"), es(e)))?;
                    let (want, got) = (cdbg(&doc), cdbg(&p));
                    if want != got {
                        return differs(&class, first_diff(&want, &got));
                    }
                    Ok(Some(bytes))
                })),
            ),
            // ESpec value with a block of `size` bytes repeated `count` times (count 0 = no count)
            ("especw", &[size, count, lvl]) if count <= u32::MAX as u64 && lvl <= 9 => (
                "espec",
                catch(AssertUnwindSafe(|| -> Res {
                    let class = if size % (1 << 20) == 0 { "size-M" } else if size % 1024 == 0 { "size-K" } else { "size-bytes" };
                    let z = ESpec::ZLib { level: if lvl == 0 { None } else { Some(lvl as u8) }, variant: None, window_bits: None };
                    let v = ESpec::BlockTable { chunks: vec![BlockChunk { size_spec: Some(BlockSizeSpec { size, count: if count == 0 { None } else { Some(count as u32) } }), spec: z }, BlockChunk { size_spec: None, spec: ESpec::None }] };
                    let text = v.to_string();
                    let p = cascette_formats::espec::parse(&text).map_err(|e| (format!("output-rejected-{class}"), format!("{text:?}: {e}")))?;
                    if p != v {
                        return differs(class, format!("{text:?} parses to {p:?}"));
                    }
                    Ok(Some(text.into_bytes()))
                })),
            ),
            // data archive (ArchiveBuilder): n BLTE blobs of len bytes; the entries index the archive
            ("archivew", &[n, len, z]) if n <= 5000 && len <= 100_000 && z < 2 => (
                "blte",
                catch(AssertUnwindSafe(|| -> Res {
                    let class = format!("blobs-{}", cnt(n));
                    let content = |i: u64| -> Vec<u8> { (0..len).map(|j| (i * 13 + j * 5 + 1) as u8).collect() };
                    let mut ab = ArchiveBuilder::new(Cursor::new(Vec::new()));
                    for i in 0..n {
                        let r = if z == 1 { ab.add_content_zlib(&content(i)) } else { ab.add_content_uncompressed(&content(i)) };
                        r.map_err(|e| ("refused".to_string(), es(e)))?;
                    }
                    let (w, ents) = ab.finish().map_err(|e| ("refused".to_string(), es(e)))?;
                    let data = w.into_inner();
                    let mut ib = ArchiveIndexBuilder::new();
                    for e in &ents {
                        ib.add_entry_full(e.encoding_key, e.size, e.offset);
                    }
                    let idx = aidx_builder_bytes(ib).map_err(|e| ("refused".to_string(), e))?;
                    let p = aidx_parse(&idx).map_err(|e| (format!("output-rejected-{class}"), e))?;
                    if ents.len() as u64 != n || p.entries.len() as u64 != n {
                        return differs(&class, format!("{n} blobs added, {} entries returned, {} indexed", ents.len(), p.entries.len()));
                    }
                    for (i, e) in ents.iter().enumerate() {
                        let Some(ie) = p.find_entry(&e.encoding_key) else { return differs(&class, format!("blob {i}: key not found in the index")) };
                        let sl = data.get(ie.offset as usize..ie.offset as usize + ie.size as usize).ok_or((format!("value-differs-{class}"), format!("blob {i}: indexed range outside the archive")))?;
                        let back = <BlteFile as CascFormat>::parse(sl).map_err(es).and_then(|f| f.decompress().map_err(es));
                        if back.as_deref() != Ok(&content(i as u64)[..]) || *md5::compute(sl) != e.encoding_key {
                            return differs(&class, format!("blob {i}: the indexed range does not decode to the content added"));
                        }
                    }
                    Ok(Some(idx))
                })),
            ),
            _ => return None,
        };
        let wfmt = fmt;
        self.s.tally(&format!("{wfmt}:program"));
        match res {
            Err(p) => {
                self.s.case(None);
                self.bp_fail(ofmt, &format!("panics-{wfmt}"), format!("panic: {p}"), line);
            }
            Ok(Err((what, msg))) => {
                self.s.case(Some(&format!("bp:{line}")));
                self.bp_fail(ofmt, &what, msg, line);
            }
            Ok(Ok(None)) if bp_may_refuse(wfmt, v) => {
                self.s.case(None);
                self.s.tally(&format!("{wfmt}:program:refused(beyond-a-field-width)"));
            }
            Ok(Ok(None)) => {
                self.s.case(None);
                self.bp_fail(ofmt, &format!("refused-{wfmt}"), "a program whose counts and sizes fit every field is refused by the builder".to_string(), line);
            }
            Ok(Ok(Some(bytes))) => {
                self.s.case(Some(&format!("bp:{line}")));
                self.s.tally(&format!("{wfmt}:program:value-eq"));
                self.bp_fixed_point(if wfmt == "archivew" { "aidx" } else { ofmt }, &bytes, line);
            }
        }
        Some("-".into())
    }
}

/// family members on the far side of a field width: the builder may refuse them (if it builds, the
/// value must still read back)
fn bp_may_refuse(fmt: &str, v: &[u64]) -> bool {
    match (fmt, v) {
        ("installw", &[_, nt, _]) => nt > 65535,
        ("downloadw", &[_, _, _, nt, _]) => nt > 65535,
        ("sizew", &[ver, _, _, nt, nf, _]) => nt > 65535 || (ver == 2 && nf >= 257),
        ("rootw", &[ver, named, _, n]) => ver == 2 && (16..100).contains(&n) && (named == 0 || n < 10),
        ("encodingw", &[cps, _, _, k, fsz, ..]) => k == 0 || k >= 256 || 22 + 16 * k > cps * 1024 || fsz == 3,
        ("parchivew", &[ver, bits, _, np, el, dsz]) => !(1..=2).contains(&ver) || !(12..=24).contains(&bits) || np == 0 || np >= 256 || el >= 256 || dsz == 1,
        ("zbsw", &[ol, nl, _]) => ol == 0 || nl == 0,
        _ => false,
    }
}

// ---- generators of `bp` lines --------------------------------------------------------------------

/// (h) builder programs by parameters: builder-as-mutator programs for install V1/V2 and download
/// V1-V3 (from empty and from a hand-framed manifest of every version), and the count / width
/// boundary family of every builder under crates/cascette-formats/src/*/builder.rs
fn builder_programs(cx: &mut Ctx, rng: &mut Rng, th: bool) {
    // -- install: the smallest members first
    let isrc = |ver: u8, nt: usize, nf: usize| hex(&frame_install(ver, nt, nf));
    for (src, ops) in [
        ("new".to_string(), "af1"),
        (isrc(1, 0, 0), "af1"),
        (isrc(2, 0, 0), "af1"),
        (isrc(2, 1, 2), "-"),
        (isrc(2, 1, 2), "af1"),
        (isrc(2, 1, 2), "aw1.0,af2"),
        (isrc(1, 1, 2), "aw1.0,af2"),
        (isrc(2, 2, 8), "af1,rf0,at9.16,as3.2,ds0.0,rt0"),
        (isrc(1, 2, 9), "rf8,af1,rf0,at9.16,as3.2,ds0.0,rt0"),
        (isrc(2, 2, 3), "rf0,rf0,rf0,af4"),
    ] {
        cx.run_req(&format!("bp install {src} {ops}"));
    }
    for _ in 0..(if th { 400 } else { 45 }) {
        let (mut nt, mut nf) = (rng.below(4) as usize, *rng.pick(&[0usize, 1, 2, 7, 8, 9, 16, 17]));
        let src = match rng.below(5) {
            0 => {
                (nt, nf) = (0, 0);
                "new".to_string()
            }
            1 | 2 => isrc(1, nt, nf),
            _ => isrc(2, nt, nf),
        };
        let mut ops = vec![];
        let mut next = 1u64;
        for _ in 0..rng.range(1, 9) {
            match rng.below(12) {
                0..=3 => {
                    ops.push(format!("af{next}"));
                    next += 1;
                    nf += 1;
                }
                4 if nt > 0 => {
                    ops.push(format!("aw{next}.{}", rng.below(nt as u64)));
                    next += 1;
                    nf += 1;
                }
                5 | 6 if nf > 0 => {
                    let r = rng.below(nf as u64) as usize;
                    ops.push(format!("rf{}", *rng.pick(&[0, nf - 1, r])));
                    nf -= 1;
                }
                7 => {
                    ops.push(format!("at{next}.{}", rng.pick(&[1u16, 2, 3, 0x10, 0x8000])));
                    next += 1;
                    nt += 1;
                }
                8 if nt > 0 => {
                    ops.push(format!("rt{}", rng.below(nt as u64)));
                    nt -= 1;
                }
                9 | 10 if nt > 0 && nf > 0 => ops.push(format!("as{}.{}", rng.below(nf as u64), rng.below(nt as u64))),
                11 if nt > 0 && nf > 0 => ops.push(format!("ds{}.{}", rng.below(nf as u64), rng.below(nt as u64))),
                _ => {
                    ops.push(format!("af{next}"));
                    next += 1;
                    nf += 1;
                }
            }
        }
        cx.run_req(&format!("bp install {src} {}", ops.join(",")));
    }
    // -- download
    for _ in 0..(if th { 400 } else { 60 }) {
        let ver = rng.range(1, 3) as u8;
        let cks = rng.chance(1, 2);
        let fs = if ver >= 2 { *rng.pick(&[0u8, 0, 1, 2, 4]) } else { 0 };
        let bp = if ver >= 3 { *rng.pick(&[0i8, -3, 5, -128, 127]) } else { 0 };
        let (mut nt, mut nf) = (rng.below(4) as usize, *rng.pick(&[0usize, 1, 2, 7, 8, 9, 16, 17]));
        let src = if rng.chance(1, 4) {
            (nt, nf) = (0, 0);
            format!("new:{ver}:{}:{fs}:{bp}", cks as u8)
        } else {
            hex(&frame_download(ver, if cks { *rng.pick(&[1u8, 1, 2, 255]) } else { 0 }, fs, bp, nt, nf))
        };
        let mut ops = vec![];
        let mut next = 1u64;
        let mut added: Vec<u64> = vec![];
        for _ in 0..rng.range(1, 9) {
            let prio = *rng.pick(&[0i8, 1, -1, 5, 127, -128]);
            match rng.below(16) {
                0..=3 => {
                    ops.push(format!("af{next}.{prio}"));
                    added.push(next);
                    next += 1;
                    nf += 1;
                }
                4 | 5 if nf > 0 => {
                    let r = rng.below(nf as u64) as usize;
                    ops.push(format!("rf{}", *rng.pick(&[0, nf - 1, r])));
                    nf -= 1;
                }
                6 if !added.is_empty() => {
                    // (the key may have been removed by index before: then the call must say so)
                    let id = *rng.pick(&added);
                    ops.push(format!("rk{id}"));
                }
                7 => ops.push(format!("rk{}", 200 + rng.below(20))),
                8 => {
                    ops.push(format!("at{next}.{}", rng.pick(&[1u16, 2, 3, 0x10, 0x8000])));
                    next += 1;
                    nt += 1;
                }
                9 if nt > 0 => {
                    ops.push(format!("rt{}", rng.below(nt as u64)));
                    nt -= 1;
                }
                10 | 11 if nt > 0 && nf > 0 => ops.push(format!("as{}.{}", rng.below(nf as u64), rng.below(nt as u64))),
                12 if nt > 0 && nf > 0 => ops.push(format!("ds{}.{}", rng.below(nf as u64), rng.below(nt as u64))),
                13 if nf > 0 => ops.push(format!("{}{}.{}", rng.pick(&["uk", "us"]), rng.below(nf as u64), 500 + rng.below(12))),
                14 if nf > 0 => ops.push(format!("up{}.{prio}", rng.below(nf as u64))),
                15 if nf > 0 && fs > 0 => ops.push(format!("sf{}.{}", rng.below(nf as u64), hex(&rng.bytes(fs as usize)))),
                _ => {
                    ops.push(format!("af{next}.{prio}"));
                    added.push(next);
                    next += 1;
                    nf += 1;
                }
            }
        }
        // `rk` after an `rf` may name a file that is gone: nf is then only an upper bound, which the
        // reference handles (ops on indices that do not exist are checked to be refused / skipped)
        cx.run_req(&format!("bp download {src} {}", ops.join(",")));
    }
    // -- BLTE: chunk counts across 2^8 and 2^16 (2^24 chunks need > 400 MB: not reached)
    for via in ["c", "d", "x"] {
        for n in [1usize, 2, 3, 254, 255, 256, 257] {
            cx.run_req(&format!("bp blte {via} {} {n} {}", if n == 2 || n == 256 { "z" } else { "n" }, rng.range(1, 4)));
        }
    }
    let big = 65536 + rng.below(if th { 200_000 } else { 6000 }) as usize;
    for (via, n, len) in [("c", 65535usize, 2usize), ("c", 65536, 2), ("c", 65537, 1), ("d", 65536, 1), ("x", 65536, 1), ("d", 65535, 3), ("c", big, 1)] {
        cx.run_req(&format!("bp blte {via} n {n} {len}"));
    }
    // -- TVFS: n · entry_size across 0xFF and 0xFFFF for every flag combination, with the entry size
    // before and after each widening of the patch-offset field (both ends of the window in which
    // the width depends on itself), EST sizes across 0xFF / 0xFFFF
    for flags in 0u64..8 {
        let ests: Vec<(u64, u64)> = if flags & 2 != 0 {
            let mut v = vec![(3u64, 8u64)];
            v.push(*rng.pick(&[(15, 16), (16, 15), (1, 254), (1, 255)]));
            if th || flags == 7 || rng.chance(1, 3) {
                v.push(*rng.pick(&[(257, 254), (256, 255), (4096, 15)]));
            }
            v
        } else {
            vec![(0, 0)]
        };
        for (ns, sl) in ests {
            let est_size = ns * (sl + 1);
            let ew = if flags & 2 == 0 { 0 } else if est_size > 0xFFFF { 3 } else if est_size > 0xFF { 2 } else { 1 };
            let base = 13 + if flags & 1 != 0 { 9 } else { 0 } + ew;
            let mut ns_: Vec<u64> = vec![1, 2];
            for t in [0xFFu64, 0xFFFF] {
                for es in if flags & 4 != 0 { vec![base + 1, base + 2, base + 3] } else { vec![base] } {
                    ns_.extend([t / es - 1, t / es, t / es + 1, t / es + 2]);
                }
            }
            if flags & 4 != 0 {
                // inside the self-referential window
                let (lo, hi) = (0xFFFF / (base + 3) + 1, 0xFFFF / (base + 2));
                ns_.push(lo + rng.below(hi - lo + 1));
                let (lo, hi) = (0xFF / (base + 2) + 1, 0xFF / (base + 1));
                if hi >= lo {
                    ns_.push(lo + rng.below(hi - lo + 1));
                }
            }
            ns_.sort_unstable();
            ns_.dedup();
            for n in ns_ {
                // big EST tables only with a few file counts
                if est_size > 4096 && !(n < 30 || n % 3 == 0) {
                    continue;
                }
                cx.run_req(&format!("bp tvfs {flags} {ns} {sl} {n}"));
            }
        }
        // the 0xFFFFFF crossing (about 20 s per case): INCLUDE_CKEY|PATCH_SUPPORT on both sides, all flags once
        if th && (flags == 5 || flags == 7) {
            let es = 13 + 9 + if flags & 2 != 0 { 1 } else { 0 } + 3;
            for n in if flags == 5 { vec![0xFF_FFFFu64 / es, 0xFF_FFFF / es + 1] } else { vec![0xFF_FFFF / es + 1] } {
                cx.run_req(&format!("bp tvfs {flags} {} 8 {n}", if flags & 2 != 0 { 3 } else { 0 }));
            }
        }
    }
    // -- counts and widths of the other builders
    let j = |rng: &mut Rng| rng.below(40);
    let mut lines: Vec<String> = vec![];
    for ver in [1u64, 2] {
        for (nt, nf) in [(0u64, 1u64), (3, 255), (3, 256), (2, 257), (255, 9), (256, 9), (257, 17), (65535, 3), (65536, 3), (2, 65535), (2, 65536), (1, 65537 + j(rng))] {
            lines.push(format!("installw {ver} {nt} {nf}"));
        }
    }
    for ver in [1u64, 2, 3] {
        let (cks, fs) = (rng.below(2), if ver >= 2 { rng.below(5) } else { 0 });
        for (nt, nf) in [(0u64, 1u64), (3, 255), (3, 256), (2, 257), (255, 9), (256, 9), (257, 17), (65535, 3), (65536, 3), (2, 65535), (2, 65536 + j(rng))] {
            lines.push(format!("downloadw {ver} {cks} {fs} {nt} {nf}"));
        }
    }
    for w in 1u64..=8 {
        lines.push(format!("sizew 1 {} {w} {} {} {}", rng.pick(&[1u64, 9, 16]), rng.below(3), rng.pick(&[1u64, 2, 9, 255, 256, 257]), if w == 8 { 1 } else { rng.below(2) }));
    }
    for (ver, nt, nf, pat) in [(1u64, 2u64, 65535u64, 1u64), (1, 2, 65536, 1), (2, 1, 65537, 1), (1, 255, 9, 1), (1, 256, 9, 1), (2, 257, 9, 1), (1, 65535, 3, 1), (2, 65536, 3, 1), (2, 2, 255, 2), (2, 2, 256, 2), (2, 2, 257, 2), (2, 0, 258, 0)] {
        lines.push(format!("sizew {ver} 9 4 {nt} {nf} {pat}"));
    }
    for ver in 1u64..=4 {
        for n in [255u64, 256, 257, 65535, 65536 + j(rng)] {
            lines.push(format!("rootw {ver} {} {} {n}", rng.below(2), rng.range(1, 3)));
        }
    }
    for (ks, ob) in [(16u64, 4u64), (9, 5), (16, 6), (4, 4)] {
        for n in [255u64, 256, 257, 65535, 65536, 65537 + j(rng)] {
            if ks == 4 && n > 60000 {
                continue;
            }
            lines.push(format!("aidxw {ks} {ob} {n}"));
        }
    }
    for (n, amax) in [(300u64, 0u64), (300, 255), (300, 256), (300, 65535), (65535, 257), (65536, 65535), (65537 + j(rng), 3)] {
        lines.push(format!("agroupw {n} {amax}"));
    }
    for (cps, eps, n, k, fsz, ne, el, mt) in [
        (4u64, 4u64, 40u64, 1u64, 0u64, 3u64, 5u64, 1u64),
        (4, 1, 300, 2, 2, 4, 7, 1),
        (1, 2, 6700 + j(rng), 1, 0, 3, 5, 1),
        (8, 4, 10, 254, 0, 3, 5, 1),
        (8, 4, 10, 255, 1, 3, 5, 1),
        (8, 4, 10, 256, 0, 3, 5, 0),
        (8, 4, 10, 257, 0, 3, 5, 0),
        (8, 4, 10, 0, 0, 3, 5, 0),
        (4, 4, 10, 254, 0, 3, 5, 0),
        (4, 4, 10, 255, 0, 3, 5, 0),
        (1, 1, 30, 62, 0, 3, 5, 0),
        (1, 1, 30, 63, 0, 3, 5, 0),
        (4, 4, 30, 1, 3, 3, 5, 0),
        (4, 4, 300, 1, 0, 1, 254, 1),
        (4, 4, 300, 1, 0, 1, 255, 1),
        (4, 4, 300, 1, 0, 255, 256, 1),
        (4, 4, 300, 1, 0, 256, 255, 1),
        (4, 4, 300, 1, 0, 257, 254, 1),
        (2, 2, 65536 + j(rng), 1, 0, 300, 9, 0),
    ] {
        lines.push(format!("encodingw {cps} {eps} {n} {k} {fsz} {ne} {el} {mt}"));
    }
    for (ver, bits, n, np, el, dsz) in [
        (2u64, 16u64, 100u64, 2u64, 10u64, 0u64),
        (1, 12, 300, 1, 0, 0),
        (2, 12, 64 * 255, 1, 0, 0),
        (2, 12, 64 * 256 + j(rng), 1, 3, 0),
        (2, 12, 30, 254, 254, 0),
        (2, 12, 30, 255, 255, 0),
        (2, 16, 30, 256, 10, 0),
        (2, 16, 30, 257, 10, 0),
        (2, 16, 30, 0, 10, 0),
        (2, 16, 30, 1, 256, 0),
        (2, 16, 30, 1, 257, 0),
        (2, 16, 30, 1, 0, 1),
        (2, 24, 70000, 1, 0, 0),
        (2, 11, 30, 1, 0, 0),
        (2, 25, 30, 1, 0, 0),
        (0, 16, 30, 1, 0, 0),
        (3, 16, 30, 1, 0, 0),
    ] {
        lines.push(format!("parchivew {ver} {bits} {n} {np} {el} {dsz}"));
    }
    for (ks, n) in [(16u64, 255u64), (16, 256), (9, 257), (16, 65535), (16, 65536), (1, 65537 + j(rng)), (0, 3)] {
        lines.push(format!("pindexw {ks} {n}"));
    }
    for (ol, nl) in [(255u64, 256u64), (256, 255), (257, 65535), (65535, 65536), (65536, 65537), (65537 + j(rng), 300), (1, 1)] {
        lines.push(format!("zbsw {ol} {nl} {}", rng.below(4)));
    }
    for (nf, nr, seq) in [(3u64, 255u64, 0u64), (3, 256, 255), (255, 3, 256), (256, 3, 65535), (257, 2, 65536), (2, 65535, 4294967295), (2, 65536 + j(rng), 4294967296)] {
        lines.push(format!("bpsvw {nf} {nr} {seq}"));
    }
    for size in [0u64, 1, 255, 256, 1023, 1024, 1025, 65535, 65536, 1_048_575, 1_048_576, 1_048_577, 1_049_600, 4_294_967_295, 4_294_967_296, 1 << 40, (1 << 40) + 1024, u64::MAX, u64::MAX - 1023] {
        lines.push(format!("especw {size} {} {}", rng.pick(&[0u64, 1, 255, 256, 65536, 4_294_967_295]), rng.below(10)));
    }
    for (n, len, z) in [(255u64, 3u64, 0u64), (256, 1, 1), (257, 70, 0), (3, 70000, 1)] {
        lines.push(format!("archivew {n} {len} {z}"));
    }
    for l in lines {
        cx.run_req(&format!("bp {l}"));
    }
}
