//! C11 — concurrent use of MemoryCache under a schedule controller: real code vs the Lean
//! interleaving model (K) and the property's own oracle (O).
//!
//! Needs the harness feature `hooks` (= `cascette-cache/verif-hooks`): `sched_point("<site>")`
//! calls sit between consecutive shared-state accesses of MemoryCache. The controller below
//! installs a callback that parks the calling worker thread until it is released, releases
//! exactly one worker per step and so replays ANY schedule (list of thread indices)
//! deterministically on the real cache.
//!
//! Protocol, one self-contained case per line (see lean/Driver/C11.lean):
//!   run max=<n> pol=lru|fifo pre=<ops> t=<ops>|<ops>[|<ops>] s=<digits>
//!   -> pre=<answers> r=<answers>|… tr=<site per step>/<drain> n=<entry_count> b=<memory_usage> m=<contents>
//! ops: g<k> c<k> r<k> z p<k>:<hex> x<k>:<hex> (x = put_with_ttl with TTL 0: MemoryCache reads
//! std::time::Instant, `Instant::now() >= created + 0` holds at every later access);
//! w<digits> = ONE TICK OF THE BACKGROUND CLEANUP TASK (`start_cleanup_task`): a case with a `w`
//! builds its cache with `MemoryCache::new_with_cleanup` inside a paused-clock current-thread
//! runtime that belongs to the one thread whose program has the `w`s; a `w` drives that runtime
//! until the task has run its loop body once (first tick: immediately; later ticks: the paused
//! clock is advanced by the cleanup interval). The task's hooks `mem.cleanup.before_remove /
//! before_count / before_bytes` (sites u / v / w) park that thread like any other operation, so
//! the sweep is cut between its collection pass and every removal. The digits = the order in
//! which the map iteration handed out the keys the sweep collected: DashMap hashes with a
//! per-map random state, so the order is OBSERVED (the traced key type `SKey` logs `clone`,
//! which the collection pass calls once per collected key) and printed on the request line;
//! a line that already carries digits asks for that order (the run is repeated until the
//! iteration agrees, at most ORDER_TRIES times).
//!
//! Oracle (implementation only): books at quiescence (entry_count = entries present,
//! memory_usage = sum of their sizes), every `get` answer is a value some put wrote for that
//! key, no operation fails, and the answers + final contents are linearizable (some sequential
//! order consistent with real-time order explains them; entries may be forgotten only in runs
//! where an eviction actually removed something). Sweeps: every removal attempt of the cleanup
//! task is an event of its own in that search (it may only remove an entry whose TTL has ended),
//! and directly: a removal that deleted an entry whose last writer was a put with a long TTL
//! fails with sig `mem-sweep-deletes-fresh-put` (the property's clause "a value written after an
//! entry expired is not deleted by a reader that had seen the old entry"); books off in a run
//! where a put landed between the sweep's collection and its removal of that key:
//! `mem-sweep-counter-drift`.
//!
//! DiskCache under the same controller (hooks `disk.*`; model = lean Model/DiskConc):
//!   drun keys=<cache key strings> pre=<ops> t=<ops>|<ops>[|<ops>] s=<digits>
//!   -> pre=.. r=.. tr=<sites>/<drain> n=<entry_count> b=<disk_usage> c=<contains per key>
//!      fs=<file name>=<hex>;.. g=<probe get per key> n2=.. b2=..
//! Oracle: no operation fails, every value served and every file left under a key's name was
//! put for that key, books at quiescence, no indexed entry without a file, linearizable; sigs
//! `disk-*` name the race the run contains (shared temporary name, put/remove, stale get, a get
//! with an old index entry serving the file of a put that is not indexed yet).
//!
//! MultiLayerCacheImpl under the same controller (hooks `ml.layer.after_<op>` + the layers' own;
//! model = lean Model/MultiConc for two MemoryCache layers, memory above disk is oracle only):
//!   mlrun layers=mm|md pre=<ops> t=<ops>|<ops>[|<ops>] s=<digits>
//!   -> pre=.. r=.. tr=<sites>/<drain> l0=<entry_count>/<bytes>/<contents> l1=.. tk=<tracked keys>
//! ops g c r z p as above, u<k>:<hex> / l<k>:<hex> = put_to_layer(k, v, 0 / 1). Oracle: no
//! failure, provenance, books per layer, a removed / cleared key is in no layer, and the answers
//! + per-layer contents are linearizable on the layered map; a run that only an order of the
//! PER-LAYER accesses explains is the finding `ml-not-atomic-across-layers`, a run nothing
//! explains is `ml-not-linearizable`.
//!
//! DynamicContainer: `dstress …` lines = free-running rounds on 2-4 real threads (no hooks, no
//! model; the driver answers the constant `oracle-only`). The round number picks the shape of
//! the round (DYN_MODES: read-of-indexed-key || write-of-other-key, write || write,
//! write || remove, read || remove, mixed; empty or pre-filled container; with / without the
//! LruManager). Oracle: every operation RETURNS (the round runs under a deadline; sig
//! `dyn-conc-hang-<operations in flight>`), reads return NotFound or exactly the written bytes,
//! nothing fails, per payload the answers and the final state are linearizable w.r.t. the
//! measured real-time order, counts settle, a re-opened container agrees; sigs `dyn-conc-*`.
//!
//! No part of the run can hang silently: see "hangs" below (controller watchdog, round
//! deadline, stall watchdog; each ends in an oracle failure with a replay and exit code 0).
#[cfg(not(feature = "hooks"))]
fn main() {
    eprintln!("c11 needs --features hooks (cascette-cache/verif-hooks)");
    std::process::exit(2);
}

#[cfg(feature = "hooks")]
fn main() {
    real::main();
}

#[cfg(feature = "hooks")]
mod real {
    use bytes::Bytes;
    use cascette_cache::MemoryCache;
    use cascette_cache::config::{DiskCacheConfig, MemoryCacheConfig};
    use cascette_cache::disk_cache::DiskCache;
    use cascette_cache::key::RibbitKey;
    use cascette_cache::traits::{AsyncCache, EvictionPolicy};
    use std::cell::RefCell;
    use std::collections::BTreeMap;
    use std::panic::AssertUnwindSafe;
    use std::sync::atomic::{AtomicBool, AtomicU32, AtomicU64, Ordering};
    use std::sync::{Arc, Mutex};
    use std::time::{Duration, Instant, SystemTime};
    use verif_harness::*;

    const LONG: Duration = Duration::from_secs(3600);
    const NKEYS: usize = 4;

    // ------------------------------------------------------------------ cases

    #[derive(Clone, Debug, PartialEq)]
    pub enum Op {
        Get(usize),
        Contains(usize),
        Put(usize, Vec<u8>, bool),
        Remove(usize),
        Clear,
        /// one tick of the background cleanup task; the keys in the order the map iteration
        /// handed out the collected ones (empty = not known yet / any)
        Sweep(Vec<usize>),
        /// oracle-internal: one removal attempt of a sweep (`remove_if(key, is_expired)`)
        SweepRm(usize),
    }

    impl Op {
        fn tok(&self) -> String {
            match self {
                Op::Sweep(o) => format!("w{}", o.iter().map(|k| k.to_string()).collect::<String>()),
                Op::SweepRm(k) => format!("W{k}"),
                Op::Get(k) => format!("g{k}"),
                Op::Contains(k) => format!("c{k}"),
                Op::Remove(k) => format!("r{k}"),
                Op::Clear => "z".into(),
                Op::Put(k, v, short) => format!("{}{k}:{}", if *short { 'x' } else { 'p' }, hex(v)),
            }
        }
        fn parse(t: &str) -> Option<Op> {
            let (c, r) = (t.chars().next()?, &t[1..]);
            match c {
                'g' => r.parse().ok().filter(|k| *k < NKEYS).map(Op::Get),
                'c' => r.parse().ok().filter(|k| *k < NKEYS).map(Op::Contains),
                'r' => r.parse().ok().filter(|k| *k < NKEYS).map(Op::Remove),
                'z' if r.is_empty() => Some(Op::Clear),
                'w' => r.chars().map(|c| c.to_digit(10).map(|d| d as usize)).collect::<Option<Vec<usize>>>().map(Op::Sweep),
                'p' | 'x' => {
                    let (k, h) = r.split_once(':')?;
                    let k: usize = k.parse().ok().filter(|k| *k < NKEYS)?;
                    if h.contains(':') {
                        return None;
                    }
                    Some(Op::Put(k, unhex(h)?, c == 'x'))
                }
                _ => None,
            }
        }
        fn key(&self) -> Option<usize> {
            match self {
                Op::Get(k) | Op::Contains(k) | Op::Remove(k) | Op::Put(k, _, _) | Op::SweepRm(k) => Some(*k),
                Op::Clear | Op::Sweep(_) => None,
            }
        }
        fn is_sweep(&self) -> bool {
            matches!(self, Op::Sweep(_))
        }
    }

    fn ops_str(ops: &[Op]) -> String {
        if ops.is_empty() { "-".into() } else { ops.iter().map(Op::tok).collect::<Vec<_>>().join(",") }
    }

    fn parse_ops(s: &str) -> Option<Vec<Op>> {
        if s == "-" {
            return Some(vec![]);
        }
        s.split(',').map(Op::parse).collect()
    }

    #[derive(Clone, Debug)]
    pub struct Case {
        max: usize,
        fifo: bool,
        pre: Vec<Op>,
        progs: Vec<Vec<Op>>,
    }

    impl Case {
        fn line(&self, sched: &str) -> String {
            format!(
                "run max={} pol={} pre={} t={} s={}",
                self.max,
                if self.fifo { "fifo" } else { "lru" },
                ops_str(&self.pre),
                self.progs.iter().map(|p| ops_str(p)).collect::<Vec<_>>().join("|"),
                if sched.is_empty() { "-" } else { sched }
            )
        }
        fn parse(line: &str) -> Option<(Case, Vec<usize>)> {
            let t: Vec<&str> = line.split(' ').filter(|x| !x.is_empty()).collect();
            if t.len() != 6 || t[0] != "run" {
                return None;
            }
            let max: usize = t[1].strip_prefix("max=")?.parse().ok()?;
            let fifo = match t[2].strip_prefix("pol=")? {
                "lru" => false,
                "fifo" => true,
                _ => return None,
            };
            let pre = parse_ops(t[3].strip_prefix("pre=")?)?;
            let progs: Option<Vec<Vec<Op>>> = t[4].strip_prefix("t=")?.split('|').map(parse_ops).collect();
            let progs = progs?;
            let s = t[5].strip_prefix("s=")?;
            let sched: Option<Vec<usize>> =
                if s == "-" { Some(vec![]) } else { s.chars().map(|c| c.to_digit(10).map(|d| d as usize)).collect() };
            if max == 0 || progs.len() > 9 {
                return None;
            }
            // one cleanup task per cache: its ticks are the operations of ONE thread
            if progs.iter().filter(|p| p.iter().any(Op::is_sweep)).count() > 1 {
                return None;
            }
            Some((Case { max, fifo, pre, progs }, sched?))
        }
        fn has_sweep(&self) -> bool {
            self.pre.iter().chain(self.progs.iter().flatten()).any(Op::is_sweep)
        }
        /// the thread that owns the cleanup task's runtime
        fn sweeper(&self) -> Option<usize> {
            self.progs.iter().position(|p| p.iter().any(Op::is_sweep))
        }
    }

    // ------------------------------------------------------------------ controller

    #[derive(Clone, Copy, PartialEq, Debug)]
    enum WState {
        Running,
        Parked(char),
        Done,
    }

    /// Hand-over between the controller and the workers. Exactly one side runs at a time and
    /// every hand-over is short, so both sides spin on atomics (a condvar round trip per step
    /// costs ~50 us; this costs well under 1 us) and fall back to yielding / sleeping.
    pub struct Ctl {
        /// 0 = running, 1 = done, otherwise the site letter the worker is parked at
        st: Vec<AtomicU32>,
        go: Vec<AtomicBool>,
        abandon: AtomicBool,
    }

    thread_local! {
        static WORKER: RefCell<Option<(Arc<Ctl>, usize)>> = const { RefCell::new(None) };
    }

    fn site_code(site: &str) -> char {
        match site {
            "mem.get.expired.before_remove" => 'a',
            "mem.get.expired.before_count" => 'b',
            "mem.get.expired.before_bytes" => 'c',
            "mem.contains.expired.before_remove" => 'd',
            "mem.contains.expired.before_count" => 'e',
            "mem.contains.expired.before_bytes" => 'f',
            "mem.put.before_evict" => 'g',
            "mem.put.before_insert" => 'h',
            "mem.put.replace.before_bytes" => 'i',
            "mem.put.new.before_count" => 'j',
            "mem.put.new.before_bytes" => 'k',
            "mem.remove.before_count" => 'l',
            "mem.remove.before_bytes" => 'm',
            "mem.clear.before_count" => 'n',
            "mem.clear.before_bytes" => 'o',
            "mem.evict.before_load" => 'p',
            "mem.evict.before_snapshot" => 'q',
            "mem.evict.before_remove" => 'r',
            "mem.evict.before_count" => 's',
            "mem.evict.before_bytes" => 't',
            "mem.cleanup.before_remove" => 'u',
            "mem.cleanup.before_count" => 'v',
            "mem.cleanup.before_bytes" => 'w',
            "disk.write.before_open" => 'A',
            "disk.write.before_write" => 'B',
            "disk.write.before_rename" => 'C',
            "disk.put.before_index" => 'E',
            "disk.get.expired.before_remove" => 'F',
            "disk.get.before_read" => 'G',
            "disk.get.before_touch" => 'H',
            "ml.layer.after_get" => 'I',
            "ml.layer.after_put" => 'J',
            "ml.layer.after_put_with_ttl" => 'K',
            "ml.layer.after_contains" => 'N',
            "ml.layer.after_remove" => 'R',
            "ml.layer.after_clear" => 'Z',
            _ => '?',
        }
    }

    /// spin until both clocks the cache reads have moved: consecutive steps never share a time
    /// stamp, so the LRU / FIFO order is the schedule order
    fn advance_clocks() {
        let (i0, s0) = (Instant::now(), SystemTime::now());
        while Instant::now() <= i0 || SystemTime::now() <= s0 {
            std::hint::spin_loop();
        }
    }

    impl Ctl {
        fn new(nt: usize) -> Ctl {
            Ctl { st: (0..nt).map(|_| AtomicU32::new(0)).collect(), go: (0..nt).map(|_| AtomicBool::new(false)).collect(), abandon: AtomicBool::new(false) }
        }
        fn park(&self, tid: usize, code: char) {
            self.st[tid].store(code as u32, Ordering::Release);
            let mut spins = 0u32;
            while !self.go[tid].swap(false, Ordering::Acquire) {
                spins = spins.wrapping_add(1);
                if self.abandon.load(Ordering::Relaxed) {
                    std::thread::sleep(Duration::from_millis(50));
                } else if spins % 4096 == 0 {
                    std::thread::yield_now();
                } else {
                    std::hint::spin_loop();
                }
            }
            advance_clocks();
        }
        fn finish(&self, tid: usize) {
            self.st[tid].store(1, Ordering::Release);
        }
        fn state(&self, tid: usize) -> WState {
            match self.st[tid].load(Ordering::Acquire) {
                0 => WState::Running,
                1 => WState::Done,
                c => WState::Parked(char::from_u32(c).unwrap_or('?')),
            }
        }
        /// wait until no worker is running; None on watchdog expiry
        fn settle(&self) -> Option<Vec<WState>> {
            let deadline = Instant::now() + Duration::from_secs(10);
            let mut spins = 0u32;
            loop {
                let st: Vec<WState> = (0..self.st.len()).map(|i| self.state(i)).collect();
                if st.iter().all(|s| *s != WState::Running) {
                    return Some(st);
                }
                spins = spins.wrapping_add(1);
                if spins % 4096 == 0 {
                    if Instant::now() >= deadline {
                        self.abandon.store(true, Ordering::Relaxed);
                        return None;
                    }
                    std::thread::yield_now();
                } else {
                    std::hint::spin_loop();
                }
            }
        }
        fn release(&self, tid: usize) {
            self.st[tid].store(0, Ordering::Release);
            self.go[tid].store(true, Ordering::Release);
        }
    }

    fn install_callback() {
        cascette_cache::verif_hooks::install(Some(Arc::new(|site: &'static str| {
            let w = WORKER.with(|w| w.borrow().clone());
            if let Some((ctl, tid)) = w {
                ctl.park(tid, site_code(site));
            }
        })));
    }

    fn key(n: usize) -> RibbitKey {
        RibbitKey::new(format!("k{n}"), "us")
    }

    /// key types the MemoryCache cases run over: the crate's own RibbitKey, and — for cases with
    /// the cleanup task — a traced key whose `clone` is logged (the collection pass of the
    /// sweep clones exactly the keys it collects, in map-iteration order)
    pub trait TKey: cascette_cache::key::CacheKey + 'static {
        fn mk(n: usize) -> Self;
    }

    impl TKey for RibbitKey {
        fn mk(n: usize) -> Self {
            key(n)
        }
    }

    thread_local! {
        static CLONES: RefCell<Vec<usize>> = const { RefCell::new(Vec::new()) };
    }

    #[derive(Debug, PartialEq, Eq, Hash)]
    pub struct SKey {
        n: usize,
        name: String,
    }

    impl Clone for SKey {
        fn clone(&self) -> Self {
            CLONES.with(|c| c.borrow_mut().push(self.n));
            SKey { n: self.n, name: self.name.clone() }
        }
    }

    impl cascette_cache::key::CacheKey for SKey {
        fn as_cache_key(&self) -> &str {
            &self.name
        }
    }

    impl TKey for SKey {
        fn mk(n: usize) -> Self {
            SKey { n, name: format!("ribbit:k{n}:us") }
        }
    }

    const SWEEP_INTERVAL: Duration = Duration::from_secs(60);
    /// a request line that names the iteration order of its sweeps is re-run until the real
    /// map iterates that way (2 expired keys: 1/2 per try, 3: 1/6)
    const ORDER_TRIES: usize = 48;

    /// The cleanup task's runtime (current thread, paused clock). Nothing runs on it unless
    /// `tick` drives it, and `tick` returns when the task is back at `interval.tick().await`.
    struct Sweeper {
        rt: tokio::runtime::Runtime,
        ticks: u32,
    }

    impl Sweeper {
        /// one loop body of the real cleanup task; returns the keys it collected, in order
        fn tick(&mut self) -> Vec<usize> {
            CLONES.with(|c| c.borrow_mut().clear());
            let first = self.ticks == 0;
            self.ticks += 1;
            self.rt.block_on(async move {
                if !first {
                    // Interval, MissedTickBehavior::Burst: exactly one more tick falls due
                    tokio::time::advance(SWEEP_INTERVAL).await;
                }
                // the task is polled between two polls of this future; its body has no await
                for _ in 0..4 {
                    tokio::task::yield_now().await;
                }
            });
            CLONES.with(|c| std::mem::take(&mut *c.borrow_mut()))
        }
    }

    async fn exec<K: TKey>(cache: &MemoryCache<K>, op: &Op) -> String {
        match op {
            Op::Sweep(_) | Op::SweepRm(_) => "err".into(),
            Op::Get(k) => match cache.get(&K::mk(*k)).await {
                Ok(Some(b)) => format!("v{}", hex(&b)),
                Ok(None) => "none".into(),
                Err(_) => "err".into(),
            },
            Op::Contains(k) => match cache.contains(&K::mk(*k)).await {
                Ok(true) => "t".into(),
                Ok(false) => "f".into(),
                Err(_) => "err".into(),
            },
            Op::Remove(k) => match cache.remove(&K::mk(*k)).await {
                Ok(true) => "t".into(),
                Ok(false) => "f".into(),
                Err(_) => "err".into(),
            },
            Op::Clear => match cache.clear().await {
                Ok(()) => "ok".into(),
                Err(_) => "err".into(),
            },
            Op::Put(k, v, short) => {
                let ttl = if *short { Duration::ZERO } else { LONG };
                match cache.put_with_ttl(K::mk(*k), Bytes::from(v.clone()), ttl).await {
                    Ok(()) => "ok".into(),
                    Err(_) => "err".into(),
                }
            }
        }
    }

    #[derive(Clone, Debug)]
    pub struct StepRec {
        tid: usize,
        op: usize,
        before: char,
        after: char,
    }

    #[derive(Clone, Debug, PartialEq)]
    pub enum Slot {
        Live(Vec<u8>),
        Expired(u64),
    }

    #[derive(Debug, Clone)]
    pub struct Outcome {
        pre: Vec<String>,
        results: Vec<Vec<String>>,
        /// schedule as executed during the explicit part (including skipped entries)
        sched: String,
        trace: String,
        drain: String,
        steps: Vec<StepRec>,
        /// alive sets (parked workers) before each executed step, for the DFS enumerator
        alive: Vec<Vec<usize>>,
        n: u64,
        b: u64,
        contents: BTreeMap<usize, Slot>,
        timeout: bool,
        stuck: Option<(usize, usize, char)>,
        /// keys collected by every sweep, in iteration order: (thread, op index); thread
        /// usize::MAX = the pre operations
        orders: BTreeMap<(usize, usize), Vec<usize>>,
        /// the iteration orders the request line asked for were the ones that occurred
        order_ok: bool,
    }

    /// `obs` (what a sweep collected) is in the order the hint `want` names
    fn order_consistent(want: &[usize], obs: &[usize]) -> bool {
        let mut it = want.iter();
        want.is_empty() || obs.iter().all(|k| it.any(|w| w == k))
    }

    impl Outcome {
        /// the case as executed: every sweep carries the iteration order that occurred (a hint
        /// the run agreed with is kept as given)
        fn resolved(&self, case: &Case) -> (Case, bool) {
            let mut c = case.clone();
            let mut ok = true;
            let mut fix = |tid: usize, ops: &mut Vec<Op>| {
                for (i, op) in ops.iter_mut().enumerate() {
                    if let Op::Sweep(want) = op {
                        let obs = self.orders.get(&(tid, i)).cloned().unwrap_or_default();
                        if !order_consistent(want, &obs) {
                            ok = false;
                            *want = obs;
                        } else if want.is_empty() {
                            *want = obs;
                        }
                    }
                }
            };
            fix(usize::MAX, &mut c.pre);
            for (t, p) in c.progs.iter_mut().enumerate() {
                fix(t, p);
            }
            (c, ok)
        }
        fn response(&self) -> String {
            if self.timeout {
                return "timeout".into();
            }
            let j = |v: &Vec<String>| if v.is_empty() { "-".to_string() } else { v.join(",") };
            let m = if self.contents.is_empty() {
                "-".to_string()
            } else {
                self.contents
                    .iter()
                    .map(|(k, s)| match s {
                        Slot::Live(v) => format!("{k}:{}", hex(v)),
                        Slot::Expired(sz) => format!("{k}:x{sz}"),
                    })
                    .collect::<Vec<_>>()
                    .join(",")
            };
            format!(
                "pre={} r={} tr={}/{} n={} b={} m={}",
                j(&self.pre),
                self.results.iter().map(j).collect::<Vec<_>>().join("|"),
                self.trace,
                self.drain,
                self.n,
                self.b,
                m
            )
        }
    }

    pub enum Choice {
        Tid(usize),
        Drain,
    }

    /// what the controller did and saw while it stepped the workers
    #[derive(Debug)]
    pub struct Drive {
        sched: String,
        trace: String,
        drain: String,
        steps: Vec<StepRec>,
        alive: Vec<Vec<usize>>,
        timeout: bool,
        /// on timeout: (thread released last, index of the operation it was in, site it left);
        /// None = the workers did not even reach their first park
        stuck: Option<(usize, usize, char)>,
    }

    /// Step `nt` parked workers until all have finished. `choose(step, alive)` names the next
    /// thread (it may name a finished one: skipped) or asks for the drain (lowest live first).
    pub fn drive(ctl: &Ctl, nt: usize, choose: &mut dyn FnMut(usize, &[usize]) -> Choice) -> Drive {
        drive_sticky(ctl, nt, "", choose)
    }

    /// As `drive`; a thread that has just stopped at one of the `sticky` sites takes the next
    /// step as well (the chooser is offered that thread only), so the enumerators do not switch
    /// threads there. An explicit schedule may still name any thread at any step, and the drain
    /// is the same lowest-live-thread-first order as the model's.
    pub fn drive_sticky(ctl: &Ctl, nt: usize, sticky: &str, choose: &mut dyn FnMut(usize, &[usize]) -> Choice) -> Drive {
        let mut last: Option<usize> = None;
        let mut out = Drive { sched: String::new(), trace: String::new(), drain: String::new(), steps: vec![], alive: vec![], timeout: false, stuck: None };
        let mut opidx = vec![0usize; nt];
        let mut draining = false;
        let mut step_no = 0usize;
        loop {
            beat();
            let Some(st) = ctl.settle() else {
                out.timeout = true;
                break;
            };
            let alive_all: Vec<usize> = (0..nt).filter(|i| matches!(st[*i], WState::Parked(_))).collect();
            if alive_all.is_empty() {
                break;
            }
            let alive: Vec<usize> = match last {
                Some(l) if matches!(st[l], WState::Parked(c) if sticky.contains(c)) => vec![l],
                _ => alive_all.clone(),
            };
            let tid = if draining {
                alive_all[0]
            } else {
                match choose(step_no, &alive) {
                    Choice::Tid(t) => t,
                    Choice::Drain => {
                        draining = true;
                        alive_all[0]
                    }
                }
            };
            step_no += 1;
            if !draining {
                out.sched.push(char::from_digit(tid as u32 % 10, 10).unwrap_or('?'));
            }
            if tid >= nt || !matches!(st[tid], WState::Parked(_)) {
                out.trace.push('-');
                continue;
            }
            let before = match st[tid] {
                WState::Parked(c) => c,
                _ => '?',
            };
            out.alive.push(alive.clone());
            last = Some(tid);
            ctl.release(tid);
            let Some(st2) = ctl.settle() else {
                out.timeout = true;
                out.stuck = Some((tid, opidx[tid], before));
                break;
            };
            let after = match st2[tid] {
                WState::Parked(c) => c,
                WState::Done => 'D',
                WState::Running => '?',
            };
            out.steps.push(StepRec { tid, op: opidx[tid], before, after });
            if after == 'S' || after == 'D' {
                opidx[tid] += 1;
            }
            if draining {
                out.drain.push(char::from_digit(tid as u32, 10).unwrap_or('?'));
                out.drain.push(after);
            } else {
                out.trace.push(after);
            }
        }
        out
    }

    /// Run one case on the real cache. `choose(step, alive)` names the next thread (it may name
    /// a finished one: skipped) or asks for the drain (lowest live thread first).
    pub fn execute(case: &Case, choose: &mut dyn FnMut(usize, &[usize]) -> Choice) -> Outcome {
        if !case.has_sweep() {
            return execute_k::<RibbitKey>(case, choose);
        }
        let mut tries = 0;
        loop {
            let out = execute_k::<SKey>(case, choose);
            tries += 1;
            if out.timeout || out.order_ok || tries >= ORDER_TRIES {
                return out;
            }
        }
    }

    fn execute_k<K: TKey>(case: &Case, choose: &mut dyn FnMut(usize, &[usize]) -> Choice) -> Outcome {
        let mut cfg = MemoryCacheConfig::new()
            .with_max_entries(case.max)
            .with_eviction_policy(if case.fifo { EvictionPolicy::Fifo } else { EvictionPolicy::Lru });
        cfg.max_memory_bytes = None;
        // a case with sweeps: the cache of `new_with_cleanup`, its cleanup task spawned on a
        // paused-clock runtime that only `Sweeper::tick` drives
        let mut sweeper: Option<Sweeper> = None;
        let cache: Arc<MemoryCache<K>> = if case.has_sweep() {
            cfg.cleanup_interval = SWEEP_INTERVAL;
            let rt_s = tokio::runtime::Builder::new_current_thread().enable_time().start_paused(true).build().expect("rt");
            let c = {
                let _g = rt_s.enter();
                MemoryCache::new_with_cleanup(cfg).expect("config")
            };
            sweeper = Some(Sweeper { rt: rt_s, ticks: 0 });
            Arc::new(c)
        } else {
            Arc::new(MemoryCache::new(cfg).expect("config"))
        };
        let rt = tokio::runtime::Builder::new_current_thread().build().expect("rt");
        inflight("mem", case.line(""), "pre-operations");
        let orders: Arc<Mutex<BTreeMap<(usize, usize), Vec<usize>>>> = Arc::new(Mutex::new(BTreeMap::new()));
        let mut pre = vec![];
        for (i, op) in case.pre.iter().enumerate() {
            advance_clocks();
            if op.is_sweep() {
                // no controller on this thread: the tick runs through
                let o = sweeper.as_mut().map(Sweeper::tick).unwrap_or_default();
                orders.lock().unwrap_or_else(|e| e.into_inner()).insert((usize::MAX, i), o);
                pre.push("ok".into());
            } else {
                pre.push(rt.block_on(exec(&*cache, op)));
            }
        }
        advance_clocks();
        let nt = case.progs.len();
        let ws = case.sweeper();
        let ctl = Arc::new(Ctl::new(nt));
        let results: Arc<Mutex<Vec<Vec<String>>>> = Arc::new(Mutex::new(vec![vec![]; nt]));
        let mut handles = vec![];
        for (tid, prog) in case.progs.iter().cloned().enumerate() {
            let (ctl, cache, results, orders) = (ctl.clone(), cache.clone(), results.clone(), orders.clone());
            let mut my_sweeper = if ws == Some(tid) { sweeper.take() } else { None };
            handles.push(std::thread::spawn(move || {
                WORKER.with(|w| *w.borrow_mut() = Some((ctl.clone(), tid)));
                let rt = tokio::runtime::Builder::new_current_thread().build().expect("rt");
                for (i, op) in prog.iter().enumerate() {
                    ctl.park(tid, 'S');
                    let r = if op.is_sweep() {
                        match my_sweeper.as_mut().map(|sw| catch(AssertUnwindSafe(|| sw.tick()))) {
                            Some(Ok(o)) => {
                                orders.lock().unwrap_or_else(|e| e.into_inner()).insert((tid, i), o);
                                "ok".to_string()
                            }
                            Some(Err(_)) => "panic".into(),
                            None => "err".into(),
                        }
                    } else {
                        catch(AssertUnwindSafe(|| rt.block_on(exec(&*cache, op)))).unwrap_or_else(|_| "panic".into())
                    };
                    results.lock().unwrap_or_else(|e| e.into_inner())[tid].push(r);
                }
                WORKER.with(|w| *w.borrow_mut() = None);
                ctl.finish(tid);
            }));
        }
        phase("schedule");
        let d = drive(&ctl, nt, choose);
        inflight("mem", case.line(&d.sched), "workers-done");
        let mut out = Outcome {
            pre,
            results: vec![],
            sched: d.sched,
            trace: d.trace,
            drain: d.drain,
            steps: d.steps,
            alive: d.alive,
            n: 0,
            b: 0,
            contents: BTreeMap::new(),
            timeout: d.timeout,
            stuck: d.stuck,
            orders: BTreeMap::new(),
            order_ok: true,
        };
        if out.timeout {
            // stuck workers cannot be joined; leave them parked
            return out;
        }
        for h in handles {
            let _ = h.join();
        }
        out.results = results.lock().unwrap_or_else(|e| e.into_inner()).clone();
        out.orders = orders.lock().unwrap_or_else(|e| e.into_inner()).clone();
        out.order_ok = out.resolved(case).1;
        phase("quiescent-probes");
        // quiescence: read the books first, then probe the contents key by key
        let size = |c: &MemoryCache<K>| rt.block_on(c.size()).unwrap_or(usize::MAX) as u64;
        let bytes = |c: &MemoryCache<K>| c.cache_stats().memory_usage_bytes as u64;
        out.n = size(&cache);
        out.b = bytes(&cache);
        for k in 0..NKEYS {
            let (n0, b0) = (size(&cache), bytes(&cache));
            match rt.block_on(cache.get(&K::mk(k))) {
                Ok(Some(v)) => {
                    out.contents.insert(k, Slot::Live(v.to_vec()));
                }
                _ => {
                    let (n1, b1) = (size(&cache), bytes(&cache));
                    if n1 != n0 {
                        out.contents.insert(k, Slot::Expired(b0.wrapping_sub(b1)));
                    }
                }
            }
        }
        out
    }

    // ------------------------------------------------------------------ oracle

    #[derive(Clone, Debug, PartialEq)]
    enum RefSlot {
        Live(Vec<u8>),
        Expired(u64),
    }

    struct Lin<'a> {
        case: &'a Case,
        out: &'a Outcome,
        /// (first step, last step) of every op of every thread
        iv: Vec<Vec<(usize, usize)>>,
        drops: bool,
        /// DiskCache semantics of an entry whose TTL has ended: `contains` leaves it in place;
        /// a `get` may still serve it (the not-indexed fallback path indexes a file it finds
        /// without a TTL; the put's own index step then stores the TTL)
        disk: bool,
    }

    impl Lin<'_> {
        fn apply(&self, r: &mut BTreeMap<usize, RefSlot>, op: &Op, res: &str) -> bool {
            match op {
                Op::Get(k) => match r.get(k).cloned() {
                    Some(RefSlot::Live(v)) => {
                        if res == format!("v{}", hex(&v)) {
                            true
                        } else if res == "none" && self.drops {
                            r.remove(k);
                            true
                        } else {
                            false
                        }
                    }
                    Some(RefSlot::Expired(sz)) => {
                        if self.disk && res.strip_prefix('v').and_then(unhex).is_some_and(|v| v.len() as u64 == sz) {
                            return true;
                        }
                        r.remove(k);
                        res == "none"
                    }
                    None => res == "none",
                },
                Op::Contains(k) => match r.get(k).cloned() {
                    Some(RefSlot::Live(_)) => {
                        if res == "t" {
                            true
                        } else if res == "f" && self.drops {
                            r.remove(k);
                            true
                        } else {
                            false
                        }
                    }
                    Some(RefSlot::Expired(_)) => {
                        if !self.disk {
                            r.remove(k);
                        }
                        // disk: `t` while only the fallback path's TTL-less index entry exists
                        res == "f" || (self.disk && res == "t")
                    }
                    None => res == "f",
                },
                Op::Remove(k) => match r.remove(k) {
                    Some(_) => res == "t" || (res == "f" && self.drops),
                    None => res == "f",
                },
                Op::Clear => {
                    r.clear();
                    res == "ok"
                }
                Op::Put(k, v, short) => {
                    r.insert(*k, if *short { RefSlot::Expired(v.len() as u64) } else { RefSlot::Live(v.clone()) });
                    res == "ok"
                }
                // a whole tick run alone (pre operations): every entry whose TTL has ended goes
                Op::Sweep(_) => {
                    r.retain(|_, s| !matches!(s, RefSlot::Expired(_)));
                    res == "ok"
                }
                // one removal attempt of the cleanup task, `t` = it removed something: it removes
                // an entry whose TTL has ended and NOTHING else (never a live value, evictions or
                // not: the sweep is not an eviction)
                Op::SweepRm(k) => match r.get(k) {
                    Some(RefSlot::Expired(_)) => {
                        r.remove(k);
                        res == "t" || self.drops
                    }
                    _ => res == "f",
                },
            }
        }
        fn final_ok(&self, r: &BTreeMap<usize, RefSlot>) -> bool {
            let conv = |s: &Slot| match s {
                Slot::Live(v) => RefSlot::Live(v.clone()),
                Slot::Expired(n) => RefSlot::Expired(*n),
            };
            if self.drops {
                self.out.contents.iter().all(|(k, s)| r.get(k) == Some(&conv(s)))
            } else {
                r.len() == self.out.contents.len() && self.out.contents.iter().all(|(k, s)| r.get(k) == Some(&conv(s)))
            }
        }
        fn search(&self, next: &mut Vec<usize>, r: &BTreeMap<usize, RefSlot>) -> bool {
            let nt = self.case.progs.len();
            if (0..nt).all(|t| next[t] >= self.case.progs[t].len()) {
                return self.final_ok(r);
            }
            for t in 0..nt {
                let i = next[t];
                if i >= self.case.progs[t].len() {
                    continue;
                }
                let start = self.iv[t][i].0;
                // real-time order: nothing still pending may have finished before this op began
                let blocked = (0..nt).any(|u| u != t && next[u] < self.case.progs[u].len() && self.iv[u][next[u]].1 < start);
                if blocked {
                    continue;
                }
                let mut r2 = r.clone();
                if self.apply(&mut r2, &self.case.progs[t][i], &self.out.results[t][i]) {
                    next[t] += 1;
                    let ok = self.search(next, &r2);
                    next[t] -= 1;
                    if ok {
                        return true;
                    }
                }
            }
            false
        }
    }

    fn stuck_msg(progs: &[Vec<Op>], stuck: Option<(usize, usize, char)>) -> String {
        match stuck {
            Some((tid, op, site)) => format!(
                "thread {tid}, released from schedule point `{site}` inside its operation {op} ({}), neither reached the next schedule point nor finished within the watchdog time: it waits for something a parked thread holds (or for itself)",
                progs.get(tid).and_then(|p| p.get(op)).map(Op::tok).unwrap_or_else(|| "?".into())
            ),
            None => "the workers did not reach their first schedule point within the watchdog time".into(),
        }
    }

    fn intervals(case: &Case, out: &Outcome) -> Vec<Vec<(usize, usize)>> {
        let mut iv: Vec<Vec<(usize, usize)>> = case.progs.iter().map(|p| vec![(usize::MAX, 0); p.len()]).collect();
        for (i, s) in out.steps.iter().enumerate() {
            if s.op < iv[s.tid].len() {
                let e = &mut iv[s.tid][s.op];
                e.0 = e.0.min(i);
                e.1 = e.1.max(i);
            }
        }
        iv
    }

    /// a put inserted on the same key between an expired-path reader's look and its removal,
    /// and the removal found something to delete
    fn expired_window_hits(case: &Case, out: &Outcome) -> usize {
        let mut hits = 0;
        for (i, s) in out.steps.iter().enumerate() {
            if s.after != 'a' && s.after != 'd' {
                continue;
            }
            let Some(k) = case.progs[s.tid].get(s.op).and_then(Op::key) else { continue };
            // the reader's next step
            let Some(j) = (i + 1..out.steps.len()).find(|j| out.steps[*j].tid == s.tid) else { continue };
            if out.steps[j].after != 'b' && out.steps[j].after != 'e' {
                continue;
            }
            for m in i + 1..j {
                let w = &out.steps[m];
                if w.before == 'h' && (w.after == 'i' || w.after == 'j') && case.progs[w.tid].get(w.op).and_then(Op::key) == Some(k) {
                    hits += 1;
                }
            }
        }
        hits
    }

    /// what the sweeps of a run did, read off the step trace
    #[derive(Default)]
    struct SweepFacts {
        /// removal attempts in step order: (step, thread, op index, key, removed something?)
        attempts: Vec<(usize, usize, usize, usize, bool)>,
        /// a put inserted under a collected key between the collection and that key's attempt
        window_hits: usize,
        /// … and the attempt then removed something (so the books depend on WHAT it booked)
        window_removed: usize,
        /// … and the attempt left the value alone
        window_spared: usize,
        /// direct clause: the attempt removed an entry whose last writer was a long-TTL put
        deleted_fresh: Vec<String>,
    }

    fn sweep_facts(case: &Case, out: &Outcome) -> SweepFacts {
        let mut f = SweepFacts::default();
        if !case.has_sweep() {
            return f;
        }
        // who wrote what is stored under a key, as far as the trace tells: Some(short?) = an
        // entry written by a put of that TTL class, None = nothing stored; `blind` = an eviction
        // removed an entry the trace does not name, so the direct clause stands back
        let mut shadow: BTreeMap<usize, Option<(bool, String)>> = BTreeMap::new();
        let mut blind = case.max < 100;
        for op in &case.pre {
            match op {
                Op::Put(k, _, short) => {
                    shadow.insert(*k, Some((*short, format!("pre {}", op.tok()))));
                }
                Op::Remove(k) => {
                    shadow.insert(*k, None);
                }
                Op::Get(k) | Op::Contains(k) => {
                    if matches!(shadow.get(k), Some(Some((true, _)))) {
                        shadow.insert(*k, None);
                    }
                }
                Op::Clear => shadow.clear(),
                Op::Sweep(_) => shadow.retain(|_, v| !matches!(v, Some((true, _)))),
                Op::SweepRm(_) => {}
            }
        }
        // per sweep (thread, op): step of its collection pass, number of attempts seen so far
        let mut collected_at: BTreeMap<(usize, usize), usize> = BTreeMap::new();
        let mut nth: BTreeMap<(usize, usize), usize> = BTreeMap::new();
        let mut last_insert: BTreeMap<usize, usize> = BTreeMap::new();
        for (i, s) in out.steps.iter().enumerate() {
            let Some(op) = case.progs.get(s.tid).and_then(|p| p.get(s.op)) else { continue };
            match (s.before, s.after, op) {
                ('h', 'i' | 'j', Op::Put(k, _, short)) => {
                    shadow.insert(*k, Some((*short, format!("thread {} {} (step {i})", s.tid, op.tok()))));
                    last_insert.insert(*k, i);
                }
                ('S', 'l', Op::Remove(k)) | ('a', 'b', Op::Get(k)) | ('d', 'e', Op::Contains(k)) => {
                    shadow.insert(*k, None);
                }
                ('S', 'n', Op::Clear) => shadow.clear(),
                ('r', 's', _) => blind = true,
                ('S', _, Op::Sweep(_)) => {
                    collected_at.insert((s.tid, s.op), i);
                }
                _ => {}
            }
            if s.before == 'u' && op.is_sweep() {
                let j = *nth.entry((s.tid, s.op)).and_modify(|n| *n += 1).or_insert(0);
                let Some(k) = out.orders.get(&(s.tid, s.op)).and_then(|o| o.get(j)).copied() else { continue };
                let removed = s.after == 'v';
                f.attempts.push((i, s.tid, s.op, k, removed));
                let c = collected_at.get(&(s.tid, s.op)).copied().unwrap_or(0);
                if last_insert.get(&k).is_some_and(|m| *m > c) {
                    f.window_hits += 1;
                    if removed {
                        f.window_removed += 1;
                    } else {
                        f.window_spared += 1;
                    }
                }
                if removed {
                    if let (false, Some(Some((false, who)))) = (blind, shadow.get(&k)) {
                        f.deleted_fresh.push(format!(
                            "the cleanup task (thread {}, collection pass at step {c}) removed key {k} at step {i}, but what was stored under it then had been written by {who} with a long TTL: a value written after the entry expired was deleted by the sweep that had seen the old entry",
                            s.tid
                        ));
                    }
                    shadow.insert(k, None);
                }
            }
        }
        f
    }

    /// the programs with every sweep replaced by its removal attempts (one event each, at the
    /// step it happened), for the linearizability search
    fn expand_sweeps(case: &Case, out: &Outcome, iv: &[Vec<(usize, usize)>], sf: &SweepFacts) -> (Case, Outcome, Vec<Vec<(usize, usize)>>) {
        let (mut c, mut o, mut v) = (case.clone(), out.clone(), vec![]);
        for (t, p) in case.progs.iter().enumerate() {
            let (mut ops, mut res, mut ivs) = (vec![], vec![], vec![]);
            for (i, op) in p.iter().enumerate() {
                if op.is_sweep() {
                    for (step, _, _, k, removed) in sf.attempts.iter().filter(|a| a.1 == t && a.2 == i) {
                        ops.push(Op::SweepRm(*k));
                        res.push(if *removed { "t".to_string() } else { "f".to_string() });
                        ivs.push((*step, *step));
                    }
                } else {
                    ops.push(op.clone());
                    res.push(out.results[t].get(i).cloned().unwrap_or_default());
                    ivs.push(iv[t][i]);
                }
            }
            c.progs[t] = ops;
            o.results[t] = res;
            v.push(ivs);
        }
        (c, o, v)
    }

    /// another thread's operation overlaps a clear in real time
    fn clear_overlaps(case: &Case, iv: &[Vec<(usize, usize)>]) -> bool {
        for (t, p) in case.progs.iter().enumerate() {
            for (i, op) in p.iter().enumerate() {
                if *op != Op::Clear {
                    continue;
                }
                let (s, e) = iv[t][i];
                for (u, q) in case.progs.iter().enumerate() {
                    if u == t {
                        continue;
                    }
                    for j in 0..q.len() {
                        let (s2, e2) = iv[u][j];
                        if s2 <= e && s <= e2 {
                            return true;
                        }
                    }
                }
            }
        }
        false
    }

    struct Verdict {
        window_hits: usize,
        sweep: SweepFacts,
        fails: Vec<(String, String)>,
    }

    fn oracle(case: &Case, out: &Outcome) -> Verdict {
        let mut fails = vec![];
        if out.timeout {
            return Verdict { window_hits: 0, sweep: SweepFacts::default(), fails: vec![("mem-schedule-stuck".into(), stuck_msg(&case.progs, out.stuck))] };
        }
        let iv = intervals(case, out);
        let hits = expired_window_hits(case, out);
        let clr = clear_overlaps(case, &iv);
        let sf = sweep_facts(case, out);
        // a value written after an entry expired is not deleted by the sweep that saw the old entry
        for m in &sf.deleted_fresh {
            fails.push(("mem-sweep-deletes-fresh-put".into(), m.clone()));
        }
        // no operation fails
        for (t, rs) in out.results.iter().enumerate() {
            for (i, r) in rs.iter().enumerate() {
                if r == "err" || r == "panic" {
                    fails.push(("mem-op-failed".into(), format!("thread {t} op {i} ({}) answered {r}", case.progs[t][i].tok())));
                }
            }
        }
        // a get returns a value some put wrote for that key
        let mut written: BTreeMap<usize, Vec<Vec<u8>>> = BTreeMap::new();
        for op in case.pre.iter().chain(case.progs.iter().flatten()) {
            if let Op::Put(k, v, _) = op {
                written.entry(*k).or_default().push(v.clone());
            }
        }
        for (t, rs) in out.results.iter().enumerate() {
            for (i, r) in rs.iter().enumerate() {
                if let (Op::Get(k), Some(h)) = (&case.progs[t][i], r.strip_prefix('v')) {
                    let ok = unhex(h).is_some_and(|v| written.get(k).is_some_and(|w| w.contains(&v)));
                    if !ok {
                        fails.push(("mem-get-unwritten-value".into(), format!("thread {t} get {k} answered {r}, which no put wrote for that key")));
                    }
                }
            }
        }
        // books at quiescence
        let present = out.contents.len() as u64;
        let total: u64 = out.contents.values().map(|s| match s { Slot::Live(v) => v.len() as u64, Slot::Expired(n) => *n }).sum();
        if out.n != present || out.b != total {
            let sig = if hits > 0 {
                "mem-counter-drift-expired-race"
            } else if clr {
                "mem-clear-races-put"
            } else if sf.window_removed > 0 {
                "mem-sweep-counter-drift"
            } else {
                "mem-books-quiescent"
            };
            fails.push((sig.into(), format!("at quiescence entry_count={} memory_usage={} but {} entries of {} bytes are stored", out.n, out.b, present, total)));
        }
        // linearizability of answers and final contents
        let mut r0: BTreeMap<usize, RefSlot> = BTreeMap::new();
        {
            let pre_lin = Lin { case, out, iv: vec![], drops: false, disk: false };
            for (op, res) in case.pre.iter().zip(out.pre.iter()) {
                if !pre_lin.apply(&mut r0, op, res) && case.max >= 100 {
                    fails.push(("mem-sequential-answer".into(), format!("pre op {} answered {res}", op.tok())));
                }
            }
        }
        let evicted = out.steps.iter().any(|s| s.after == 's');
        // sequential pre-phase evictions (small max) also forget entries
        if out.results.iter().zip(case.progs.iter()).all(|(r, p)| r.len() == p.len()) {
            let (xcase, xout, xiv) = expand_sweeps(case, out, &iv, &sf);
            let lin = Lin { case: &xcase, out: &xout, iv: xiv, drops: evicted || case.max < 100, disk: false };
            let mut next = vec![0usize; case.progs.len()];
            if !lin.search(&mut next, &r0) {
                let sig = if hits > 0 {
                    "mem-expired-get-deletes-fresh-put"
                } else if sf.window_removed > 0 {
                    "mem-sweep-deletes-fresh-put"
                } else {
                    "mem-not-linearizable"
                };
                fails.push((sig.into(), format!("no sequential order consistent with real-time order explains answers {:?}, the sweeps' removal attempts {:?} (step, thread, op, key, removed) and final contents {:?}", out.results, sf.attempts, out.contents)));
            }
        }
        Verdict { window_hits: hits, sweep: sf, fails }
    }

    // ------------------------------------------------------------------ running cases

    // ------------------------------------------------------------------ hangs: session behind a lock, stall watchdog, bail-out
    //
    // Three layers, so that an operation that never returns is reported within seconds as an
    // oracle failure naming the input, never as a harness that has to be killed from outside:
    //  * scheduled part of a MemoryCache / DiskCache case: `Ctl::settle` (10 s) -> `timeout`
    //    response + sig `mem-/disk-schedule-stuck`; after STUCK_LIMIT such schedules the run is
    //    closed early (every further one would cost another 10 s);
    //  * DynamicContainer stress round: the whole round (set-up, workers, quiescent probes,
    //    re-open) runs on its own threads, the main thread waits DYN_DEADLINE for the result ->
    //    sig `dyn-conc-hang-<operations in flight>`, then the run is closed early;
    //  * everything the main thread does itself (pre operations, quiescent probes): the stall
    //    watchdog below sees no progress for STALL -> sig `<section>-hang-<phase>`, closes the
    //    streams on behalf of the stuck main thread and ends the process.
    // "Closed early" = the oracle failure is recorded, req/impl/oracle/stats are flushed, stuck
    // threads are abandoned and the process exits 0, so ./check reads the failure and its replay.

    /// bumped whenever the run makes progress (a line, a tally, a phase change)
    static HEART: AtomicU64 = AtomicU64::new(0);
    /// what the main thread is doing right now: (section, replayable request line, phase)
    static INFLIGHT: Mutex<(&'static str, String, &'static str)> = Mutex::new(("harness", String::new(), "start"));
    const STALL: Duration = Duration::from_secs(30);
    const STUCK_LIMIT: u32 = 2;
    const DYN_DEADLINE: Duration = Duration::from_secs(8);
    /// a replayed `dstress` line: thread timing is free, so repeat the round this many times
    const REPLAY_REPS: usize = 40;

    fn beat() {
        HEART.fetch_add(1, Ordering::Relaxed);
    }
    fn inflight(section: &'static str, line: String, phase: &'static str) {
        *INFLIGHT.lock().unwrap_or_else(|e| e.into_inner()) = (section, line, phase);
        beat();
    }
    fn phase(phase: &'static str) {
        INFLIGHT.lock().unwrap_or_else(|e| e.into_inner()).2 = phase;
        beat();
    }

    /// The `Session` behind a lock: the stall watchdog must be able to record a hang and close
    /// the streams while the main thread is stuck inside a call into the code under test.
    #[derive(Clone)]
    struct Sess(Arc<Mutex<Option<Session>>>);

    impl Sess {
        fn new(out: &std::path::Path) -> Sess {
            Sess(Arc::new(Mutex::new(Some(Session::new(out)))))
        }
        fn with<T>(&self, f: impl FnOnce(&mut Session) -> T) -> T {
            beat();
            let mut g = self.0.lock().unwrap_or_else(|e| e.into_inner());
            match g.as_mut() {
                Some(s) => f(s),
                None => {
                    // closed by the watchdog: the process is about to exit
                    drop(g);
                    loop {
                        std::thread::sleep(LONG);
                    }
                }
            }
        }
        fn line(&self, req: &str, resp: &str) {
            self.with(|s| s.line(req, resp));
        }
        fn case(&self, key: Option<&str>) {
            self.with(|s| s.case(key));
        }
        fn tally(&self, key: &str) {
            self.with(|s| s.tally(key));
        }
        fn tally_n(&self, key: &str, n: u64) {
            self.with(|s| s.tally_n(key, n));
        }
        fn oracle_fail(&self, sig: &str, msg: &str, replay: &[String]) {
            self.with(|s| s.oracle_fail(sig, msg, replay));
        }
        fn set_rule(&self, rule: &str) {
            self.with(|s| s.rule = rule.to_string());
        }
        fn extra(&self, key: &str, v: serde_json::Value) {
            self.with(|s| {
                s.extra.insert(key.to_string(), v);
            });
        }
        /// flush and close the streams; false when somebody else already has
        fn finish(&self) -> bool {
            let taken = self.0.lock().unwrap_or_else(|e| e.into_inner()).take();
            match taken {
                Some(s) => {
                    s.finish();
                    true
                }
                None => false,
            }
        }
        /// record why, close the streams, abandon whatever threads are stuck, end the process
        fn close_early(&self, why: &str) -> ! {
            self.tally(why);
            self.finish();
            std::process::exit(0);
        }
    }

    fn spawn_stall_watchdog(s: Sess) {
        std::thread::spawn(move || {
            let (mut last, mut since) = (HEART.load(Ordering::Relaxed), Instant::now());
            loop {
                std::thread::sleep(Duration::from_millis(200));
                let h = HEART.load(Ordering::Relaxed);
                if h != last {
                    (last, since) = (h, Instant::now());
                    continue;
                }
                if since.elapsed() < STALL {
                    continue;
                }
                let (section, line, ph) = INFLIGHT.lock().unwrap_or_else(|e| e.into_inner()).clone();
                let sig = format!("{section}-hang-{ph}");
                let msg = format!(
                    "no progress for {} s: the main thread is stuck in phase `{ph}` of this case; that phase runs operations one at a time on the main thread (no worker is parked by the controller), so an operation run alone never returned",
                    STALL.as_secs()
                );
                s.oracle_fail(&sig, &msg, &if line.is_empty() { vec![] } else { vec![line] });
                s.close_early("closed-early:stalled-outside-a-schedule");
            }
        });
    }

    struct Runner {
        s: Sess,
        known_printed: BTreeMap<String, u64>,
        /// schedules on which the controller's watchdog expired
        stuck: u32,
    }

    impl Runner {
        /// a worker neither parked nor finished within the controller's watchdog time: the case
        /// is reported by the oracle (`*-schedule-stuck`); every further stuck schedule costs
        /// the full watchdog time again, so close the run after STUCK_LIMIT of them
        fn note_stuck(&mut self) {
            self.stuck += 1;
            if self.stuck >= STUCK_LIMIT {
                self.s.close_early("closed-early:stuck-schedules");
            }
        }
    }

    impl Runner {
        fn emit(&mut self, case: &Case, out: &Outcome) {
            // the request line names the iteration order every sweep really had
            let (resolved, order_ok) = out.resolved(case);
            let case = &resolved;
            let line = case.line(&out.sched);
            self.s.line(&line, &out.response());
            let v = oracle(case, out);
            if case.has_sweep() {
                self.s.tally("sweep:schedules");
                self.s.tally_n("sweep:removal-attempts", v.sweep.attempts.len() as u64);
                self.s.tally_n("sweep:removals", v.sweep.attempts.iter().filter(|a| a.4).count() as u64);
                self.s.tally_n("sweep:put-landed-between-collection-and-removal", v.sweep.window_hits as u64);
                self.s.tally_n("sweep:…and-the-fresh-value-was-spared", v.sweep.window_spared as u64);
                self.s.tally_n("sweep:…and-the-expiring-rewrite-was-removed", v.sweep.window_removed as u64);
                if out.orders.values().any(|o| o.len() >= 2) {
                    self.s.tally("sweep:collected-2+-keys");
                }
                if !order_ok {
                    self.s.tally("sweep:requested-iteration-order-not-reproduced");
                }
            }
            let switched = out.steps.windows(2).any(|w| w[0].tid != w[1].tid && w[0].after != 'S' && w[0].after != 'D');
            self.s.case(if switched { Some(line.as_str()) } else { None });
            self.s.tally(&format!("threads={}", case.progs.len()));
            self.s.tally_n("steps", out.steps.len() as u64);
            if switched {
                self.s.tally("schedules-with-a-switch-inside-an-operation");
            }
            if v.window_hits > 0 {
                self.s.tally("expired-window-hit");
            }
            if out.steps.iter().any(|s| s.after == 's') {
                self.s.tally("eviction-removed-an-entry");
                if case.max >= 100 {
                    self.s.tally("eviction-after-counter-underflow");
                }
            }
            for op in case.progs.iter().flatten() {
                self.s.tally(&format!("op:{}", &op.tok()[..1]));
            }
            for (sig, msg) in v.fails {
                *self.known_printed.entry(sig.clone()).or_insert(0) += 1;
                self.s.oracle_fail(&sig, &msg, &[line.clone()]);
            }
            if out.timeout {
                self.note_stuck();
            }
        }
    }

    fn run_exact(case: &Case, sched: &[usize]) -> Outcome {
        let mut ch = |i: usize, _alive: &[usize]| if i < sched.len() { Choice::Tid(sched[i]) } else { Choice::Drain };
        execute(case, &mut ch)
    }

    /// every schedule of a case (stateless depth-first search driven by the real execution);
    /// `run(choose)` executes + emits one schedule and returns (threads chosen, alive sets,
    /// timeout); returns (schedules run, truncated?)
    fn dfs(run: &mut dyn FnMut(&mut dyn FnMut(usize, &[usize]) -> Choice) -> (Vec<usize>, Vec<Vec<usize>>, bool), cap: usize) -> (usize, bool) {
        let mut prefix: Vec<usize> = vec![];
        let mut count = 0;
        loop {
            let p = prefix.clone();
            let mut ch = |i: usize, alive: &[usize]| Choice::Tid(if i < p.len() { p[i] } else { alive[0] });
            let (chosen, alive, timeout) = run(&mut ch);
            count += 1;
            if timeout {
                return (count, true);
            }
            if count >= cap {
                return (count, true);
            }
            // backtrack: last step where a higher-numbered live thread was available
            let mut i = chosen.len();
            let mut found = false;
            while i > 0 {
                i -= 1;
                if let Some(nx) = alive[i].iter().find(|t| **t > chosen[i]) {
                    prefix = chosen[..i].to_vec();
                    prefix.push(*nx);
                    found = true;
                    break;
                }
            }
            if !found {
                return (count, false);
            }
        }
    }

    fn run_all(r: &mut Runner, case: &Case, cap: usize) -> (usize, bool) {
        dfs(
            &mut |ch| {
                let out = execute(case, ch);
                r.emit(case, &out);
                (out.steps.iter().map(|s| s.tid).collect(), out.alive.clone(), out.timeout)
            },
            cap,
        )
    }

    fn run_random(r: &mut Runner, rng: &mut Rng, case: &Case) {
        // a random walk, biased to stay on one thread for a while with probability 1/3 so that
        // both tight interleavings and long runs occur
        let sticky = rng.chance(1, 3);
        let mut last = usize::MAX;
        let mut ch = |_i: usize, alive: &[usize]| {
            let t = if sticky && alive.contains(&last) && rng.chance(2, 3) { last } else { *rng.pick(alive) };
            last = t;
            Choice::Tid(t)
        };
        let out = execute(case, &mut ch);
        r.emit(case, &out);
    }

    // ------------------------------------------------------------------ DiskCache under the controller

    /// endpoints of the RibbitKeys used for the disk cache: cache key string = file name =
    /// "ribbit:us:<endpoint>"; keys 2 and 3 differ only after the last '.', so
    /// `path.with_extension("tmp")` gives both the temporary name "ribbit:us:e.tmp"
    const DISK_ENDPOINTS: [&str; NKEYS] = ["k0", "k1", "e.a", "e.b"];

    fn dkey(n: usize) -> RibbitKey {
        RibbitKey::new(DISK_ENDPOINTS[n], "us")
    }

    fn dname(n: usize) -> String {
        use cascette_cache::key::CacheKey;
        CacheKey::as_cache_key(&dkey(n)).to_string()
    }

    /// temporary file name of a key, by the library function the cache itself calls
    fn dtmp(n: usize) -> String {
        std::path::Path::new(&dname(n)).with_extension("tmp").to_string_lossy().into_owned()
    }

    #[derive(Clone, Debug)]
    pub struct DCase {
        pre: Vec<Op>,
        progs: Vec<Vec<Op>>,
    }

    impl DCase {
        fn line(&self, sched: &str) -> String {
            format!(
                "drun keys={} pre={} t={} s={}",
                (0..NKEYS).map(dname).collect::<Vec<_>>().join(","),
                ops_str(&self.pre),
                self.progs.iter().map(|p| ops_str(p)).collect::<Vec<_>>().join("|"),
                if sched.is_empty() { "-" } else { sched }
            )
        }
        fn parse(line: &str) -> Option<(DCase, Vec<usize>)> {
            let t: Vec<&str> = line.split(' ').filter(|x| !x.is_empty()).collect();
            if t.len() != 5 || t[0] != "drun" {
                return None;
            }
            // the key strings are fixed by the harness: a line naming others is not replayable
            if t[1].strip_prefix("keys=")? != (0..NKEYS).map(dname).collect::<Vec<_>>().join(",") {
                return None;
            }
            let pre = parse_ops(t[2].strip_prefix("pre=")?)?;
            let progs: Option<Vec<Vec<Op>>> = t[3].strip_prefix("t=")?.split('|').map(parse_ops).collect();
            let progs = progs?;
            let s = t[4].strip_prefix("s=")?;
            let sched: Option<Vec<usize>> =
                if s == "-" { Some(vec![]) } else { s.chars().map(|c| c.to_digit(10).map(|d| d as usize)).collect() };
            if progs.len() > 9 || pre.iter().chain(progs.iter().flatten()).any(|o| *o == Op::Clear || o.is_sweep()) {
                return None;
            }
            Some((DCase { pre, progs }, sched?))
        }
    }

    async fn dexec(cache: &DiskCache<RibbitKey>, op: &Op) -> String {
        match op {
            Op::Get(k) => match cache.get(&dkey(*k)).await {
                Ok(Some(b)) => format!("v{}", hex(&b)),
                Ok(None) => "none".into(),
                Err(_) => "err".into(),
            },
            Op::Contains(k) => match cache.contains(&dkey(*k)).await {
                Ok(true) => "t".into(),
                Ok(false) => "f".into(),
                Err(_) => "err".into(),
            },
            Op::Remove(k) => match cache.remove(&dkey(*k)).await {
                Ok(true) => "t".into(),
                Ok(false) => "f".into(),
                Err(_) => "err".into(),
            },
            Op::Clear | Op::Sweep(_) | Op::SweepRm(_) => "bad".into(),
            Op::Put(k, v, short) => {
                let ttl = if *short { Duration::ZERO } else { LONG };
                match cache.put_with_ttl(dkey(*k), Bytes::from(v.clone()), ttl).await {
                    Ok(()) => "ok".into(),
                    Err(_) => "err".into(),
                }
            }
        }
    }

    /// what the probe `get` of a key found at quiescence (classified with the counters read
    /// before and after it)
    #[derive(Clone, Debug, PartialEq)]
    pub enum DSlot {
        Absent,
        Live(Vec<u8>),
        /// served from a file the index did not know (entry_count went up)
        FileOnly(Vec<u8>),
        Expired(u64),
        /// indexed, file missing: the get failed and dropped the entry
        Broken(u64),
    }

    #[derive(Debug)]
    pub struct DOutcome {
        pre: Vec<String>,
        results: Vec<Vec<String>>,
        d: Drive,
        n: u64,
        b: u64,
        c: String,
        fs: Vec<(String, Vec<u8>)>,
        g: Vec<String>,
        slots: Vec<DSlot>,
        n2: u64,
        b2: u64,
    }

    impl DOutcome {
        fn response(&self) -> String {
            if self.d.timeout {
                return "timeout".into();
            }
            let j = |v: &Vec<String>| if v.is_empty() { "-".to_string() } else { v.join(",") };
            let fs = if self.fs.is_empty() {
                "-".to_string()
            } else {
                self.fs.iter().map(|(n, v)| format!("{n}={}", hex(v))).collect::<Vec<_>>().join(";")
            };
            format!(
                "pre={} r={} tr={}/{} n={} b={} c={} fs={} g={} n2={} b2={}",
                j(&self.pre),
                self.results.iter().map(j).collect::<Vec<_>>().join("|"),
                self.d.trace,
                self.d.drain,
                self.n,
                self.b,
                self.c,
                fs,
                j(&self.g),
                self.n2,
                self.b2
            )
        }
    }

    fn scratch_dir() -> tempfile::TempDir {
        // fsync on every put: keep the scratch directory in memory when the machine has /dev/shm
        let shm = std::path::Path::new("/dev/shm");
        if shm.is_dir() { tempfile::tempdir_in(shm).or_else(|_| tempfile::tempdir()) } else { tempfile::tempdir() }.expect("scratch dir")
    }

    pub fn dexecute(case: &DCase, choose: &mut dyn FnMut(usize, &[usize]) -> Choice) -> DOutcome {
        let dir = scratch_dir();
        let cfg = DiskCacheConfig::new(dir.path()).with_max_files(1000).with_subdirectories(false, 0);
        let cache: Arc<DiskCache<RibbitKey>> = Arc::new(DiskCache::new(cfg).expect("config"));
        let rt = tokio::runtime::Builder::new_current_thread().build().expect("rt");
        inflight("disk", case.line(""), "pre-operations");
        let mut pre = vec![];
        for op in &case.pre {
            advance_clocks();
            pre.push(rt.block_on(dexec(&cache, op)));
        }
        advance_clocks();
        let nt = case.progs.len();
        let ctl = Arc::new(Ctl::new(nt));
        let results: Arc<Mutex<Vec<Vec<String>>>> = Arc::new(Mutex::new(vec![vec![]; nt]));
        let mut handles = vec![];
        for (tid, prog) in case.progs.iter().cloned().enumerate() {
            let (ctl, cache, results) = (ctl.clone(), cache.clone(), results.clone());
            handles.push(std::thread::spawn(move || {
                WORKER.with(|w| *w.borrow_mut() = Some((ctl.clone(), tid)));
                let rt = tokio::runtime::Builder::new_current_thread().build().expect("rt");
                for op in &prog {
                    ctl.park(tid, 'S');
                    let r = catch(AssertUnwindSafe(|| rt.block_on(dexec(&cache, op)))).unwrap_or_else(|_| "panic".into());
                    results.lock().unwrap_or_else(|e| e.into_inner())[tid].push(r);
                }
                WORKER.with(|w| *w.borrow_mut() = None);
                ctl.finish(tid);
            }));
        }
        phase("schedule");
        let d = drive(&ctl, nt, choose);
        inflight("disk", case.line(&d.sched), "workers-done");
        let mut out = DOutcome { pre, results: vec![], d, n: 0, b: 0, c: String::new(), fs: vec![], g: vec![], slots: vec![], n2: 0, b2: 0 };
        if out.d.timeout {
            std::mem::forget(dir);
            return out;
        }
        for h in handles {
            let _ = h.join();
        }
        out.results = results.lock().unwrap_or_else(|e| e.into_inner()).clone();
        phase("quiescent-probes");
        advance_clocks();
        let books = |c: &DiskCache<RibbitKey>| {
            let st = c.cache_stats();
            (st.entry_count as u64, st.memory_usage_bytes as u64)
        };
        (out.n, out.b) = books(&cache);
        for k in 0..NKEYS {
            out.c.push(if rt.block_on(cache.contains(&dkey(k))).unwrap_or(false) { 't' } else { 'f' });
        }
        if let Ok(rd) = std::fs::read_dir(dir.path()) {
            for e in rd.flatten() {
                let name = e.file_name().to_string_lossy().into_owned();
                out.fs.push((name, std::fs::read(e.path()).unwrap_or_default()));
            }
        }
        out.fs.sort();
        for k in 0..NKEYS {
            let (n0, b0) = books(&cache);
            let r = rt.block_on(dexec(&cache, &Op::Get(k)));
            let (n1, b1) = books(&cache);
            let slot = match r.as_str() {
                "none" if n1 == n0 => DSlot::Absent,
                "none" => DSlot::Expired(b0.wrapping_sub(b1)),
                "err" => DSlot::Broken(b0.wrapping_sub(b1)),
                v => {
                    let bytes = unhex(&v[1..]).unwrap_or_default();
                    if n1 == n0 { DSlot::Live(bytes) } else { DSlot::FileOnly(bytes) }
                }
            };
            out.g.push(r);
            out.slots.push(slot);
        }
        (out.n2, out.b2) = books(&cache);
        out
    }

    fn overlap(a: (usize, usize), b: (usize, usize)) -> bool {
        a.0 <= b.1 && b.0 <= a.1
    }

    /// every (thread, op index, op, interval)
    fn all_ops<'a>(progs: &'a [Vec<Op>], iv: &[Vec<(usize, usize)>]) -> Vec<(usize, usize, &'a Op, (usize, usize))> {
        let mut v = vec![];
        for (t, p) in progs.iter().enumerate() {
            for (i, op) in p.iter().enumerate() {
                v.push((t, i, op, iv[t][i]));
            }
        }
        v
    }

    /// Oracle for a DiskCache run (implementation only): no operation fails, every value served
    /// (to a thread, to the probes, and every file left under a key's name) is a value some put
    /// wrote for that key, books at quiescence (entry_count / disk_usage = the entries the
    /// probes found), no indexed entry without a file, answers + final contents linearizable.
    /// The sig of a failure names the race the run contains (computed from the programs, the
    /// real-time intervals and the sites reached), so a failure of another shape stays new.
    fn doracle(case: &DCase, out: &DOutcome) -> Vec<(String, String)> {
        let mut fails: Vec<(String, String)> = vec![];
        if out.d.timeout {
            return vec![("disk-schedule-stuck".into(), stuck_msg(&case.progs, out.d.stuck))];
        }
        let mut iv: Vec<Vec<(usize, usize)>> = case.progs.iter().map(|p| vec![(usize::MAX, 0); p.len()]).collect();
        for (i, s) in out.d.steps.iter().enumerate() {
            if s.op < iv[s.tid].len() {
                let e = &mut iv[s.tid][s.op];
                e.0 = e.0.min(i);
                e.1 = e.1.max(i);
            }
        }
        let ops = all_ops(&case.progs, &iv);
        // the races the run contains
        // (1) two puts of different threads overlap and use the same temporary name
        let tmp_clash = |t: usize, i: usize| {
            let Some(Op::Put(k, _, _)) = case.progs[t].get(i) else { return false };
            ops.iter().any(|(u, _, o, jv)| *u != t && matches!(o, Op::Put(k2, _, _) if dtmp(*k2) == dtmp(*k)) && overlap(iv[t][i], *jv))
        };
        let any_tmp_clash = ops.iter().any(|(t, i, _, _)| tmp_clash(*t, *i));
        // (2) a get that went down a removal path (expired entry seen: site F; or read failed)
        //     while another thread's remove / put / removal-path get of the same key overlaps it
        let took_expired = |t: usize, i: usize| out.d.steps.iter().any(|s| s.tid == t && s.op == i && s.after == 'F');
        let removers_of = |k: usize, t: usize, i: usize| {
            ops.iter().any(|(u, j, o, jv)| {
                *u != t
                    && o.key() == Some(k)
                    && overlap(iv[t][i], *jv)
                    && (matches!(o, Op::Remove(_) | Op::Put(..)) || (matches!(o, Op::Get(_)) && (took_expired(*u, *j) || out.results[*u].get(*j).is_some_and(|r| r == "err"))))
            })
        };
        let stale_get = ops.iter().any(|(t, i, o, _)| match o {
            Op::Get(k) => (took_expired(*t, *i) || out.results[*t].get(*i).is_some_and(|r| r == "err")) && removers_of(*k, *t, *i),
            _ => false,
        });
        // (3) a put overlaps a remove / an expired-path get of the same key in another thread
        let put_vs_remove = |k: usize| {
            ops.iter().any(|(t, _, o, a)| {
                matches!(o, Op::Put(k1, _, _) if *k1 == k)
                    && ops.iter().any(|(u, j, o2, b)| u != t && o2.key() == Some(k) && overlap(*a, *b) && (matches!(o2, Op::Remove(_)) || (matches!(o2, Op::Get(_)) && took_expired(*u, *j))))
            })
        };
        // (4) a get read the file (step G -> H) while another thread's put of the same key had
        //     renamed its file into place but not indexed it yet (parked at E), and served that
        //     put's bytes: the value is visible to this get before the index knows the key
        let unindexed_read = ops.iter().any(|(t, i, o, _)| {
            let Op::Get(k) = o else { return false };
            let Some(rd) = out.d.steps.iter().position(|s| s.tid == *t && s.op == *i && s.before == 'G') else { return false };
            let Some(v) = out.results[*t].get(*i).and_then(|r| r.strip_prefix('v')).and_then(unhex) else { return false };
            ops.iter().any(|(u, j, o2, _)| {
                u != t
                    && matches!(o2, Op::Put(k2, v2, _) if k2 == k && *v2 == v)
                    && out.d.steps.iter().position(|s| s.tid == *u && s.op == *j && s.after == 'E').is_some_and(|a| a < rd)
                    && out.d.steps.iter().position(|s| s.tid == *u && s.op == *j && s.before == 'E').map_or(true, |b| b > rd)
            })
        });
        // no operation fails
        for (t, rs) in out.results.iter().enumerate() {
            for (i, r) in rs.iter().enumerate() {
                if r != "err" && r != "panic" {
                    continue;
                }
                let op = &case.progs[t][i];
                let sig = match op {
                    Op::Put(..) if r == "err" && tmp_clash(t, i) => "disk-shared-tmp-rename-fails",
                    Op::Get(k) if r == "err" && removers_of(*k, t, i) => "disk-get-fails-racing-remove",
                    Op::Get(k) if r == "err" && put_vs_remove(*k) => "disk-put-remove-index-without-file",
                    _ => "disk-op-failed",
                };
                fails.push((sig.into(), format!("thread {t} op {i} ({}) answered {r}", op.tok())));
            }
        }
        // provenance
        let mut written: BTreeMap<usize, Vec<Vec<u8>>> = BTreeMap::new();
        for op in case.pre.iter().chain(case.progs.iter().flatten()) {
            if let Op::Put(k, v, _) = op {
                written.entry(*k).or_default().push(v.clone());
            }
        }
        let wrote = |k: usize, v: &[u8]| written.get(&k).is_some_and(|w| w.iter().any(|x| x == v));
        let prov_sig = if any_tmp_clash { "disk-shared-tmp-foreign-bytes" } else { "disk-get-unwritten-value" };
        for (t, rs) in out.results.iter().enumerate() {
            for (i, r) in rs.iter().enumerate() {
                if let (Op::Get(k), Some(h)) = (&case.progs[t][i], r.strip_prefix('v')) {
                    if !unhex(h).is_some_and(|v| wrote(*k, &v)) {
                        fails.push((prov_sig.into(), format!("thread {t} get {k} answered {r}, which no put wrote for that key")));
                    }
                }
            }
        }
        for k in 0..NKEYS {
            if let Some((_, v)) = out.fs.iter().find(|(n, _)| *n == dname(k)) {
                if !wrote(k, v) {
                    fails.push((prov_sig.into(), format!("at quiescence the file of key {k} holds {}, which no put wrote for that key", hex(v))));
                }
            }
        }
        // books at quiescence and index / directory agreement
        let (mut present, mut total) = (0u64, 0u64);
        for (k, s) in out.slots.iter().enumerate() {
            match s {
                DSlot::Absent => {}
                DSlot::Live(v) => {
                    present += 1;
                    total += v.len() as u64;
                }
                DSlot::Expired(n) => {
                    present += 1;
                    total += *n;
                }
                DSlot::Broken(n) => {
                    present += 1;
                    total += *n;
                    let sig = if put_vs_remove(k) { "disk-put-remove-index-without-file" } else { "disk-index-without-file" };
                    fails.push((sig.into(), format!("at quiescence key {k} is indexed ({n} bytes) but its file is gone: get fails")));
                }
                DSlot::FileOnly(v) => {
                    fails.push(("disk-file-not-indexed".into(), format!("at quiescence key {k} has a file ({}) the index does not know", hex(v))));
                }
            }
        }
        if out.n != present || out.b != total {
            let sig = if stale_get {
                "disk-counter-drift-stale-get"
            } else if any_tmp_clash {
                "disk-shared-tmp-foreign-bytes"
            } else {
                "disk-books-quiescent"
            };
            fails.push((sig.into(), format!("at quiescence entry_count={} disk_usage={} but {} entries of {} bytes are stored", out.n, out.b, present, total)));
        }
        // linearizability of the threads' answers and the final contents (skipped when an
        // operation failed: reported above)
        let failed = out.results.iter().flatten().any(|r| r == "err" || r == "panic");
        let complete = out.results.iter().zip(case.progs.iter()).all(|(r, p)| r.len() == p.len());
        let odd_slot = out.slots.iter().any(|s| matches!(s, DSlot::Broken(_) | DSlot::FileOnly(_)));
        if !failed && complete && !odd_slot {
            let mcase = Case { max: 1000, fifo: false, pre: case.pre.clone(), progs: case.progs.clone() };
            let mut contents = BTreeMap::new();
            for (k, s) in out.slots.iter().enumerate() {
                match s {
                    DSlot::Live(v) => {
                        contents.insert(k, Slot::Live(v.clone()));
                    }
                    DSlot::Expired(n) => {
                        contents.insert(k, Slot::Expired(*n));
                    }
                    _ => {}
                }
            }
            let mout = Outcome { pre: out.pre.clone(), results: out.results.clone(), sched: String::new(), trace: String::new(), drain: String::new(), steps: vec![], alive: vec![], n: 0, b: 0, contents, timeout: false, stuck: None, orders: BTreeMap::new(), order_ok: true };
            let mut r0: BTreeMap<usize, RefSlot> = BTreeMap::new();
            let pre_lin = Lin { case: &mcase, out: &mout, iv: vec![], drops: false, disk: true };
            for (op, res) in case.pre.iter().zip(out.pre.iter()) {
                if !pre_lin.apply(&mut r0, op, res) {
                    fails.push(("disk-sequential-answer".into(), format!("pre op {} answered {res}", op.tok())));
                }
            }
            let lin = Lin { case: &mcase, out: &mout, iv, drops: false, disk: true };
            let mut next = vec![0usize; case.progs.len()];
            if !lin.search(&mut next, &r0) {
                let sig = if any_tmp_clash {
                    "disk-shared-tmp-foreign-bytes"
                } else if stale_get {
                    "disk-expired-get-deletes-fresh-put"
                } else if (0..NKEYS).any(put_vs_remove) {
                    "disk-put-remove-index-without-file"
                } else if unindexed_read {
                    "disk-get-serves-unindexed-put"
                } else {
                    "disk-not-linearizable"
                };
                fails.push((sig.into(), format!("no sequential order consistent with real-time order explains answers {:?} and final contents {:?}", out.results, out.slots)));
            }
        }
        fails
    }

    impl Runner {
        fn demit(&mut self, case: &DCase, out: &DOutcome) {
            self.demit_line(case, out, &case.line(&out.d.sched));
        }
        fn demit_line(&mut self, case: &DCase, out: &DOutcome, line: &str) {
            self.s.line(line, &out.response());
            let fails = doracle(case, out);
            let switched = out.d.steps.windows(2).any(|w| w[0].tid != w[1].tid && w[0].after != 'S' && w[0].after != 'D');
            self.s.case(if switched { Some(line) } else { None });
            self.s.tally(&format!("disk:threads={}", case.progs.len()));
            self.s.tally_n("disk:steps", out.d.steps.len() as u64);
            if switched {
                self.s.tally("disk:schedules-with-a-switch-inside-an-operation");
            }
            for op in case.progs.iter().flatten() {
                self.s.tally(&format!("disk:op:{}", &op.tok()[..1]));
            }
            if out.results.iter().flatten().any(|r| r == "err") {
                self.s.tally("disk:an-operation-answered-err");
            }
            for (sig, msg) in fails {
                *self.known_printed.entry(sig.clone()).or_insert(0) += 1;
                self.s.oracle_fail(&sig, &msg, &[line.to_string()]);
            }
            if out.d.timeout {
                self.note_stuck();
            }
        }
    }

    fn drun_all(r: &mut Runner, case: &DCase, cap: usize) -> (usize, bool) {
        dfs(
            &mut |ch| {
                let out = dexecute(case, ch);
                r.demit(case, &out);
                (out.d.steps.iter().map(|s| s.tid).collect(), out.d.alive.clone(), out.d.timeout)
            },
            cap,
        )
    }

    fn drun_random(r: &mut Runner, rng: &mut Rng, case: &DCase) {
        let sticky = rng.chance(1, 3);
        let mut last = usize::MAX;
        let mut ch = |_i: usize, alive: &[usize]| {
            let t = if sticky && alive.contains(&last) && rng.chance(2, 3) { last } else { *rng.pick(alive) };
            last = t;
            Choice::Tid(t)
        };
        let out = dexecute(case, &mut ch);
        r.demit(case, &out);
    }

    fn dalphabet() -> Vec<Op> {
        vec![
            Op::Get(0),
            Op::Contains(0),
            Op::Put(0, vec![0xa1], false),
            Op::Put(0, vec![0xb2, 0xb2, 0xb2], false),
            Op::Put(0, vec![0xc3, 0xc3], true),
            Op::Remove(0),
            Op::Put(1, vec![0xd4, 0xd4, 0xd4, 0xd4], false),
            Op::Get(2),
            Op::Put(2, vec![0x2a, 0x2a], false),
            Op::Put(3, vec![0x3b, 0x3b, 0x3b], false),
        ]
    }

    fn dpres() -> Vec<Vec<Op>> {
        vec![vec![], vec![Op::Put(0, vec![0xe5; 5], false), Op::Put(2, vec![0x97; 4], false)], vec![Op::Put(0, vec![0xf6; 6], true)]]
    }

    fn drandom_case(rng: &mut Rng, nt: usize, max_ops: usize) -> DCase {
        let npre = rng.below(3) as usize;
        let mut pre = vec![];
        for _ in 0..npre {
            let k = rng.below(NKEYS as u64) as usize;
            let n = rng.range(1, 6) as usize;
            pre.push(Op::Put(k, vec![rng.byte(); n], rng.chance(1, 3)));
        }
        let op = |rng: &mut Rng| {
            let k = if rng.chance(1, 2) { 0 } else { rng.below(NKEYS as u64) as usize };
            let val = |rng: &mut Rng| {
                let n = rng.below(5) as usize;
                vec![rng.byte(); n]
            };
            match rng.below(10) {
                0..=2 => Op::Get(k),
                3 => Op::Contains(k),
                4..=6 => Op::Put(k, val(rng), false),
                7 => Op::Put(k, val(rng), true),
                _ => Op::Remove(k),
            }
        };
        let progs = (0..nt).map(|_| (0..rng.range(1, max_ops as u64)).map(|_| op(rng)).collect()).collect();
        DCase { pre, progs }
    }

    // ------------------------------------------------------------------ DynamicContainer: free-running stress (oracle only)

    #[derive(Clone, Copy, Debug, PartialEq)]
    enum D {
        W(usize),
        R(usize),
        X(usize),
        Q(usize),
    }

    impl D {
        fn kind(self) -> &'static str {
            match self {
                D::W(_) => "write",
                D::R(_) => "read",
                D::X(_) => "remove",
                D::Q(_) => "query",
            }
        }
        fn key(self) -> usize {
            match self {
                D::W(p) | D::R(p) | D::X(p) | D::Q(p) => p,
            }
        }
    }

    /// what an operation of a stress round observed
    #[derive(Clone, Copy, Debug, PartialEq)]
    enum Obs {
        /// write / remove returned Ok
        Done,
        /// read returned exactly the payload / query returned true
        Present,
        /// read returned NotFound / query returned false
        Absent,
        /// anything else (reported separately)
        Failed,
    }

    /// one executed operation: (operation, start, end, observation); times in ns since the
    /// workers' common start, taken just outside the call, so the measured interval contains
    /// the real one and "a ended before b started" is never claimed wrongly
    type DRec = (D, u128, u128, Obs);

    /// round number mod 8 -> shape of the round. The pairs the property quantifies over are
    /// each the theme of a mode, so every quick run has ~100 rounds built around each of them.
    const DYN_MODES: [&str; 8] = [
        // 0: write 4 / read 3 / remove 2 / query 1 on every thread, empty container
        "mixed",
        // 1: the same over a container in which a random half of the pool is already indexed
        "mixed-pre",
        // 2: payloads 0,1 indexed before the round and only read / queried by 1-2 reader threads
        //    (longer programs); the other threads only write the OTHER (larger) payloads
        "read-indexed||write-other",
        // 3, 7: writers only, same and different payloads (every write re-saves the index files)
        "write||write",
        // 4: every thread writes and removes (1:1) over the whole pool, half of it indexed before
        "write||remove",
        // 5: whole pool indexed before; reader threads (read 4 / query 1) against remover
        //    threads (remove 2 / write 1)
        "read||remove",
        // 6: as 2, the non-readers also remove (1 in 3) what they and the others wrote
        "read-indexed||write+remove-other",
        "write||write",
    ];

    /// everything one round does, a function of (round_seed, round) alone
    struct DynPlan {
        mode: usize,
        pool: Vec<Vec<u8>>,
        keys: Vec<[u8; 16]>,
        /// payloads written one after the other before the workers start
        pre: Vec<usize>,
        progs: Vec<Vec<D>>,
        /// container built with an LruManager (read and write then also take its lock)
        lru: bool,
    }

    fn dyn_plan(round_seed: u64, round: u64) -> DynPlan {
        let rng = &mut Rng::new(round_seed);
        let mode = (round % 8) as usize;
        let ekey = |data: &[u8]| {
            let mut v = Vec::with_capacity(9 + data.len());
            v.extend_from_slice(b"BLTE\0\0\0\0N");
            v.extend_from_slice(data);
            md5::compute(&v).0
        };
        let np = 5usize;
        let split = matches!(mode, 2 | 6);
        let pool: Vec<Vec<u8>> = (0..np)
            .map(|i| {
                // the payloads written while readers run are the larger ones: BLTE encoding, MD5
                // and the file write of a write happen under the archive lock
                let n = if split && i >= 2 { *rng.pick(&[300usize, 2000, 9000, 40000]) } else { *rng.pick(&[0usize, 1, 17, 300, 2000, 9000]) };
                let mut v = vec![i as u8; 1];
                v.extend((0..n).map(|_| rng.byte()));
                v
            })
            .collect();
        let keys: Vec<[u8; 16]> = pool.iter().map(|p| ekey(p)).collect();
        let nt = rng.range(2, 4) as usize;
        let mixed = |rng: &mut Rng| {
            let p = rng.below(np as u64) as usize;
            match rng.below(10) {
                0..=3 => D::W(p),
                4..=6 => D::R(p),
                7..=8 => D::X(p),
                _ => D::Q(p),
            }
        };
        let prog = |rng: &mut Rng, lo: u64, hi: u64, f: &dyn Fn(&mut Rng) -> D| -> Vec<D> { (0..rng.range(lo, hi)).map(|_| f(rng)).collect() };
        let readers = if nt == 2 { 1 } else { rng.range(1, nt as u64 - 1) as usize };
        let progs: Vec<Vec<D>> = (0..nt)
            .map(|tid| match mode {
                0 | 1 => prog(rng, 4, 14, &mixed),
                3 | 7 => prog(rng, 4, 14, &|rng| D::W(rng.below(np as u64) as usize)),
                2 | 6 => {
                    if tid < readers {
                        prog(rng, 8, 24, &|rng| {
                            let p = rng.below(2) as usize;
                            if rng.chance(1, 6) { D::Q(p) } else { D::R(p) }
                        })
                    } else {
                        prog(rng, 4, 12, &|rng| {
                            let p = rng.range(2, np as u64 - 1) as usize;
                            if mode == 6 && rng.chance(1, 3) { D::X(p) } else { D::W(p) }
                        })
                    }
                }
                4 => prog(rng, 4, 14, &|rng| {
                    let p = rng.below(np as u64) as usize;
                    if rng.chance(1, 2) { D::W(p) } else { D::X(p) }
                }),
                _ => {
                    if tid < readers {
                        prog(rng, 6, 16, &|rng| {
                            let p = rng.below(np as u64) as usize;
                            if rng.chance(1, 5) { D::Q(p) } else { D::R(p) }
                        })
                    } else {
                        prog(rng, 4, 12, &|rng| {
                            let p = rng.below(np as u64) as usize;
                            if rng.chance(1, 3) { D::W(p) } else { D::X(p) }
                        })
                    }
                }
            })
            .collect();
        let pre: Vec<usize> = (0..np)
            .filter(|p| match mode {
                0 | 3 => false,
                1 | 4 | 7 => rng.chance(1, 2),
                2 | 6 => *p < 2 || rng.chance(1, 3),
                _ => true,
            })
            .collect();
        let lru = rng.chance(1, 2);
        DynPlan { mode, pool, keys, pre, progs, lru }
    }

    impl DynPlan {
        fn line(&self, round_seed: u64, round: u64) -> String {
            // only seed= and round= are read back by a replay; the rest describes the round
            format!(
                "dstress seed={round_seed} round={round} mode={} threads={} ops={} pre={} lru={}",
                DYN_MODES[self.mode],
                self.progs.len(),
                self.progs.iter().map(Vec::len).sum::<usize>(),
                if self.pre.is_empty() { "-".to_string() } else { self.pre.iter().map(|p| p.to_string()).collect::<Vec<_>>().join(",") },
                if self.lru { "on" } else { "off" }
            )
        }
        fn describe(&self, op: D) -> String {
            let p = op.key();
            format!("{} of payload {p} ({} bytes{})", op.kind(), self.pool[p].len(), if self.pre.contains(&p) { ", indexed before the round" } else { "" })
        }
    }

    /// progress of a round, shared with the main thread so that it can say what was in flight
    /// when the deadline passed
    struct DynShared {
        /// 0 set-up, 1 pre-writes, 2 workers, 3 quiescent probes, 4 re-open
        phase: AtomicU32,
        /// per worker: i + 1 once it has entered operation i
        entered: Vec<AtomicU64>,
        /// per worker: i + 1 once operation i has returned
        left: Vec<AtomicU64>,
    }

    const DYN_PHASES: [&str; 5] = ["setup", "pre-writes", "workers", "quiescent-probes", "reopen"];

    struct DynResult {
        fails: Vec<(String, String)>,
        tallies: Vec<String>,
    }

    /// Is there a sequential order of the operations on ONE payload, consistent with the measured
    /// real-time order, in which every read / query saw the state (indexed or not) left by the
    /// operations before it, starting from `init` and ending in the state found at quiescence?
    /// (Linearizability is compositional, so the keys are checked one by one; the container is
    /// content-addressed, so per key it is a presence register: write sets, remove clears.)
    fn dyn_key_linearizable(init: bool, ops: &[DRec], fin: bool) -> bool {
        fn go(done: u64, st: bool, ops: &[DRec], fin: bool, memo: &mut std::collections::HashSet<(u64, bool)>) -> bool {
            if done == (1u64 << ops.len()) - 1 {
                return st == fin;
            }
            if !memo.insert((done, st)) {
                return false;
            }
            let min_end = ops.iter().enumerate().filter(|(i, _)| done >> i & 1 == 0).map(|(_, o)| o.2).min().unwrap_or(0);
            for (i, o) in ops.iter().enumerate() {
                // next in the order: not yet placed, and no unplaced operation ended before it began
                if done >> i & 1 == 1 || o.1 > min_end {
                    continue;
                }
                let nst = match o.0 {
                    D::W(_) => true,
                    D::X(_) => false,
                    D::R(_) | D::Q(_) => {
                        if (o.3 == Obs::Present) != st {
                            continue;
                        }
                        st
                    }
                };
                if go(done | 1 << i, nst, ops, fin, memo) {
                    return true;
                }
            }
            false
        }
        go(0, init, ops, fin, &mut std::collections::HashSet::new())
    }

    /// The per-key search must reject what it is there to reject (a test of the oracle itself,
    /// run at every start): a read that misses a value written before it began, a removed value
    /// that is still served, a final state nobody left; and accept the overlapping variants.
    fn dyn_lin_selftest() -> Result<(), String> {
        use Obs::*;
        let cases: [(&str, bool, Vec<DRec>, bool, bool); 8] = [
            ("read after write sees it", false, vec![(D::W(0), 0, 10, Done), (D::R(0), 20, 30, Present)], true, true),
            ("read after write misses it", false, vec![(D::W(0), 0, 10, Done), (D::R(0), 20, 30, Absent)], true, false),
            ("read overlapping write may miss it", false, vec![(D::W(0), 0, 25, Done), (D::R(0), 20, 30, Absent)], true, true),
            ("removed value still served", true, vec![(D::X(0), 0, 10, Done), (D::Q(0), 20, 30, Present)], false, false),
            ("remove then write, absent at the end", true, vec![(D::X(0), 0, 10, Done), (D::W(0), 20, 30, Done)], false, false),
            ("remove || write, either end state", true, vec![(D::X(0), 0, 25, Done), (D::W(0), 20, 30, Done)], false, true),
            ("indexed key never touched reads NotFound", true, vec![(D::R(0), 0, 10, Absent)], true, false),
            ("two reads in real-time order see present then absent then present without a second write", false, vec![(D::W(0), 0, 5, Done), (D::X(0), 0, 40, Done), (D::R(0), 10, 15, Absent), (D::R(0), 20, 25, Present)], true, false),
        ];
        for (name, init, ops, fin, want) in cases {
            if dyn_key_linearizable(init, &ops, fin) != want {
                return Err(format!("`{name}`: expected {want}"));
            }
        }
        Ok(())
    }

    /// One stress round on a fresh DynamicContainer in `path` (runs on its own thread, see
    /// `dyn_round`): the pre-writes one after the other, then `nt` OS threads released together
    /// by a barrier, each running its own list of write / read / remove / query over the shared
    /// pool of payloads, no schedule control (the container has no hooks). The container is
    /// content-addressed (index key = MD5 of the BLTE image of the data), so "a value some put
    /// wrote for that key" means: a read returns NotFound or exactly the pool payload with that
    /// key. Oracle only.
    fn dyn_body(plan: &Arc<DynPlan>, path: &std::path::Path, sh: &Arc<DynShared>) -> DynResult {
        use cascette_client_storage::StorageError;
        use cascette_client_storage::container::{AccessMode, Container, DynamicContainer};
        use cascette_client_storage::lru::LruManager;
        let (np, nt) = (plan.pool.len(), plan.progs.len());
        let (pool, keys, progs) = (&plan.pool, &plan.keys, &plan.progs);
        let mut fails: Vec<(String, String)> = vec![];
        let mut tallies: Vec<String> = vec![];
        let build = || {
            let b = DynamicContainer::builder(path.join("data")).access_mode(AccessMode::ReadWrite).segment_limit(100).max_segment_size(1 << 30);
            if plan.lru { b.lru(Arc::new(parking_lot::RwLock::new(LruManager::new(64, path.join("data"))))) } else { b }.build()
        };
        let c = match build() {
            Ok(c) => Arc::new(c),
            Err(e) => {
                fails.push(("dyn-conc-setup".into(), format!("build: {e}")));
                return DynResult { fails, tallies };
            }
        };
        let rt = tokio::runtime::Builder::new_current_thread().build().expect("rt");
        if let Err(e) = rt.block_on(c.open()) {
            fails.push(("dyn-conc-setup".into(), format!("open: {e}")));
            return DynResult { fails, tallies };
        }
        sh.phase.store(1, Ordering::Release);
        for p in &plan.pre {
            if let Err(e) = rt.block_on(c.write(&keys[*p], &pool[*p])) {
                fails.push(("dyn-conc-setup".into(), format!("sequential write of payload {p} before the round failed: {e}")));
                return DynResult { fails, tallies };
            }
        }
        sh.phase.store(2, Ordering::Release);
        let class = |e: &StorageError| match e {
            StorageError::NotFound(_) => "notfound",
            StorageError::TruncatedRead(_) => "truncated",
            StorageError::Archive(_) => "archive",
            StorageError::Io(_) => "io",
            _ => "other",
        };
        let barrier = Arc::new(std::sync::Barrier::new(nt));
        let wfails: Arc<Mutex<Vec<(String, String)>>> = Arc::new(Mutex::new(vec![]));
        let t0 = Instant::now();
        let mut handles = vec![];
        for tid in 0..nt {
            let (c, barrier, wfails, plan, sh) = (c.clone(), barrier.clone(), wfails.clone(), plan.clone(), sh.clone());
            handles.push(std::thread::spawn(move || {
                let (pool, keys, prog) = (&plan.pool, &plan.keys, &plan.progs[tid]);
                let rt = tokio::runtime::Builder::new_current_thread().build().expect("rt");
                let fail = |sig: &str, msg: String| wfails.lock().unwrap_or_else(|e| e.into_inner()).push((sig.to_string(), msg));
                let mut recs: Vec<DRec> = Vec::with_capacity(prog.len());
                barrier.wait();
                for (i, op) in prog.iter().enumerate() {
                    sh.entered[tid].store(i as u64 + 1, Ordering::Release);
                    let start = t0.elapsed().as_nanos();
                    let res = catch(AssertUnwindSafe(|| match *op {
                        D::W(p) => match rt.block_on(c.write(&keys[p], &pool[p])) {
                            Ok(()) => Obs::Done,
                            Err(e) => {
                                let save = e.to_string().contains("Failed to save index");
                                fail(&if save { "dyn-conc-save-index-fails".to_string() } else { format!("dyn-conc-write-{}", class(&e)) }, format!("thread {tid} op {i}: write of payload {p} ({} bytes) failed: {e}", pool[p].len()));
                                Obs::Failed
                            }
                        },
                        D::R(p) => {
                            let mut buf = vec![0u8; pool[p].len() + 64];
                            match rt.block_on(c.read(&keys[p], 0, 0, &mut buf)) {
                                Ok(n) => {
                                    if buf[..n] != pool[p][..] {
                                        fail("dyn-conc-read-wrong-bytes", format!("thread {tid} op {i}: read of payload {p} returned {n} bytes that are not the {} bytes written", pool[p].len()));
                                        Obs::Failed
                                    } else {
                                        Obs::Present
                                    }
                                }
                                Err(StorageError::NotFound(_)) => Obs::Absent,
                                Err(e) => {
                                    fail(&format!("dyn-conc-read-{}", class(&e)), format!("thread {tid} op {i}: read of payload {p} failed: {e}"));
                                    Obs::Failed
                                }
                            }
                        }
                        D::X(p) => match rt.block_on(c.remove(&keys[p])) {
                            Ok(()) => Obs::Done,
                            Err(e) => {
                                let save = e.to_string().contains("Failed to save index");
                                fail(&if save { "dyn-conc-save-index-fails".to_string() } else { format!("dyn-conc-remove-{}", class(&e)) }, format!("thread {tid} op {i}: remove of payload {p} failed: {e}"));
                                Obs::Failed
                            }
                        },
                        D::Q(p) => match rt.block_on(c.query(&keys[p])) {
                            Ok(true) => Obs::Present,
                            Ok(false) => Obs::Absent,
                            Err(e) => {
                                fail(&format!("dyn-conc-query-{}", class(&e)), format!("thread {tid} op {i}: query failed: {e}"));
                                Obs::Failed
                            }
                        },
                    }));
                    let end = t0.elapsed().as_nanos();
                    sh.left[tid].store(i as u64 + 1, Ordering::Release);
                    let obs = res.unwrap_or_else(|_| {
                        fail("dyn-conc-panic", format!("thread {tid} op {i} ({op:?}) panicked"));
                        Obs::Failed
                    });
                    recs.push((*op, start, end, obs));
                }
                recs
            }));
        }
        // a worker that never returns keeps this join waiting: the main thread's deadline sees it
        let recs: Vec<Vec<DRec>> = handles.into_iter().map(|h| h.join().unwrap_or_default()).collect();
        sh.phase.store(3, Ordering::Release);
        fails.extend(wfails.lock().unwrap_or_else(|e| e.into_inner()).drain(..));
        // which of the pairs this property is about really overlapped in time in this round
        let mut seen: std::collections::BTreeSet<&'static str> = Default::default();
        for (ta, ra) in recs.iter().enumerate() {
            for rb in recs.iter().skip(ta + 1) {
                for a in ra {
                    for b in rb {
                        if a.1 > b.2 || b.1 > a.2 {
                            continue;
                        }
                        let same = a.0.key() == b.0.key();
                        for (x, y) in [(a, b), (b, a)] {
                            match (x.0, y.0) {
                                (D::R(_), D::W(_)) if x.3 == Obs::Present && !same => seen.insert("dyn:rounds-where-overlapped:read-of-indexed-key||write-of-other-key"),
                                (D::R(_), D::W(_)) if same => seen.insert("dyn:rounds-where-overlapped:read||write-same-key"),
                                (D::R(_), D::X(_)) if same => seen.insert("dyn:rounds-where-overlapped:read||remove-same-key"),
                                (D::R(_), D::X(_)) if x.3 == Obs::Present => seen.insert("dyn:rounds-where-overlapped:read-of-indexed-key||remove-of-other-key"),
                                (D::W(_), D::X(_)) if same => seen.insert("dyn:rounds-where-overlapped:write||remove-same-key"),
                                (D::W(_), D::X(_)) => seen.insert("dyn:rounds-where-overlapped:write||remove-other-key"),
                                _ => false,
                            };
                        }
                        match (a.0, b.0) {
                            (D::W(_), D::W(_)) if same => seen.insert("dyn:rounds-where-overlapped:write||write-same-key"),
                            (D::W(_), D::W(_)) => seen.insert("dyn:rounds-where-overlapped:write||write-other-key"),
                            (D::X(_), D::X(_)) => seen.insert("dyn:rounds-where-overlapped:remove||remove"),
                            _ => false,
                        };
                    }
                }
            }
        }
        tallies.extend(seen.iter().map(|s| s.to_string()));
        // quiescence: counts settle, every key is absent or reads back exactly, nothing that was
        // written and never removed by anybody is lost, nothing never written is present
        let mut present = 0usize;
        let mut fin: Vec<Option<bool>> = vec![None; np];
        for p in 0..np {
            let q = rt.block_on(c.query(&keys[p])).unwrap_or(false);
            let mut buf = vec![0u8; pool[p].len() + 64];
            let rd = rt.block_on(c.read(&keys[p], 0, 0, &mut buf));
            let written = plan.pre.contains(&p) || progs.iter().flatten().any(|o| *o == D::W(p));
            let removed = progs.iter().flatten().any(|o| *o == D::X(p));
            match (&rd, q) {
                (Ok(n), true) => {
                    present += 1;
                    fin[p] = Some(true);
                    if buf[..*n] != pool[p][..] {
                        fails.push(("dyn-conc-read-wrong-bytes".into(), format!("at quiescence payload {p} reads back {n} bytes that are not the {} bytes written", pool[p].len())));
                    }
                    if !written {
                        fails.push(("dyn-conc-unwritten-present".into(), format!("at quiescence payload {p} is present although nobody wrote it")));
                    }
                }
                (Err(StorageError::NotFound(_)), false) => {
                    fin[p] = Some(false);
                    if written && !removed {
                        fails.push(("dyn-conc-lost-write".into(), format!("at quiescence payload {p} is absent although it was written and never removed")));
                    }
                }
                (Ok(_), false) | (Err(StorageError::NotFound(_)), true) => {
                    fails.push(("dyn-conc-query-read-disagree".into(), format!("at quiescence payload {p}: query = {q}, read = {}", if rd.is_ok() { "ok" } else { "notfound" })));
                }
                (Err(e), _) => {
                    if q {
                        present += 1;
                    }
                    fails.push((format!("dyn-conc-read-{}", class(e)), format!("at quiescence read of payload {p} failed: {e}")));
                }
            }
        }
        if c.entry_count() != present {
            fails.push(("dyn-conc-entry-count".into(), format!("at quiescence entry_count() = {} but {present} of the pool keys are present", c.entry_count())));
        }
        // every operation took effect at one instant: per payload, the answers of the reads and
        // queries and the state found at quiescence are explained by some sequential order that
        // respects the measured real-time order (payloads with a failed operation or an
        // inconsistent final probe are reported above and skipped here)
        for p in 0..np {
            let ops: Vec<DRec> = recs.iter().flatten().filter(|r| r.0.key() == p).copied().collect();
            let Some(f) = fin[p] else { continue };
            if ops.iter().any(|o| o.3 == Obs::Failed) || ops.len() > 60 {
                continue;
            }
            tallies.push("dyn:per-key-histories-checked-linearizable".into());
            if !dyn_key_linearizable(plan.pre.contains(&p), &ops, f) {
                let mut kinds: Vec<&str> = ops.iter().map(|o| o.0.kind()).collect();
                kinds.sort_unstable();
                kinds.dedup();
                let mut hist: Vec<&DRec> = ops.iter().collect();
                hist.sort_by_key(|o| o.1);
                fails.push((
                    format!("dyn-conc-not-linearizable-{}", kinds.join("+")),
                    format!(
                        "payload {p} (indexed before the round: {}; at quiescence: {}): no sequential order consistent with real-time order explains [{}] (op start..end in us, observation)",
                        plan.pre.contains(&p),
                        if f { "present" } else { "absent" },
                        hist.iter().map(|o| format!("{} {}..{} {:?}", o.0.kind(), o.1 / 1000, o.2 / 1000, o.3)).collect::<Vec<_>>().join(", ")
                    ),
                ));
            }
        }
        // the index files were saved by several threads: what a new process finds on disk must
        // be the same contents
        let was_present: Vec<bool> = (0..np).map(|p| rt.block_on(c.query(&keys[p])).unwrap_or(false)).collect();
        drop(c);
        sh.phase.store(4, Ordering::Release);
        match build() {
            Ok(c2) => {
                if let Err(e) = rt.block_on(c2.open()) {
                    fails.push(("dyn-conc-reopen-fails".into(), format!("open after the run: {e}")));
                } else {
                    for p in 0..np {
                        let q = rt.block_on(c2.query(&keys[p])).unwrap_or(false);
                        if q != was_present[p] {
                            fails.push(("dyn-conc-reopen-differs".into(), format!("payload {p}: present = {} before drop, {q} after re-opening the directory", was_present[p])));
                        } else if q {
                            let mut buf = vec![0u8; pool[p].len() + 64];
                            match rt.block_on(c2.read(&keys[p], 0, 0, &mut buf)) {
                                Ok(n) if buf[..n] == pool[p][..] => {}
                                Ok(n) => fails.push(("dyn-conc-read-wrong-bytes".into(), format!("after re-opening, payload {p} reads back {n} wrong bytes"))),
                                Err(e) => fails.push((format!("dyn-conc-reopen-read-{}", class(&e)), format!("after re-opening, read of payload {p} failed: {e}"))),
                            }
                        }
                    }
                }
            }
            Err(e) => fails.push(("dyn-conc-reopen-fails".into(), format!("build after the run: {e}"))),
        }
        DynResult { fails, tallies }
    }

    /// Run the round `reps` times (until one repetition fails) and report. Every part of a
    /// repetition that calls into the container runs on other threads (`dyn_body` + its
    /// workers); this thread only waits for the result, at most DYN_DEADLINE: a round on which
    /// the operations never return is reported as `dyn-conc-hang-<operations in flight>` with
    /// what every worker was doing, and the run is closed (the stuck threads are abandoned).
    fn dyn_round(r: &mut Runner, round_seed: u64, round: u64, reps: usize) {
        let plan = Arc::new(dyn_plan(round_seed, round));
        let line = plan.line(round_seed, round);
        r.s.line(&line, "oracle-only");
        r.s.case(Some(line.as_str()));
        r.s.tally("dyn:stress-rounds");
        r.s.tally(&format!("dyn:mode:{}", DYN_MODES[plan.mode]));
        if plan.lru {
            r.s.tally("dyn:rounds-with-lru-manager");
        }
        for o in plan.progs.iter().flatten() {
            r.s.tally(&format!("dyn:op:{}", o.kind()));
        }
        inflight("dyn", line.clone(), "stress-round");
        let nt = plan.progs.len();
        for rep in 0..reps {
            let dir = scratch_dir();
            let sh = Arc::new(DynShared { phase: AtomicU32::new(0), entered: (0..nt).map(|_| AtomicU64::new(0)).collect(), left: (0..nt).map(|_| AtomicU64::new(0)).collect() });
            let (tx, rx) = std::sync::mpsc::channel();
            {
                let (plan, sh, path) = (plan.clone(), sh.clone(), dir.path().to_path_buf());
                std::thread::spawn(move || {
                    let res = catch(AssertUnwindSafe(|| dyn_body(&plan, &path, &sh)));
                    let _ = tx.send(res);
                });
            }
            let started = Instant::now();
            let mut fails = match rx.recv_timeout(DYN_DEADLINE) {
                Ok(Ok(res)) => {
                    for t in &res.tallies {
                        r.s.tally(t);
                    }
                    res.fails
                }
                Ok(Err(p)) => vec![("dyn-conc-panic".to_string(), format!("the round panicked outside an operation: {p}"))],
                Err(_) => {
                    // deadline passed: say what was in flight, then give up on this process
                    let ph = DYN_PHASES[(sh.phase.load(Ordering::Acquire) as usize).min(4)];
                    let mut kinds: Vec<&str> = vec![];
                    let mut what: Vec<String> = vec![];
                    for tid in 0..nt {
                        let (e, l) = (sh.entered[tid].load(Ordering::Acquire) as usize, sh.left[tid].load(Ordering::Acquire) as usize);
                        let prog = &plan.progs[tid];
                        if e > l && e <= prog.len() {
                            kinds.push(prog[e - 1].kind());
                            what.push(format!("thread {tid} is still inside its op {} = {} ({} of its {} ops returned)", e - 1, plan.describe(prog[e - 1]), l, prog.len()));
                        } else if l >= prog.len() {
                            what.push(format!("thread {tid} finished its {} ops", prog.len()));
                        } else {
                            what.push(format!("thread {tid} is between its ops {l} and {}", l + 1));
                        }
                    }
                    kinds.sort_unstable();
                    kinds.dedup();
                    let sig = if ph == "workers" && !kinds.is_empty() { format!("dyn-conc-hang-{}", kinds.join("+")) } else { format!("dyn-conc-hang-in-{ph}") };
                    let msg = format!(
                        "round not finished {:.1} s after its start (a round takes milliseconds), phase {ph}, repetition {rep}: {}; operations that do not return never take effect; programs {:?}",
                        started.elapsed().as_secs_f64(),
                        what.join("; "),
                        plan.progs
                    );
                    r.s.oracle_fail(&sig, &msg, &[line.clone()]);
                    drop(dir);
                    r.s.close_early("closed-early:dyn-round-hung");
                }
            };
            // one report per sig and round
            fails.sort();
            fails.dedup_by(|a, b| a.0 == b.0);
            let failed = !fails.is_empty();
            for (sig, msg) in fails {
                r.s.oracle_fail(&sig, &format!("{msg}; programs {:?}", plan.progs), &[line.clone()]);
            }
            if failed {
                break;
            }
            beat();
        }
    }

    // ------------------------------------------------------------------ MultiLayerCacheImpl under the controller
    //
    //   mlrun layers=mm|md pre=<ops> t=<ops>|<ops>[|<ops>] s=<digits>
    //   -> pre=<answers> r=<answers>|… tr=<sites>/<drain> l0=<entry_count>/<bytes>/<contents>
    //      l1=<entry_count>/<bytes>/<contents> tk=<tracked_entries>
    // ops: g<k> get, c<k> contains, r<k> remove, z clear, p<k>:<hex> put (layer 0 + promotion
    // tracker), u<k>:<hex> = put_to_layer(k, v, 0) ("upper"), l<k>:<hex> = put_to_layer(k, v, 1)
    // ("lower"). The cache is a real MultiLayerCacheImpl<RibbitKey> over two MemoryCache layers
    // (mm) or a MemoryCache above a DiskCache (md; oracle only, the answer line is the constant
    // `oracle-only`). Its per-layer calls stop at the mem.* / disk.* schedule points of the layer
    // they are in and, on return from the layer, at `ml.layer.after_<op>` (hooks commit 8d88dc1),
    // so an operation is cut between two layers and between a layer and the promotion tracker.
    // The layers' background tasks are spawned on a paused-clock runtime nobody drives: they
    // never run.
    //
    // Oracle (implementation only): no operation fails; every get answer and every value found in
    // a layer at quiescence was written for that key; per layer entry_count / memory_usage = the
    // contents found; the answers and the final contents OF EVERY LAYER are explained by a
    // sequential order (consistent with real-time order) of atomic operations on the layered map
    // (put writes layer 0, put_to_layer its layer, get / contains look from the top, remove and
    // clear empty every layer); directly: a key whose last writer finished before a remove of it
    // / a clear began is in no layer at quiescence (`ml-removed-key-still-stored`).

    #[derive(Clone, Debug, PartialEq)]
    pub enum MOp {
        Get(usize),
        Contains(usize),
        Put(usize, Vec<u8>),
        Remove(usize),
        Clear,
        /// put_to_layer(key, value, layer)
        PutTo(usize, Vec<u8>, usize),
    }

    const ML_LAYERS: usize = 2;
    /// The enumerators of this section do not switch threads between the two counter updates of
    /// a layer operation (sites: before memory_usage in put-new / remove / clear / the expired
    /// paths): every interleaving of those is enumerated on the MemoryCache alone (sections A-C);
    /// here the schedule budget goes to the map accesses, the layer boundaries and the tracker.
    const ML_STICKY: &str = "kmocf";

    impl MOp {
        fn tok(&self) -> String {
            match self {
                MOp::Get(k) => format!("g{k}"),
                MOp::Contains(k) => format!("c{k}"),
                MOp::Remove(k) => format!("r{k}"),
                MOp::Clear => "z".into(),
                MOp::Put(k, v) => format!("p{k}:{}", hex(v)),
                MOp::PutTo(k, v, l) => format!("{}{k}:{}", if *l == 0 { 'u' } else { 'l' }, hex(v)),
            }
        }
        fn parse(t: &str) -> Option<MOp> {
            let (c, r) = (t.chars().next()?, &t[1..]);
            match c {
                'g' => r.parse().ok().filter(|k| *k < NKEYS).map(MOp::Get),
                'c' => r.parse().ok().filter(|k| *k < NKEYS).map(MOp::Contains),
                'r' => r.parse().ok().filter(|k| *k < NKEYS).map(MOp::Remove),
                'z' if r.is_empty() => Some(MOp::Clear),
                'p' | 'u' | 'l' => {
                    let (k, h) = r.split_once(':')?;
                    let k: usize = k.parse().ok().filter(|k| *k < NKEYS)?;
                    if h.contains(':') {
                        return None;
                    }
                    let v = unhex(h)?;
                    Some(match c {
                        'p' => MOp::Put(k, v),
                        'u' => MOp::PutTo(k, v, 0),
                        _ => MOp::PutTo(k, v, 1),
                    })
                }
                _ => None,
            }
        }
        fn writes(&self) -> Option<(usize, &Vec<u8>, usize)> {
            match self {
                MOp::Put(k, v) => Some((*k, v, 0)),
                MOp::PutTo(k, v, l) => Some((*k, v, *l)),
                _ => None,
            }
        }
    }

    fn mops_str(ops: &[MOp]) -> String {
        if ops.is_empty() { "-".into() } else { ops.iter().map(MOp::tok).collect::<Vec<_>>().join(",") }
    }

    fn parse_mops(s: &str) -> Option<Vec<MOp>> {
        if s == "-" {
            return Some(vec![]);
        }
        s.split(',').map(MOp::parse).collect()
    }

    #[derive(Clone, Debug)]
    pub struct MCase {
        /// layer 1 is a DiskCache (oracle only)
        disk: bool,
        pre: Vec<MOp>,
        progs: Vec<Vec<MOp>>,
    }

    impl MCase {
        fn line(&self, sched: &str) -> String {
            format!(
                "mlrun layers={} pre={} t={} s={}",
                if self.disk { "md" } else { "mm" },
                mops_str(&self.pre),
                self.progs.iter().map(|p| mops_str(p)).collect::<Vec<_>>().join("|"),
                if sched.is_empty() { "-" } else { sched }
            )
        }
        fn parse(line: &str) -> Option<(MCase, Vec<usize>)> {
            let t: Vec<&str> = line.split(' ').filter(|x| !x.is_empty()).collect();
            if t.len() != 5 || t[0] != "mlrun" {
                return None;
            }
            let disk = match t[1].strip_prefix("layers=")? {
                "mm" => false,
                "md" => true,
                _ => return None,
            };
            let pre = parse_mops(t[2].strip_prefix("pre=")?)?;
            let progs: Option<Vec<Vec<MOp>>> = t[3].strip_prefix("t=")?.split('|').map(parse_mops).collect();
            let progs = progs?;
            let s = t[4].strip_prefix("s=")?;
            let sched: Option<Vec<usize>> =
                if s == "-" { Some(vec![]) } else { s.chars().map(|c| c.to_digit(10).map(|d| d as usize)).collect() };
            if progs.len() > 9 {
                return None;
            }
            Some((MCase { disk, pre, progs }, sched?))
        }
    }

    type MlCache = cascette_cache::MultiLayerCacheImpl<RibbitKey>;

    async fn mexec(cache: &MlCache, op: &MOp) -> String {
        use cascette_cache::traits::MultiLayerCache;
        let unit = |r: cascette_cache::CacheResult<()>| if r.is_ok() { "ok".to_string() } else { "err".to_string() };
        let flag = |r: cascette_cache::CacheResult<bool>| match r {
            Ok(true) => "t".to_string(),
            Ok(false) => "f".to_string(),
            Err(_) => "err".to_string(),
        };
        match op {
            MOp::Get(k) => match cache.get(&key(*k)).await {
                Ok(Some(b)) => format!("v{}", hex(&b)),
                Ok(None) => "none".into(),
                Err(_) => "err".into(),
            },
            MOp::Contains(k) => flag(cache.contains(&key(*k)).await),
            MOp::Remove(k) => flag(cache.remove(&key(*k)).await),
            MOp::Clear => unit(cache.clear().await),
            MOp::Put(k, v) => unit(cache.put(key(*k), Bytes::from(v.clone())).await),
            MOp::PutTo(k, v, l) => unit(cache.put_to_layer(key(*k), Bytes::from(v.clone()), *l).await),
        }
    }

    /// what one layer holds at quiescence: its books and the value `get_from_layer` finds per key
    #[derive(Clone, Debug, Default, PartialEq)]
    pub struct MLayer {
        n: u64,
        b: u64,
        contents: BTreeMap<usize, Vec<u8>>,
        /// probe gets that failed
        errs: Vec<usize>,
    }

    #[derive(Debug)]
    pub struct MOutcome {
        pre: Vec<String>,
        results: Vec<Vec<String>>,
        d: Drive,
        layers: Vec<MLayer>,
        tracked: u64,
    }

    impl MOutcome {
        fn response(&self, case: &MCase) -> String {
            if case.disk {
                return "oracle-only".into();
            }
            if self.d.timeout {
                return "timeout".into();
            }
            let j = |v: &Vec<String>| if v.is_empty() { "-".to_string() } else { v.join(",") };
            let lay = |l: &MLayer| {
                let m = if l.contents.is_empty() { "-".to_string() } else { l.contents.iter().map(|(k, v)| format!("{k}:{}", hex(v))).collect::<Vec<_>>().join(",") };
                format!("{}/{}/{m}", l.n, l.b)
            };
            format!(
                "pre={} r={} tr={}/{} {} tk={}",
                j(&self.pre),
                self.results.iter().map(j).collect::<Vec<_>>().join("|"),
                self.d.trace,
                self.d.drain,
                self.layers.iter().enumerate().map(|(i, l)| format!("l{i}={}", lay(l))).collect::<Vec<_>>().join(" "),
                self.tracked
            )
        }
    }

    /// Runs a future to completion on the calling thread. The operations of a cache whose layers
    /// are all MemoryCaches never wait for anything (no I/O, no timer, no task): one poll
    /// completes them, so those cases need no runtime per worker; with a disk layer (tokio::fs)
    /// the future is driven by a current-thread runtime as in the DiskCache section.
    enum Exec {
        Poll,
        Rt(tokio::runtime::Runtime),
    }

    impl Exec {
        fn new(disk: bool) -> Exec {
            if disk { Exec::Rt(tokio::runtime::Builder::new_current_thread().build().expect("rt")) } else { Exec::Poll }
        }
        fn run<F: std::future::Future>(&self, f: F) -> F::Output {
            match self {
                Exec::Rt(rt) => rt.block_on(f),
                Exec::Poll => {
                    let mut f = std::pin::pin!(f);
                    let mut cx = std::task::Context::from_waker(std::task::Waker::noop());
                    loop {
                        if let std::task::Poll::Ready(v) = f.as_mut().poll(&mut cx) {
                            return v;
                        }
                        std::thread::yield_now();
                    }
                }
            }
        }
    }

    pub fn mexecute(case: &MCase, choose: &mut dyn FnMut(usize, &[usize]) -> Choice) -> MOutcome {
        use cascette_cache::config::MultiLayerCacheConfig;
        use cascette_cache::traits::MultiLayerCache;
        let dir = if case.disk { Some(scratch_dir()) } else { None };
        let mem = || {
            let mut c = MemoryCacheConfig::new().with_max_entries(1000).with_eviction_policy(EvictionPolicy::Lru);
            c.max_memory_bytes = None;
            c.default_ttl = Some(LONG);
            c.cleanup_interval = LONG;
            c
        };
        let mut mc = MultiLayerCacheConfig::new().add_memory_layer(mem());
        mc = match &dir {
            Some(d) => {
                let mut c = DiskCacheConfig::new(d.path()).with_max_files(1000).with_subdirectories(false, 0);
                c.default_ttl = Some(LONG);
                c.cleanup_interval = LONG;
                c.sync_interval = LONG;
                mc.add_disk_layer(c)
            }
            None => mc.add_memory_layer(mem()),
        };
        // the layers spawn their cleanup / sync tasks at construction: on a runtime with a paused
        // clock that nobody drives, so the tasks exist (as in production) but never run
        let bg = tokio::runtime::Builder::new_current_thread().enable_time().start_paused(true).build().expect("rt");
        let cache: Arc<MlCache> = {
            let _g = bg.enter();
            Arc::new(MlCache::new(mc).expect("config"))
        };
        let rt = Exec::new(case.disk);
        inflight("ml", case.line(""), "pre-operations");
        let mut pre = vec![];
        for op in &case.pre {
            advance_clocks();
            pre.push(rt.run(mexec(&cache, op)));
        }
        advance_clocks();
        let nt = case.progs.len();
        let ctl = Arc::new(Ctl::new(nt));
        let results: Arc<Mutex<Vec<Vec<String>>>> = Arc::new(Mutex::new(vec![vec![]; nt]));
        let mut handles = vec![];
        for (tid, prog) in case.progs.iter().cloned().enumerate() {
            let (ctl, cache, results, disk) = (ctl.clone(), cache.clone(), results.clone(), case.disk);
            handles.push(std::thread::spawn(move || {
                WORKER.with(|w| *w.borrow_mut() = Some((ctl.clone(), tid)));
                let rt = Exec::new(disk);
                for op in &prog {
                    ctl.park(tid, 'S');
                    let r = catch(AssertUnwindSafe(|| rt.run(mexec(&cache, op)))).unwrap_or_else(|_| "panic".into());
                    results.lock().unwrap_or_else(|e| e.into_inner())[tid].push(r);
                }
                WORKER.with(|w| *w.borrow_mut() = None);
                ctl.finish(tid);
            }));
        }
        phase("schedule");
        let d = drive_sticky(&ctl, nt, ML_STICKY, choose);
        inflight("ml", case.line(&d.sched), "workers-done");
        let mut out = MOutcome { pre, results: vec![], d, layers: vec![], tracked: 0 };
        if out.d.timeout {
            // stuck workers hold the cache: leave everything where it is
            std::mem::forget(bg);
            if let Some(d) = dir {
                std::mem::forget(d);
            }
            return out;
        }
        for h in handles {
            let _ = h.join();
        }
        out.results = results.lock().unwrap_or_else(|e| e.into_inner()).clone();
        phase("quiescent-probes");
        advance_clocks();
        out.tracked = rt.run(cache.multi_layer_stats()).map(|s| s.tracked_entries as u64).unwrap_or(u64::MAX);
        // the books of every layer first, then the contents layer by layer (a probe get of a
        // memory layer only touches the entry's access stamp)
        for l in 0..ML_LAYERS {
            let st = rt.run(cache.layer_stats(l));
            out.layers.push(MLayer { n: st.as_ref().map(|s| s.entry_count as u64).unwrap_or(u64::MAX), b: st.map(|s| s.memory_usage_bytes as u64).unwrap_or(u64::MAX), ..MLayer::default() });
        }
        for l in 0..ML_LAYERS {
            for k in 0..NKEYS {
                match rt.run(cache.get_from_layer(&key(k), l)) {
                    Ok(Some(v)) => {
                        out.layers[l].contents.insert(k, v.to_vec());
                    }
                    Ok(None) => {}
                    Err(_) => out.layers[l].errs.push(k),
                }
            }
        }
        drop(cache);
        drop(bg);
        out
    }

    /// the layered map every multi-layer operation is atomic on
    type MRef = Vec<BTreeMap<usize, Vec<u8>>>;

    fn mref_apply(r: &mut MRef, op: &MOp, res: &str) -> bool {
        match op {
            MOp::Get(k) => match r.iter().find_map(|l| l.get(k)) {
                Some(v) => res == format!("v{}", hex(v)),
                None => res == "none",
            },
            MOp::Contains(k) => res == if r.iter().any(|l| l.contains_key(k)) { "t" } else { "f" },
            MOp::Remove(k) => {
                let mut found = false;
                for l in r.iter_mut() {
                    found |= l.remove(k).is_some();
                }
                res == if found { "t" } else { "f" }
            }
            MOp::Clear => {
                for l in r.iter_mut() {
                    l.clear();
                }
                res == "ok"
            }
            MOp::Put(k, v) => {
                r[0].insert(*k, v.clone());
                res == "ok"
            }
            MOp::PutTo(k, v, l) => {
                r[*l].insert(*k, v.clone());
                res == "ok"
            }
        }
    }

    /// Search for a sequential order that explains a multi-layer run.
    /// `layerwise = false`: every operation is ONE atomic step on the layered map (the property).
    /// `layerwise = true`: every operation is the sequence of its per-layer accesses, top layer
    /// first, each atomic at its own instant inside the operation's interval (get / contains stop
    /// at the first layer that has the key, remove / clear visit every layer, the answer of a
    /// remove is the OR of what its per-layer removals found) — what an implementation without a
    /// lock across the layers can promise at best.
    struct MLin<'a> {
        case: &'a MCase,
        out: &'a MOutcome,
        iv: &'a [Vec<(usize, usize)>],
        layerwise: bool,
    }

    enum Sub {
        Dead,
        Next,
        Done,
    }

    /// the access of `op` to layer `j` (`acc` = a remove has found the key in a layer above)
    fn msub_apply(r: &mut MRef, op: &MOp, j: usize, acc: &mut bool, res: &str) -> Sub {
        let last = j + 1 >= r.len();
        let fin = |ok: bool| if ok { Sub::Done } else { Sub::Dead };
        match op {
            MOp::Get(k) => match r[j].get(k) {
                Some(v) => fin(res == format!("v{}", hex(v))),
                None if last => fin(res == "none"),
                None => Sub::Next,
            },
            MOp::Contains(k) => {
                if r[j].contains_key(k) {
                    fin(res == "t")
                } else if last {
                    fin(res == "f")
                } else {
                    Sub::Next
                }
            }
            MOp::Remove(k) => {
                *acc |= r[j].remove(k).is_some();
                if last { fin(res == if *acc { "t" } else { "f" }) } else { Sub::Next }
            }
            MOp::Clear => {
                r[j].clear();
                if last { fin(res == "ok") } else { Sub::Next }
            }
            MOp::Put(..) | MOp::PutTo(..) => fin(mref_apply(r, op, res)),
        }
    }

    impl MLin<'_> {
        /// `next[t]` = index of thread t's first operation that has not taken (all of) its effect,
        /// `sub[t]` = (layer its next access goes to, remove-found-so-far) inside that operation
        fn search(&self, next: &mut Vec<usize>, sub: &mut Vec<(usize, bool)>, r: &MRef) -> bool {
            let nt = self.case.progs.len();
            if (0..nt).all(|t| next[t] >= self.case.progs[t].len()) {
                return r.iter().zip(self.out.layers.iter()).all(|(a, b)| *a == b.contents);
            }
            for t in 0..nt {
                let i = next[t];
                if i >= self.case.progs[t].len() {
                    continue;
                }
                let start = self.iv[t][i].0;
                // real-time order: nothing still pending may have finished before this op began
                if sub[t].0 == 0 && (0..nt).any(|u| u != t && next[u] < self.case.progs[u].len() && self.iv[u][next[u]].1 < start) {
                    continue;
                }
                let (op, res) = (&self.case.progs[t][i], self.out.results[t][i].as_str());
                let mut r2 = r.clone();
                let saved = sub[t];
                let step = if self.layerwise {
                    let (j, mut acc) = saved;
                    let st = msub_apply(&mut r2, op, j, &mut acc, res);
                    sub[t] = (j + 1, acc);
                    st
                } else if mref_apply(&mut r2, op, res) {
                    Sub::Done
                } else {
                    Sub::Dead
                };
                let ok = match step {
                    Sub::Dead => false,
                    Sub::Next => self.search(next, sub, &r2),
                    Sub::Done => {
                        next[t] += 1;
                        sub[t] = (0, false);
                        let ok = self.search(next, sub, &r2);
                        next[t] -= 1;
                        ok
                    }
                };
                sub[t] = saved;
                if ok {
                    return true;
                }
            }
            false
        }
        fn explains(&self, r0: &MRef) -> bool {
            let nt = self.case.progs.len();
            self.search(&mut vec![0usize; nt], &mut vec![(0usize, false); nt], r0)
        }
    }

    fn moracle(case: &MCase, out: &MOutcome) -> Vec<(String, String)> {
        let mut fails: Vec<(String, String)> = vec![];
        if out.d.timeout {
            let msg = match out.d.stuck {
                Some((tid, op, site)) => format!(
                    "thread {tid}, released from schedule point `{site}` inside its operation {op} ({}), neither reached the next schedule point nor finished within the watchdog time: it waits for something a parked thread holds (or for itself)",
                    case.progs.get(tid).and_then(|p| p.get(op)).map(MOp::tok).unwrap_or_else(|| "?".into())
                ),
                None => "the workers did not reach their first schedule point within the watchdog time".into(),
            };
            return vec![("ml-schedule-stuck".into(), msg)];
        }
        let mut iv: Vec<Vec<(usize, usize)>> = case.progs.iter().map(|p| vec![(usize::MAX, 0); p.len()]).collect();
        for (i, s) in out.d.steps.iter().enumerate() {
            if s.op < iv[s.tid].len() {
                let e = &mut iv[s.tid][s.op];
                e.0 = e.0.min(i);
                e.1 = e.1.max(i);
            }
        }
        let mut ops: Vec<(usize, usize, &MOp, (usize, usize))> = vec![];
        for (t, p) in case.progs.iter().enumerate() {
            for (i, op) in p.iter().enumerate() {
                ops.push((t, i, op, iv[t][i]));
            }
        }
        let clear_overlap = ops.iter().any(|(t, _, o, a)| matches!(o, MOp::Clear) && ops.iter().any(|(u, _, _, b)| u != t && overlap(*a, *b)));
        // memory above disk: a get that had looked the key up in the disk index (parked before its
        // file read, or on the expired path) while another thread's remove of the key / clear / get
        // overlaps it: the disk layer's failed-read path books what the get saw earlier (finding
        // disk-counter-drift-stale-get of the DiskCache section)
        let stale_disk_get = case.disk
            && ops.iter().any(|(t, i, o, a)| match o {
                MOp::Get(k) => {
                    out.d.steps.iter().any(|s| s.tid == *t && s.op == *i && (s.after == 'G' || s.after == 'F'))
                        && ops.iter().any(|(u, _, o2, b)| u != t && overlap(*a, *b) && (matches!(o2, MOp::Clear) || matches!(o2, MOp::Remove(k2) | MOp::Get(k2) if k2 == k)))
                }
                _ => false,
            });
        // no operation fails
        for (t, rs) in out.results.iter().enumerate() {
            for (i, r) in rs.iter().enumerate() {
                if r == "err" || r == "panic" {
                    fails.push(("ml-op-failed".into(), format!("thread {t} op {i} ({}) answered {r}", case.progs[t][i].tok())));
                }
            }
        }
        for (l, lay) in out.layers.iter().enumerate() {
            for k in &lay.errs {
                fails.push(("ml-op-failed".into(), format!("at quiescence get_from_layer(key {k}, layer {l}) failed")));
            }
        }
        // provenance: answers and what the layers hold
        let mut written: BTreeMap<usize, Vec<Vec<u8>>> = BTreeMap::new();
        for op in case.pre.iter().chain(case.progs.iter().flatten()) {
            if let Some((k, v, _)) = op.writes() {
                written.entry(k).or_default().push(v.clone());
            }
        }
        let wrote = |k: usize, v: &[u8]| written.get(&k).is_some_and(|w| w.iter().any(|x| x == v));
        for (t, rs) in out.results.iter().enumerate() {
            for (i, r) in rs.iter().enumerate() {
                if let (MOp::Get(k), Some(h)) = (&case.progs[t][i], r.strip_prefix('v')) {
                    if !unhex(h).is_some_and(|v| wrote(*k, &v)) {
                        fails.push(("ml-get-unwritten-value".into(), format!("thread {t} get {k} answered {r}, which no put wrote for that key")));
                    }
                }
            }
        }
        for (l, lay) in out.layers.iter().enumerate() {
            for (k, v) in &lay.contents {
                if !wrote(*k, v) {
                    fails.push(("ml-get-unwritten-value".into(), format!("at quiescence layer {l} holds {} under key {k}, which no put wrote for that key", hex(v))));
                }
            }
        }
        // books of every layer at quiescence
        for (l, lay) in out.layers.iter().enumerate() {
            let total: u64 = lay.contents.values().map(|v| v.len() as u64).sum();
            if lay.n != lay.contents.len() as u64 || lay.b != total {
                let sig = if l > 0 && stale_disk_get {
                    "disk-counter-drift-stale-get"
                } else if clear_overlap && !(case.disk && l > 0) {
                    "mem-clear-races-put"
                } else {
                    "ml-layer-books-quiescent"
                };
                fails.push((sig.into(), format!("at quiescence layer {l} reports entry_count={} memory_usage={} but holds {} entries of {} bytes", lay.n, lay.b, lay.contents.len(), total)));
            }
        }
        // a removed / cleared key is in no layer once everybody has finished: every writer of the
        // key had finished before the remove / clear began
        for (_, _, o, a) in &ops {
            let ks: Vec<usize> = match o {
                MOp::Remove(k) => vec![*k],
                MOp::Clear => (0..NKEYS).collect(),
                _ => continue,
            };
            for k in ks {
                let late_writer = ops.iter().any(|(_, _, o2, b)| o2.writes().is_some_and(|w| w.0 == k) && b.1 >= a.0);
                if late_writer {
                    continue;
                }
                for (l, lay) in out.layers.iter().enumerate() {
                    if let Some(v) = lay.contents.get(&k) {
                        fails.push(("ml-removed-key-still-stored".into(), format!("{} ran after every write of key {k} had finished, yet at quiescence layer {l} still holds {} under it", o.tok(), hex(v))));
                    }
                }
            }
        }
        // every operation takes effect at one instant: linearizability on the layered map. A run
        // in which an eviction removed an entry is not searched (max_entries is 1000: it only
        // happens after a layer's entry_count has underflowed, finding mem-clear-races-put /
        // corpus underflow-evicts-everything: the cache forgets entries then)
        let complete = out.results.iter().zip(case.progs.iter()).all(|(r, p)| r.len() == p.len());
        let failed = out.results.iter().flatten().chain(out.pre.iter()).any(|r| r == "err" || r == "panic");
        let evicted = out.d.steps.iter().any(|s| s.after == 's');
        if complete && !failed && !evicted {
            let mut r0: MRef = vec![BTreeMap::new(); ML_LAYERS];
            for (op, res) in case.pre.iter().zip(out.pre.iter()) {
                if !mref_apply(&mut r0, op, res) {
                    fails.push(("ml-sequential-answer".into(), format!("pre op {} (run alone) answered {res}", op.tok())));
                }
            }
            if !(MLin { case, out, iv: &iv, layerwise: false }).explains(&r0) {
                // not atomic. Is it at least what per-layer atomicity allows (no lock across the
                // layers: finding ml-not-atomic-across-layers)? Anything else is new.
                let layerwise = (MLin { case, out, iv: &iv, layerwise: true }).explains(&r0);
                let (sig, what) = if layerwise {
                    ("ml-not-atomic-across-layers", "no sequential order of ATOMIC operations on the layered map, consistent with real-time order, explains the run (an order of their per-layer accesses, each atomic on its layer, does: the operations are not atomic across the layers)")
                } else {
                    ("ml-not-linearizable", "no sequential order consistent with real-time order explains the run, neither of atomic operations on the layered map nor of their per-layer accesses (top layer first, each atomic on its layer)")
                };
                fails.push((sig.into(), format!("{what}: answers {:?}, contents found at quiescence {:?}, start {:?}", out.results, out.layers.iter().map(|l| &l.contents).collect::<Vec<_>>(), r0)));
            }
        }
        fails
    }

    /// The two-strength search must tell apart what it is there to tell apart (a test of the
    /// oracle itself, run at every start): a get served from below a half-done remove is not
    /// atomic but layer-wise explainable; a remove that answers `false` after the same thread's
    /// contains saw the key, with the key still stored at the end, is explained by neither; real
    /// time order binds both.
    fn ml_lin_selftest() -> Result<(), String> {
        let mk = |progs: Vec<Vec<MOp>>, results: Vec<Vec<&str>>, fin: [&[(usize, &[u8])]; 2]| {
            let case = MCase { disk: false, pre: vec![], progs };
            let d = Drive { sched: String::new(), trace: String::new(), drain: String::new(), steps: vec![], alive: vec![], timeout: false, stuck: None };
            let layers = fin.iter().map(|l| MLayer { contents: l.iter().map(|(k, v)| (*k, v.to_vec())).collect(), ..MLayer::default() }).collect();
            let out = MOutcome { pre: vec![], results: results.iter().map(|r| r.iter().map(|x| x.to_string()).collect()).collect(), d, layers, tracked: 0 };
            (case, out)
        };
        let both: MRef = vec![[(0usize, vec![0xe5u8])].into_iter().collect(), [(0usize, vec![0x97u8, 0x97])].into_iter().collect()];
        let empty: MRef = vec![BTreeMap::new(), BTreeMap::new()];
        type T = (&'static str, MRef, (MCase, MOutcome), Vec<Vec<(usize, usize)>>, bool, bool);
        let cases: Vec<T> = vec![
            ("get below a half-done remove", both.clone(), mk(vec![vec![MOp::Get(0)], vec![MOp::Remove(0)]], vec![vec!["v9797"], vec!["t"]], [&[], &[]]), vec![vec![(3, 5)], vec![(0, 9)]], false, true),
            ("get before the remove", both.clone(), mk(vec![vec![MOp::Get(0)], vec![MOp::Remove(0)]], vec![vec!["ve5"], vec!["t"]], [&[], &[]]), vec![vec![(3, 5)], vec![(0, 9)]], true, true),
            ("two removes both true", both.clone(), mk(vec![vec![MOp::Remove(0)], vec![MOp::Remove(0)]], vec![vec!["t"], vec!["t"]], [&[], &[]]), vec![vec![(0, 6)], vec![(1, 9)]], false, true),
            ("two removes both true, one after the other", both, mk(vec![vec![MOp::Remove(0)], vec![MOp::Remove(0)]], vec![vec!["t"], vec!["t"]], [&[], &[]]), vec![vec![(0, 4)], vec![(5, 9)]], false, false),
            ("remove says false after contains saw the in-flight put", empty.clone(), mk(vec![vec![MOp::Put(0, vec![0xa1])], vec![MOp::Contains(0), MOp::Remove(0)]], vec![vec!["ok"], vec!["t", "f"]], [&[(0, &[0xa1])], &[]]), vec![vec![(0, 9)], vec![(2, 3), (4, 5)]], false, false),
            ("remove takes the in-flight put out", empty.clone(), mk(vec![vec![MOp::Put(0, vec![0xa1])], vec![MOp::Contains(0), MOp::Remove(0)]], vec![vec!["ok"], vec!["t", "t"]], [&[], &[]]), vec![vec![(0, 9)], vec![(2, 3), (4, 8)]], true, true),
            ("get misses a put that had finished", empty, mk(vec![vec![MOp::Put(0, vec![0xa1])], vec![MOp::Get(0)]], vec![vec!["ok"], vec!["none"]], [&[(0, &[0xa1])], &[]]), vec![vec![(0, 4)], vec![(5, 7)]], false, false),
        ];
        for (name, r0, (case, out), iv, atomic, layerwise) in &cases {
            for (lw, want) in [(false, atomic), (true, layerwise)] {
                if (MLin { case, out, iv, layerwise: lw }).explains(r0) != *want {
                    return Err(format!("`{name}`, {} search: expected {want}", if lw { "layer-wise" } else { "atomic" }));
                }
            }
        }
        Ok(())
    }

    impl Runner {
        fn memit(&mut self, case: &MCase, out: &MOutcome) {
            self.memit_line(case, out, &case.line(&out.d.sched));
        }
        fn memit_line(&mut self, case: &MCase, out: &MOutcome, line: &str) {
            self.s.line(line, &out.response(case));
            let fails = moracle(case, out);
            let switched = out.d.steps.windows(2).any(|w| w[0].tid != w[1].tid && w[0].after != 'S' && w[0].after != 'D');
            self.s.case(if switched { Some(line) } else { None });
            self.s.tally(&format!("ml:layers={}", if case.disk { "memory+disk" } else { "memory+memory" }));
            self.s.tally(&format!("ml:threads={}", case.progs.len()));
            self.s.tally_n("ml:steps", out.d.steps.len() as u64);
            if switched {
                self.s.tally("ml:schedules-with-a-switch-inside-an-operation");
            }
            // a switch while a thread stood between two layers / between a layer and the tracker
            if out.d.steps.windows(2).any(|w| w[0].tid != w[1].tid && "IJKNRZ".contains(w[0].after)) {
                self.s.tally("ml:schedules-with-a-switch-between-layer-and-next-access");
            }
            for op in case.progs.iter().flatten() {
                self.s.tally(&format!("ml:op:{}", &op.tok()[..1]));
            }
            for (sig, msg) in fails {
                *self.known_printed.entry(sig.clone()).or_insert(0) += 1;
                self.s.oracle_fail(&sig, &msg, &[line.to_string()]);
            }
            if out.d.timeout {
                self.note_stuck();
            }
        }
    }

    fn mrun_all(r: &mut Runner, case: &MCase, cap: usize) -> (usize, bool) {
        dfs(
            &mut |ch| {
                let out = mexecute(case, ch);
                r.memit(case, &out);
                (out.d.steps.iter().map(|s| s.tid).collect(), out.d.alive.clone(), out.d.timeout)
            },
            cap,
        )
    }

    /// Every schedule of a case with at most `bound` preemptions (a preemption = a step given
    /// to another thread although the thread that took the previous step could have gone on;
    /// between two of its operations as well as inside one), stateless depth-first search driven
    /// by the real execution like `dfs`. Past the prefix under exploration the schedule goes on
    /// without preemption: same thread while it lives, then the lowest live one.
    fn dfs_pb(run: &mut dyn FnMut(&mut dyn FnMut(usize, &[usize]) -> Choice) -> (Vec<usize>, Vec<Vec<usize>>, bool), bound: usize, cap: usize) -> (usize, bool) {
        // candidates of a step in exploration order: the previous thread first
        fn cands(prev: Option<usize>, alive: &[usize]) -> Vec<usize> {
            match prev {
                Some(p) if alive.contains(&p) => std::iter::once(p).chain(alive.iter().copied().filter(|t| *t != p)).collect(),
                _ => alive.to_vec(),
            }
        }
        let mut prefix: Vec<usize> = vec![];
        let mut count = 0;
        loop {
            let p = prefix.clone();
            let mut prev: Option<usize> = None;
            let mut ch = |i: usize, alive: &[usize]| {
                let t = if i < p.len() { p[i] } else { cands(prev, alive)[0] };
                prev = Some(t);
                Choice::Tid(t)
            };
            let (chosen, alive, timeout) = run(&mut ch);
            count += 1;
            if timeout || count >= cap {
                return (count, true);
            }
            // preemptions used before step i
            let mut used = vec![0usize; chosen.len() + 1];
            for i in 0..chosen.len() {
                let pre = i > 0 && chosen[i] != chosen[i - 1] && alive[i].contains(&chosen[i - 1]);
                used[i + 1] = used[i] + pre as usize;
            }
            let mut i = chosen.len();
            let mut found = false;
            while i > 0 && !found {
                i -= 1;
                let prev = if i > 0 { Some(chosen[i - 1]) } else { None };
                let cs = cands(prev, &alive[i]);
                let at = cs.iter().position(|t| *t == chosen[i]).unwrap_or(cs.len());
                for nx in cs.iter().skip(at + 1) {
                    let pre = prev.is_some_and(|p| *nx != p && alive[i].contains(&p));
                    if used[i] + pre as usize <= bound {
                        prefix = chosen[..i].to_vec();
                        prefix.push(*nx);
                        found = true;
                        break;
                    }
                }
            }
            if !found {
                return (count, false);
            }
        }
    }

    fn mrun_pb(r: &mut Runner, case: &MCase, bound: usize, cap: usize) -> (usize, bool) {
        dfs_pb(
            &mut |ch| {
                let out = mexecute(case, ch);
                r.memit(case, &out);
                (out.d.steps.iter().map(|s| s.tid).collect(), out.d.alive.clone(), out.d.timeout)
            },
            bound,
            cap,
        )
    }

    fn mrun_random(r: &mut Runner, rng: &mut Rng, case: &MCase) {
        let sticky = rng.chance(1, 3);
        let mut last = usize::MAX;
        let mut ch = |_i: usize, alive: &[usize]| {
            let t = if sticky && alive.contains(&last) && rng.chance(2, 3) { last } else { *rng.pick(alive) };
            last = t;
            Choice::Tid(t)
        };
        let out = mexecute(case, &mut ch);
        r.memit(case, &out);
    }

    fn malphabet() -> Vec<MOp> {
        vec![
            MOp::Get(0),
            MOp::Contains(0),
            MOp::Put(0, vec![0xa1]),
            MOp::Put(0, vec![0xb2, 0xb2]),
            MOp::Remove(0),
            MOp::Clear,
            MOp::PutTo(0, vec![0xc3, 0xc3, 0xc3], 0),
            MOp::PutTo(0, vec![0xd4, 0xd4, 0xd4, 0xd4], 1),
            MOp::Get(1),
            MOp::Put(1, vec![0xf0, 0xf0]),
        ]
    }

    /// start states: empty; key 0 in layer 0 with a tracker; in layer 1 only (no tracker); in both
    /// layers with different values; in layer 0 WITHOUT a tracker; in layer 1 with a tracker (a
    /// get served it)
    fn mpres() -> Vec<Vec<MOp>> {
        let (a, b) = (vec![0xe5; 5], vec![0x97; 2]);
        vec![
            vec![],
            vec![MOp::Put(0, a.clone())],
            vec![MOp::PutTo(0, b.clone(), 1)],
            vec![MOp::PutTo(0, b.clone(), 1), MOp::Put(0, a.clone())],
            vec![MOp::PutTo(0, a, 0)],
            vec![MOp::PutTo(0, b, 1), MOp::Get(0), MOp::Put(1, vec![0x66; 3])],
        ]
    }

    fn mrandom_op(rng: &mut Rng) -> MOp {
        let k = if rng.chance(3, 4) { 0 } else { rng.below(NKEYS as u64) as usize };
        let val = |rng: &mut Rng| {
            let n = rng.below(5) as usize;
            vec![rng.byte(); n]
        };
        match rng.below(12) {
            0..=1 => MOp::Get(k),
            2..=3 => MOp::Contains(k),
            4..=5 => MOp::Put(k, val(rng)),
            6..=8 => MOp::Remove(k),
            9 => MOp::Clear,
            10 => MOp::PutTo(k, val(rng), 0),
            _ => MOp::PutTo(k, val(rng), 1),
        }
    }

    fn mrandom_case(rng: &mut Rng, nt: usize, max_ops: usize) -> MCase {
        let mut pre = vec![];
        for _ in 0..rng.below(4) {
            let k = if rng.chance(1, 2) { 0 } else { rng.below(NKEYS as u64) as usize };
            let v = vec![rng.byte(); rng.range(1, 6) as usize];
            pre.push(match rng.below(4) {
                0 => MOp::Put(k, v),
                1 => MOp::PutTo(k, v, 0),
                2 => MOp::PutTo(k, v, 1),
                _ => MOp::Get(k),
            });
        }
        let progs = (0..nt).map(|_| (0..rng.range(1, max_ops as u64)).map(|_| mrandom_op(rng)).collect()).collect();
        MCase { disk: false, pre, progs }
    }

    fn alphabet() -> Vec<Op> {
        vec![
            Op::Get(0),
            Op::Contains(0),
            Op::Put(0, vec![0xa1], false),
            Op::Put(0, vec![0xb2, 0xb2], false),
            Op::Put(0, vec![0xc3, 0xc3, 0xc3], true),
            Op::Remove(0),
            Op::Clear,
            Op::Get(1),
            Op::Put(1, vec![0xd4, 0xd4, 0xd4, 0xd4], false),
            Op::Remove(1),
        ]
    }

    fn pres() -> Vec<Vec<Op>> {
        vec![
            vec![],
            vec![Op::Put(0, vec![0xe5; 5], false)],
            vec![Op::Put(0, vec![0xf6; 6], true)],
            vec![Op::Put(0, vec![0xe5; 5], false), Op::Put(1, vec![0x97; 7], false)],
        ]
    }

    fn random_op(rng: &mut Rng) -> Op {
        let k = if rng.chance(2, 3) { 0 } else { rng.below(NKEYS as u64) as usize };
        let val = |rng: &mut Rng| {
            let n = rng.below(5) as usize;
            vec![rng.byte(); n]
        };
        match rng.below(12) {
            0..=2 => Op::Get(k),
            3 => Op::Contains(k),
            4..=5 => Op::Put(k, val(rng), false),
            6..=7 => Op::Put(k, val(rng), true),
            8..=9 => Op::Remove(k),
            10 => Op::Clear,
            _ => Op::Contains(k),
        }
    }

    fn random_case(rng: &mut Rng, nt: usize, max_ops: usize) -> Case {
        let max = *rng.pick(&[1000usize, 1000, 1000, 2, 3, 1]);
        let npre = rng.below(4) as usize;
        let mut pre = vec![];
        for _ in 0..npre {
            let k = rng.below(NKEYS as u64) as usize;
            let n = rng.range(1, 6) as usize;
            pre.push(Op::Put(k, vec![rng.byte(); n], rng.chance(1, 2)));
        }
        let progs = (0..nt).map(|_| (0..rng.range(1, max_ops as u64)).map(|_| random_op(rng)).collect()).collect();
        Case { max, fifo: rng.chance(1, 3), pre, progs }
    }

    // ---- the background cleanup task (sweep) against the foreground operations

    /// start states for the sweep sections: one expired entry; two; an expired and a live one;
    /// a live one only (the sweep must find nothing)
    fn sweep_pres() -> Vec<Vec<Op>> {
        vec![
            vec![Op::Put(0, vec![0xf6; 6], true)],
            vec![Op::Put(0, vec![0xf6; 6], true), Op::Put(1, vec![0x97; 7], true)],
            vec![Op::Put(0, vec![0xf6; 6], true), Op::Put(1, vec![0x97; 7], false)],
            vec![Op::Put(0, vec![0xe5; 5], false)],
        ]
    }

    /// iteration orders asked of the map: a permutation of all keys (only 0 and 1 ever expire
    /// in the enumerated sections)
    fn sweep_hints(pre: &[Op]) -> Vec<Vec<usize>> {
        let two = pre.iter().filter(|op| matches!(op, Op::Put(_, _, true))).count() >= 2;
        if two { vec![vec![0, 1, 2, 3], vec![1, 0, 2, 3]] } else { vec![vec![0, 1, 2, 3]] }
    }

    fn random_sweep_case(rng: &mut Rng, nt: usize) -> Case {
        let max = *rng.pick(&[1000usize, 1000, 1000, 1000, 2, 3]);
        let mut pre = vec![];
        for _ in 0..rng.range(1, 4) {
            let k = if rng.chance(1, 2) { 0 } else { rng.below(NKEYS as u64) as usize };
            let n = rng.range(1, 6) as usize;
            pre.push(Op::Put(k, vec![rng.byte(); n], rng.chance(2, 3)));
        }
        if rng.chance(1, 8) {
            // the first tick is spent before the threads start: the scheduled one is a later tick
            pre.push(Op::Sweep(vec![]));
            let k = rng.below(2) as usize;
            pre.push(Op::Put(k, vec![rng.byte(); rng.range(1, 6) as usize], true));
        }
        let sweeper = match rng.below(20) {
            0..=11 => vec![Op::Sweep(vec![])],
            12..=16 => vec![Op::Sweep(vec![]), Op::Sweep(vec![])],
            17 => vec![Op::Sweep(vec![]), random_op(rng)],
            18 => vec![random_op(rng), Op::Sweep(vec![])],
            _ => vec![Op::Sweep(vec![]), random_op(rng), Op::Sweep(vec![])],
        };
        // the writers: mostly puts of both TTL classes on the keys that expire
        let wop = |rng: &mut Rng| {
            if rng.chance(1, 2) {
                let k = if rng.chance(3, 4) { 0 } else { rng.below(NKEYS as u64) as usize };
                Op::Put(k, vec![rng.byte(); rng.below(5) as usize], rng.chance(1, 3))
            } else {
                random_op(rng)
            }
        };
        let mut progs: Vec<Vec<Op>> = (1..nt).map(|_| (0..rng.range(1, 3)).map(|_| wop(rng)).collect()).collect();
        let at = rng.below(nt as u64) as usize;
        progs.insert(at, sweeper);
        Case { max, fifo: rng.chance(1, 3), pre, progs }
    }

    fn sweep_sections(r: &mut Runner, rng: &mut Rng, thorough: bool) {
        let t0 = Instant::now();
        let alpha = alphabet();
        let w = |hint: &[usize]| Op::Sweep(hint.to_vec());
        // G. every schedule of one tick of the cleanup task against every single operation,
        //    over every sweep start state and both iteration orders of two expired keys
        let (mut sets, mut truncated) = (0u64, 0u64);
        for pre in &sweep_pres() {
            for hint in &sweep_hints(pre) {
                for b in &alpha {
                    let case = Case { max: 1000, fifo: false, pre: pre.clone(), progs: vec![vec![w(hint)], vec![b.clone()]] };
                    let (_, tr) = run_all(r, &case, 100_000);
                    sets += 1;
                    truncated += tr as u64;
                }
            }
        }
        r.s.tally_n("G:sweep||op-all-schedules", sets);
        // H. sampled program sets, every schedule up to a cap: sweep || two operations of one
        //    thread; sweep || two threads; two ticks || one operation
        let (nh, cap) = if thorough { (100, 3_000) } else { (10, 350) };
        let pres = sweep_pres();
        for i in 0..3 * nh {
            let pre = rng.pick(&pres).clone();
            let hint = rng.pick(&sweep_hints(&pre)).clone();
            let (a, b) = (rng.pick(&alpha).clone(), rng.pick(&alpha).clone());
            let progs = match i % 3 {
                0 => vec![vec![w(&hint)], vec![a, b]],
                1 => vec![vec![a], vec![w(&hint)], vec![b]],
                _ => vec![vec![a], vec![w(&hint), w(&hint)]],
            };
            let case = Case { max: *rng.pick(&[1000usize, 1000, 1000, 2]), fifo: rng.chance(1, 4), pre, progs };
            let (_, tr) = run_all(r, &case, cap);
            truncated += tr as u64;
        }
        r.s.tally_n("H:sweep-program-sets-all-schedules", 3 * nh);
        r.s.tally_n("sweep:enumerations-cut-at-cap", truncated);
        // I. random programs with a cleanup-task thread, random schedules
        let ni = if thorough { 30_000 } else { 1_500 };
        for i in 0..ni {
            let case = random_sweep_case(rng, if i % 3 == 2 { 3 } else { 2 });
            run_random(r, rng, &case);
        }
        r.s.tally_n("I:sweep-random-cases", ni);
        r.s.extra("wall_ms_sweep", serde_json::json!(t0.elapsed().as_millis() as u64));
    }

    fn ml_sections(r: &mut Runner, rng: &mut Rng, thorough: bool) {
        let t0 = Instant::now();
        let (alpha, pres) = (malphabet(), mpres());
        // J. every schedule of every pair of single operations, over every start state
        let (mut sets, mut truncated) = (0u64, 0u64);
        for pre in &pres[..if thorough { 6 } else { 4 }] {
            for a in &alpha {
                for b in &alpha {
                    let case = MCase { disk: false, pre: pre.clone(), progs: vec![vec![a.clone()], vec![b.clone()]] };
                    let (_, tr) = mrun_all(r, &case, 100_000);
                    sets += 1;
                    truncated += tr as u64;
                }
            }
        }
        r.s.tally_n("J:ml-program-sets-1x1-all-schedules", sets);
        r.s.extra("wall_ms_ml_J", serde_json::json!(t0.elapsed().as_millis() as u64));
        // K. one operation || two operations of another thread, on one key: every schedule with
        //    at most 2 preemptions. The second thread first OBSERVES (get / contains) and then
        //    acts (remove / clear / put / look again), or acts and then observes: what an
        //    operation in flight has made visible binds what the next operation must do.
        let t1 = Instant::now();
        let (a1, b2, c3, d4) = (vec![0xa1], vec![0xb2, 0xb2], vec![0xc3; 3], vec![0xd4; 4]);
        let first = [MOp::Put(0, a1), MOp::PutTo(0, c3, 0), MOp::PutTo(0, d4, 1), MOp::Remove(0), MOp::Clear];
        let observe = [MOp::Get(0), MOp::Contains(0)];
        let act = [MOp::Remove(0), MOp::Clear, MOp::Put(0, b2.clone())];
        let mut seconds: Vec<Vec<MOp>> = vec![];
        for o in &observe {
            for x in act.iter().chain(observe.iter()) {
                seconds.push(vec![o.clone(), x.clone()]);
            }
            for x in &act {
                seconds.push(vec![x.clone(), o.clone()]);
            }
        }
        for x in &act {
            for y in &act[..2] {
                seconds.push(vec![x.clone(), y.clone()]);
            }
        }
        let (mut ksets, mut kscheds) = (0u64, 0u64);
        // quick: empty / layer 1 only / both layers / layer 0 without a tracker
        let kpres: Vec<&Vec<MOp>> = if thorough { pres.iter().collect() } else { vec![&pres[0], &pres[2], &pres[3], &pres[4]] };
        for pre in kpres {
            for a in &first {
                for b in &seconds {
                    let case = MCase { disk: false, pre: pre.clone(), progs: vec![vec![a.clone()], b.clone()] };
                    let (n, tr) = mrun_pb(r, &case, if thorough { 3 } else { 2 }, 100_000);
                    ksets += 1;
                    kscheds += n as u64;
                    truncated += tr as u64;
                }
            }
        }
        r.s.tally_n(&format!("K:ml-program-sets-1x2-schedules-with-at-most-{}-preemptions", if thorough { 3 } else { 2 }), ksets);
        r.s.tally_n("K:ml-schedules", kscheds);
        r.s.extra("wall_ms_ml_K", serde_json::json!(t1.elapsed().as_millis() as u64));
        // N. memory above disk (oracle only): the disk layer is written before the threads start
        //    (put_to_layer in `pre`), the threads get / contains / put / remove / clear; one
        //    operation || two operations, every schedule with at most 2 preemptions
        let t3 = Instant::now();
        let md_pres: Vec<Vec<MOp>> = if thorough { vec![pres[2].clone(), pres[3].clone(), vec![], pres[1].clone()] } else { vec![pres[2].clone(), pres[3].clone()] };
        let mut nsets = 0u64;
        for pre in &md_pres {
            for a in first.iter().filter(|o| !matches!(o, MOp::PutTo(..)) || thorough).filter(|o| !matches!(o, MOp::PutTo(_, _, 1))) {
                for b in seconds.iter() {
                    let case = MCase { disk: true, pre: pre.clone(), progs: vec![vec![a.clone()], b.clone()] };
                    let (_, tr) = mrun_pb(r, &case, 2, 100_000);
                    nsets += 1;
                    truncated += tr as u64;
                }
            }
        }
        r.s.tally_n("N:ml-memory+disk-program-sets-1x2-preemption-bounded", nsets);
        r.s.extra("wall_ms_ml_N", serde_json::json!(t3.elapsed().as_millis() as u64));
        // L. sampled 2 x 2 program sets: every schedule with at most 2 preemptions
        let t2 = Instant::now();
        let nl = if thorough { 300 } else { 30 };
        for _ in 0..nl {
            let pre = rng.pick(&pres).clone();
            let prog = |rng: &mut Rng| vec![rng.pick(&alpha).clone(), rng.pick(&alpha).clone()];
            let case = MCase { disk: false, pre, progs: vec![prog(rng), prog(rng)] };
            let (_, tr) = mrun_pb(r, &case, if thorough { 3 } else { 2 }, 20_000);
            truncated += tr as u64;
        }
        r.s.tally_n("L:ml-program-sets-2x2-preemption-bounded", nl);
        r.s.extra("wall_ms_ml_L", serde_json::json!(t2.elapsed().as_millis() as u64));
        // M. random programs, random schedules: 2-3 threads, 1-3 operations
        let nm = if thorough { 20_000 } else { 2_000 };
        for i in 0..nm {
            let nt = if i % 3 == 2 { 3 } else { 2 };
            let case = mrandom_case(rng, nt, 3);
            mrun_random(r, rng, &case);
        }
        r.s.tally_n("M:ml-random-cases", nm);
        r.s.tally_n("ml:enumerations-cut-at-cap", truncated);
        r.s.extra("wall_ms_multilayer", serde_json::json!(t0.elapsed().as_millis() as u64));
    }

    pub fn main() {
        let args = Args::parse();
        quiet_panics();
        install_callback();
        let mut r = Runner { s: Sess::new(&args.out), known_printed: BTreeMap::new(), stuck: 0 };
        spawn_stall_watchdog(r.s.clone());
        if let Err(e) = dyn_lin_selftest() {
            r.s.oracle_fail("harness-selftest-dyn-linearizability-search", &e, &[]);
        }
        if let Err(e) = ml_lin_selftest() {
            r.s.oracle_fail("harness-selftest-ml-linearizability-search", &e, &[]);
        }
        r.s.set_rule("one evaluation = one schedule replayed on the real MemoryCache, DiskCache or MultiLayerCacheImpl by the controller, or one free-running DynamicContainer stress round (dstress); non-trivial = the schedule switches threads at least once inside an operation (between two of its shared-state accesses), every stress round counts; distinct = canonical request line (programs + executed schedule / round number)");
        if let Some(f) = &args.replay {
            for l in read_case(f) {
                match Case::parse(&l) {
                    Some((case, sched)) => {
                        let out = run_exact(&case, &sched);
                        // keep the request line exactly as given
                        let mut out = out;
                        out.sched = sched.iter().map(|d| char::from_digit(*d as u32, 10).unwrap_or('?')).collect();
                        r.emit(&case, &out);
                    }
                    None if l.starts_with("dstress ") => {
                        // same programs (from the round's seed), thread timing is free again
                        let field = |name: &str| l.split(' ').find_map(|t| t.strip_prefix(name)).and_then(|v| v.parse::<u64>().ok()).unwrap_or(0);
                        // (so the round is repeated until a repetition fails, at most REPLAY_REPS times)
                        dyn_round(&mut r, field("seed="), field("round="), REPLAY_REPS);
                    }
                    None if l.starts_with("mlrun ") => match MCase::parse(&l) {
                        Some((case, sched)) => {
                            let mut ch = |i: usize, _alive: &[usize]| if i < sched.len() { Choice::Tid(sched[i]) } else { Choice::Drain };
                            let out = mexecute(&case, &mut ch);
                            // keep the request line exactly as given
                            let given: String = sched.iter().map(|d| char::from_digit(*d as u32, 10).unwrap_or('?')).collect();
                            r.memit_line(&case, &out, &case.line(&given));
                        }
                        None => {
                            r.s.line(&l, "bad-op");
                            r.s.case(None);
                        }
                    },
                    None => match DCase::parse(&l) {
                        Some((case, sched)) => {
                            let mut ch = |i: usize, _alive: &[usize]| if i < sched.len() { Choice::Tid(sched[i]) } else { Choice::Drain };
                            let out = dexecute(&case, &mut ch);
                            // keep the request line exactly as given
                            let given: String = sched.iter().map(|d| char::from_digit(*d as u32, 10).unwrap_or('?')).collect();
                            r.demit_line(&case, &out, &case.line(&given));
                        }
                        None => {
                            r.s.line(&l, "bad-op");
                            r.s.case(None);
                        }
                    },
                }
            }
            r.s.finish();
            return;
        }
        let mut rng = Rng::new(args.seed);
        let t0 = Instant::now();
        // malformed request
        r.s.line("run max=0 pol=lru pre=- t=g0 s=-", "bad-op");
        // A. every schedule of every pair of single operations, over every start state
        let (alpha, pres) = (alphabet(), pres());
        let mut sets = 0u64;
        let mut truncated = 0u64;
        for pre in &pres {
            for a in &alpha {
                for b in &alpha {
                    let case = Case { max: 1000, fifo: false, pre: pre.clone(), progs: vec![vec![a.clone()], vec![b.clone()]] };
                    let (_, tr) = run_all(&mut r, &case, 100_000);
                    sets += 1;
                    truncated += tr as u64;
                }
            }
        }
        r.s.tally_n("A:program-sets-1x1-all-schedules", sets);
        // B. 2 threads x 2 operations: every schedule of sampled program sets
        let nb = if args.thorough() { 400 } else { 60 };
        let cap = if args.thorough() { 13_000 } else { 1_500 };
        for _ in 0..nb {
            let pre = rng.pick(&pres).clone();
            let prog = |rng: &mut Rng| vec![rng.pick(&alpha).clone(), rng.pick(&alpha).clone()];
            let case = Case { max: *rng.pick(&[1000usize, 1000, 2]), fifo: rng.chance(1, 4), pre, progs: vec![prog(&mut rng), prog(&mut rng)] };
            let (_, tr) = run_all(&mut r, &case, cap);
            truncated += tr as u64;
        }
        r.s.tally_n("B:program-sets-2x2-all-schedules", nb);
        r.s.tally_n("enumerations-cut-at-cap", truncated);
        // C. random programs, random schedules: 2-3 threads, 1-3 operations
        let nc = if args.thorough() { 60_000 } else { 4_000 };
        for i in 0..nc {
            let nt = if i % 2 == 0 { 2 } else { 3 };
            let case = random_case(&mut rng, nt, 3);
            run_random(&mut r, &mut rng, &case);
        }
        r.s.tally_n("C:random-cases", nc);
        // G-I. the background cleanup task of new_with_cleanup as a scheduled thread
        sweep_sections(&mut r, &mut rng, args.thorough());
        // ---- DiskCache under the controller
        r.s.line("drun keys=a,b pre=- t=g5 s=-", "bad-op");
        let t1 = Instant::now();
        // D. every schedule of every pair of single operations, over every start state
        let (dalpha, dpres) = (dalphabet(), dpres());
        let (mut dsets, mut dtrunc) = (0u64, 0u64);
        for pre in &dpres {
            for a in &dalpha {
                for b in &dalpha {
                    let case = DCase { pre: pre.clone(), progs: vec![vec![a.clone()], vec![b.clone()]] };
                    let (_, tr) = drun_all(&mut r, &case, 100_000);
                    dsets += 1;
                    dtrunc += tr as u64;
                }
            }
        }
        r.s.tally_n("D:disk-program-sets-1x1-all-schedules", dsets);
        // E. 2 threads x 2 operations: every schedule (up to a cap) of sampled program sets
        let ne = if args.thorough() { 100 } else { 6 };
        let ecap = if args.thorough() { 3_000 } else { 300 };
        for _ in 0..ne {
            let pre = rng.pick(&dpres).clone();
            let prog = |rng: &mut Rng| vec![rng.pick(&dalpha).clone(), rng.pick(&dalpha).clone()];
            let case = DCase { pre, progs: vec![prog(&mut rng), prog(&mut rng)] };
            let (_, tr) = drun_all(&mut r, &case, ecap);
            dtrunc += tr as u64;
        }
        r.s.tally_n("E:disk-program-sets-2x2-all-schedules", ne);
        r.s.tally_n("disk:enumerations-cut-at-cap", dtrunc);
        // F. random programs, random schedules: 2-3 threads, 1-3 operations
        let nf = if args.thorough() { 40_000 } else { 1_500 };
        for i in 0..nf {
            let nt = if i % 2 == 0 { 2 } else { 3 };
            let case = drandom_case(&mut rng, nt, 3);
            drun_random(&mut r, &mut rng, &case);
        }
        r.s.tally_n("F:disk-random-cases", nf);
        r.s.extra("wall_ms_disk", serde_json::json!(t1.elapsed().as_millis() as u64));
        // ---- MultiLayerCacheImpl under the controller
        r.s.line("mlrun layers=mx pre=- t=g0 s=-", "bad-op");
        ml_sections(&mut r, &mut rng, args.thorough());
        // ---- DynamicContainer: concurrent write / read / remove, real threads, oracle only
        let t2 = Instant::now();
        let ng = if args.thorough() { 8_000 } else { 800 };
        for i in 0..ng {
            let rs = rng.next();
            dyn_round(&mut r, rs, i, 1);
        }
        r.s.extra("wall_ms_dyn", serde_json::json!(t2.elapsed().as_millis() as u64));
        r.s.extra("wall_ms_generate", serde_json::json!(t0.elapsed().as_millis() as u64));
        r.s.finish();
    }
}
