//! C11 — concurrent use of MemoryCache under a schedule controller: real code vs the Lean
//! interleaving model (K) and the property's own oracle (O).
//!
//! Needs the harness feature `hooks` (= `cascette-cache/verif-hooks`): `sched_point("<site>")`
//! calls sit between consecutive shared-state accesses of MemoryCache. The controller below
//! installs a callback that parks the calling worker thread until it is released, releases
//! exactly one worker per step and so replays ANY schedule (list of thread indices)
//! deterministically on the real cache.
//!
//! Protocol, one self-contained case per line (see lean/Driver/C11.lean):
//!   run max=<n> pol=lru|fifo pre=<ops> t=<ops>|<ops>[|<ops>] s=<digits>
//!   -> pre=<answers> r=<answers>|… tr=<site per step>/<drain> n=<entry_count> b=<memory_usage> m=<contents>
//! ops: g<k> c<k> r<k> z p<k>:<hex> x<k>:<hex> (x = put_with_ttl with TTL 0: MemoryCache reads
//! std::time::Instant, `Instant::now() >= created + 0` holds at every later access).
//!
//! Oracle (implementation only): books at quiescence (entry_count = entries present,
//! memory_usage = sum of their sizes), every `get` answer is a value some put wrote for that
//! key, no operation fails, and the answers + final contents are linearizable (some sequential
//! order consistent with real-time order explains them; entries may be forgotten only in runs
//! where an eviction actually removed something).
//!
//! DiskCache under the same controller (hooks `disk.*`; model = lean Model/DiskConc):
//!   drun keys=<cache key strings> pre=<ops> t=<ops>|<ops>[|<ops>] s=<digits>
//!   -> pre=.. r=.. tr=<sites>/<drain> n=<entry_count> b=<disk_usage> c=<contains per key>
//!      fs=<file name>=<hex>;.. g=<probe get per key> n2=.. b2=..
//! Oracle: no operation fails, every value served and every file left under a key's name was
//! put for that key, books at quiescence, no indexed entry without a file, linearizable; sigs
//! `disk-*` name the race the run contains (shared temporary name, put/remove, stale get).
//!
//! DynamicContainer: `dstress …` lines = free-running rounds on 2-4 real threads (no hooks, no
//! model; the driver answers the constant `oracle-only`): reads return NotFound or exactly the
//! written bytes, nothing fails, counts settle, a re-opened container agrees; sigs `dyn-conc-*`.
#[cfg(not(feature = "hooks"))]
fn main() {
    eprintln!("c11 needs --features hooks (cascette-cache/verif-hooks)");
    std::process::exit(2);
}

#[cfg(feature = "hooks")]
fn main() {
    real::main();
}

#[cfg(feature = "hooks")]
mod real {
    use bytes::Bytes;
    use cascette_cache::MemoryCache;
    use cascette_cache::config::{DiskCacheConfig, MemoryCacheConfig};
    use cascette_cache::disk_cache::DiskCache;
    use cascette_cache::key::RibbitKey;
    use cascette_cache::traits::{AsyncCache, EvictionPolicy};
    use std::cell::RefCell;
    use std::collections::BTreeMap;
    use std::panic::AssertUnwindSafe;
    use std::sync::atomic::{AtomicBool, AtomicU32, Ordering};
    use std::sync::{Arc, Mutex};
    use std::time::{Duration, Instant, SystemTime};
    use verif_harness::*;

    const LONG: Duration = Duration::from_secs(3600);
    const NKEYS: usize = 4;

    // ------------------------------------------------------------------ cases

    #[derive(Clone, Debug, PartialEq)]
    pub enum Op {
        Get(usize),
        Contains(usize),
        Put(usize, Vec<u8>, bool),
        Remove(usize),
        Clear,
    }

    impl Op {
        fn tok(&self) -> String {
            match self {
                Op::Get(k) => format!("g{k}"),
                Op::Contains(k) => format!("c{k}"),
                Op::Remove(k) => format!("r{k}"),
                Op::Clear => "z".into(),
                Op::Put(k, v, short) => format!("{}{k}:{}", if *short { 'x' } else { 'p' }, hex(v)),
            }
        }
        fn parse(t: &str) -> Option<Op> {
            let (c, r) = (t.chars().next()?, &t[1..]);
            match c {
                'g' => r.parse().ok().filter(|k| *k < NKEYS).map(Op::Get),
                'c' => r.parse().ok().filter(|k| *k < NKEYS).map(Op::Contains),
                'r' => r.parse().ok().filter(|k| *k < NKEYS).map(Op::Remove),
                'z' if r.is_empty() => Some(Op::Clear),
                'p' | 'x' => {
                    let (k, h) = r.split_once(':')?;
                    let k: usize = k.parse().ok().filter(|k| *k < NKEYS)?;
                    if h.contains(':') {
                        return None;
                    }
                    Some(Op::Put(k, unhex(h)?, c == 'x'))
                }
                _ => None,
            }
        }
        fn key(&self) -> Option<usize> {
            match self {
                Op::Get(k) | Op::Contains(k) | Op::Remove(k) | Op::Put(k, _, _) => Some(*k),
                Op::Clear => None,
            }
        }
    }

    fn ops_str(ops: &[Op]) -> String {
        if ops.is_empty() { "-".into() } else { ops.iter().map(Op::tok).collect::<Vec<_>>().join(",") }
    }

    fn parse_ops(s: &str) -> Option<Vec<Op>> {
        if s == "-" {
            return Some(vec![]);
        }
        s.split(',').map(Op::parse).collect()
    }

    #[derive(Clone, Debug)]
    pub struct Case {
        max: usize,
        fifo: bool,
        pre: Vec<Op>,
        progs: Vec<Vec<Op>>,
    }

    impl Case {
        fn line(&self, sched: &str) -> String {
            format!(
                "run max={} pol={} pre={} t={} s={}",
                self.max,
                if self.fifo { "fifo" } else { "lru" },
                ops_str(&self.pre),
                self.progs.iter().map(|p| ops_str(p)).collect::<Vec<_>>().join("|"),
                if sched.is_empty() { "-" } else { sched }
            )
        }
        fn parse(line: &str) -> Option<(Case, Vec<usize>)> {
            let t: Vec<&str> = line.split(' ').filter(|x| !x.is_empty()).collect();
            if t.len() != 6 || t[0] != "run" {
                return None;
            }
            let max: usize = t[1].strip_prefix("max=")?.parse().ok()?;
            let fifo = match t[2].strip_prefix("pol=")? {
                "lru" => false,
                "fifo" => true,
                _ => return None,
            };
            let pre = parse_ops(t[3].strip_prefix("pre=")?)?;
            let progs: Option<Vec<Vec<Op>>> = t[4].strip_prefix("t=")?.split('|').map(parse_ops).collect();
            let progs = progs?;
            let s = t[5].strip_prefix("s=")?;
            let sched: Option<Vec<usize>> =
                if s == "-" { Some(vec![]) } else { s.chars().map(|c| c.to_digit(10).map(|d| d as usize)).collect() };
            if max == 0 || progs.len() > 9 {
                return None;
            }
            Some((Case { max, fifo, pre, progs }, sched?))
        }
    }

    // ------------------------------------------------------------------ controller

    #[derive(Clone, Copy, PartialEq, Debug)]
    enum WState {
        Running,
        Parked(char),
        Done,
    }

    /// Hand-over between the controller and the workers. Exactly one side runs at a time and
    /// every hand-over is short, so both sides spin on atomics (a condvar round trip per step
    /// costs ~50 us; this costs well under 1 us) and fall back to yielding / sleeping.
    pub struct Ctl {
        /// 0 = running, 1 = done, otherwise the site letter the worker is parked at
        st: Vec<AtomicU32>,
        go: Vec<AtomicBool>,
        abandon: AtomicBool,
    }

    thread_local! {
        static WORKER: RefCell<Option<(Arc<Ctl>, usize)>> = const { RefCell::new(None) };
    }

    fn site_code(site: &str) -> char {
        match site {
            "mem.get.expired.before_remove" => 'a',
            "mem.get.expired.before_count" => 'b',
            "mem.get.expired.before_bytes" => 'c',
            "mem.contains.expired.before_remove" => 'd',
            "mem.contains.expired.before_count" => 'e',
            "mem.contains.expired.before_bytes" => 'f',
            "mem.put.before_evict" => 'g',
            "mem.put.before_insert" => 'h',
            "mem.put.replace.before_bytes" => 'i',
            "mem.put.new.before_count" => 'j',
            "mem.put.new.before_bytes" => 'k',
            "mem.remove.before_count" => 'l',
            "mem.remove.before_bytes" => 'm',
            "mem.clear.before_count" => 'n',
            "mem.clear.before_bytes" => 'o',
            "mem.evict.before_load" => 'p',
            "mem.evict.before_snapshot" => 'q',
            "mem.evict.before_remove" => 'r',
            "mem.evict.before_count" => 's',
            "mem.evict.before_bytes" => 't',
            "disk.write.before_open" => 'A',
            "disk.write.before_write" => 'B',
            "disk.write.before_rename" => 'C',
            "disk.put.before_index" => 'E',
            "disk.get.expired.before_remove" => 'F',
            "disk.get.before_read" => 'G',
            "disk.get.before_touch" => 'H',
            _ => '?',
        }
    }

    /// spin until both clocks the cache reads have moved: consecutive steps never share a time
    /// stamp, so the LRU / FIFO order is the schedule order
    fn advance_clocks() {
        let (i0, s0) = (Instant::now(), SystemTime::now());
        while Instant::now() <= i0 || SystemTime::now() <= s0 {
            std::hint::spin_loop();
        }
    }

    impl Ctl {
        fn new(nt: usize) -> Ctl {
            Ctl { st: (0..nt).map(|_| AtomicU32::new(0)).collect(), go: (0..nt).map(|_| AtomicBool::new(false)).collect(), abandon: AtomicBool::new(false) }
        }
        fn park(&self, tid: usize, code: char) {
            self.st[tid].store(code as u32, Ordering::Release);
            let mut spins = 0u32;
            while !self.go[tid].swap(false, Ordering::Acquire) {
                spins = spins.wrapping_add(1);
                if self.abandon.load(Ordering::Relaxed) {
                    std::thread::sleep(Duration::from_millis(50));
                } else if spins % 4096 == 0 {
                    std::thread::yield_now();
                } else {
                    std::hint::spin_loop();
                }
            }
            advance_clocks();
        }
        fn finish(&self, tid: usize) {
            self.st[tid].store(1, Ordering::Release);
        }
        fn state(&self, tid: usize) -> WState {
            match self.st[tid].load(Ordering::Acquire) {
                0 => WState::Running,
                1 => WState::Done,
                c => WState::Parked(char::from_u32(c).unwrap_or('?')),
            }
        }
        /// wait until no worker is running; None on watchdog expiry
        fn settle(&self) -> Option<Vec<WState>> {
            let deadline = Instant::now() + Duration::from_secs(10);
            let mut spins = 0u32;
            loop {
                let st: Vec<WState> = (0..self.st.len()).map(|i| self.state(i)).collect();
                if st.iter().all(|s| *s != WState::Running) {
                    return Some(st);
                }
                spins = spins.wrapping_add(1);
                if spins % 4096 == 0 {
                    if Instant::now() >= deadline {
                        self.abandon.store(true, Ordering::Relaxed);
                        return None;
                    }
                    std::thread::yield_now();
                } else {
                    std::hint::spin_loop();
                }
            }
        }
        fn release(&self, tid: usize) {
            self.st[tid].store(0, Ordering::Release);
            self.go[tid].store(true, Ordering::Release);
        }
    }

    fn install_callback() {
        cascette_cache::verif_hooks::install(Some(Arc::new(|site: &'static str| {
            let w = WORKER.with(|w| w.borrow().clone());
            if let Some((ctl, tid)) = w {
                ctl.park(tid, site_code(site));
            }
        })));
    }

    fn key(n: usize) -> RibbitKey {
        RibbitKey::new(format!("k{n}"), "us")
    }

    async fn exec(cache: &MemoryCache<RibbitKey>, op: &Op) -> String {
        match op {
            Op::Get(k) => match cache.get(&key(*k)).await {
                Ok(Some(b)) => format!("v{}", hex(&b)),
                Ok(None) => "none".into(),
                Err(_) => "err".into(),
            },
            Op::Contains(k) => match cache.contains(&key(*k)).await {
                Ok(true) => "t".into(),
                Ok(false) => "f".into(),
                Err(_) => "err".into(),
            },
            Op::Remove(k) => match cache.remove(&key(*k)).await {
                Ok(true) => "t".into(),
                Ok(false) => "f".into(),
                Err(_) => "err".into(),
            },
            Op::Clear => match cache.clear().await {
                Ok(()) => "ok".into(),
                Err(_) => "err".into(),
            },
            Op::Put(k, v, short) => {
                let ttl = if *short { Duration::ZERO } else { LONG };
                match cache.put_with_ttl(key(*k), Bytes::from(v.clone()), ttl).await {
                    Ok(()) => "ok".into(),
                    Err(_) => "err".into(),
                }
            }
        }
    }

    #[derive(Clone, Debug)]
    pub struct StepRec {
        tid: usize,
        op: usize,
        before: char,
        after: char,
    }

    #[derive(Clone, Debug, PartialEq)]
    pub enum Slot {
        Live(Vec<u8>),
        Expired(u64),
    }

    #[derive(Debug)]
    pub struct Outcome {
        pre: Vec<String>,
        results: Vec<Vec<String>>,
        /// schedule as executed during the explicit part (including skipped entries)
        sched: String,
        trace: String,
        drain: String,
        steps: Vec<StepRec>,
        /// alive sets (parked workers) before each executed step, for the DFS enumerator
        alive: Vec<Vec<usize>>,
        n: u64,
        b: u64,
        contents: BTreeMap<usize, Slot>,
        timeout: bool,
    }

    impl Outcome {
        fn response(&self) -> String {
            if self.timeout {
                return "timeout".into();
            }
            let j = |v: &Vec<String>| if v.is_empty() { "-".to_string() } else { v.join(",") };
            let m = if self.contents.is_empty() {
                "-".to_string()
            } else {
                self.contents
                    .iter()
                    .map(|(k, s)| match s {
                        Slot::Live(v) => format!("{k}:{}", hex(v)),
                        Slot::Expired(sz) => format!("{k}:x{sz}"),
                    })
                    .collect::<Vec<_>>()
                    .join(",")
            };
            format!(
                "pre={} r={} tr={}/{} n={} b={} m={}",
                j(&self.pre),
                self.results.iter().map(j).collect::<Vec<_>>().join("|"),
                self.trace,
                self.drain,
                self.n,
                self.b,
                m
            )
        }
    }

    pub enum Choice {
        Tid(usize),
        Drain,
    }

    /// what the controller did and saw while it stepped the workers
    #[derive(Debug)]
    pub struct Drive {
        sched: String,
        trace: String,
        drain: String,
        steps: Vec<StepRec>,
        alive: Vec<Vec<usize>>,
        timeout: bool,
    }

    /// Step `nt` parked workers until all have finished. `choose(step, alive)` names the next
    /// thread (it may name a finished one: skipped) or asks for the drain (lowest live first).
    pub fn drive(ctl: &Ctl, nt: usize, choose: &mut dyn FnMut(usize, &[usize]) -> Choice) -> Drive {
        let mut out = Drive { sched: String::new(), trace: String::new(), drain: String::new(), steps: vec![], alive: vec![], timeout: false };
        let mut opidx = vec![0usize; nt];
        let mut draining = false;
        let mut step_no = 0usize;
        loop {
            let Some(st) = ctl.settle() else {
                out.timeout = true;
                break;
            };
            let alive: Vec<usize> = (0..nt).filter(|i| matches!(st[*i], WState::Parked(_))).collect();
            if alive.is_empty() {
                break;
            }
            let tid = if draining {
                alive[0]
            } else {
                match choose(step_no, &alive) {
                    Choice::Tid(t) => t,
                    Choice::Drain => {
                        draining = true;
                        alive[0]
                    }
                }
            };
            step_no += 1;
            if !draining {
                out.sched.push(char::from_digit(tid as u32 % 10, 10).unwrap_or('?'));
            }
            if tid >= nt || !matches!(st[tid], WState::Parked(_)) {
                out.trace.push('-');
                continue;
            }
            let before = match st[tid] {
                WState::Parked(c) => c,
                _ => '?',
            };
            out.alive.push(alive.clone());
            ctl.release(tid);
            let Some(st2) = ctl.settle() else {
                out.timeout = true;
                break;
            };
            let after = match st2[tid] {
                WState::Parked(c) => c,
                WState::Done => 'D',
                WState::Running => '?',
            };
            out.steps.push(StepRec { tid, op: opidx[tid], before, after });
            if after == 'S' || after == 'D' {
                opidx[tid] += 1;
            }
            if draining {
                out.drain.push(char::from_digit(tid as u32, 10).unwrap_or('?'));
                out.drain.push(after);
            } else {
                out.trace.push(after);
            }
        }
        out
    }

    /// Run one case on the real cache. `choose(step, alive)` names the next thread (it may name
    /// a finished one: skipped) or asks for the drain (lowest live thread first).
    pub fn execute(case: &Case, choose: &mut dyn FnMut(usize, &[usize]) -> Choice) -> Outcome {
        let mut cfg = MemoryCacheConfig::new()
            .with_max_entries(case.max)
            .with_eviction_policy(if case.fifo { EvictionPolicy::Fifo } else { EvictionPolicy::Lru });
        cfg.max_memory_bytes = None;
        let cache: Arc<MemoryCache<RibbitKey>> = Arc::new(MemoryCache::new(cfg).expect("config"));
        let rt = tokio::runtime::Builder::new_current_thread().build().expect("rt");
        let mut pre = vec![];
        for op in &case.pre {
            advance_clocks();
            pre.push(rt.block_on(exec(&cache, op)));
        }
        advance_clocks();
        let nt = case.progs.len();
        let ctl = Arc::new(Ctl::new(nt));
        let results: Arc<Mutex<Vec<Vec<String>>>> = Arc::new(Mutex::new(vec![vec![]; nt]));
        let mut handles = vec![];
        for (tid, prog) in case.progs.iter().cloned().enumerate() {
            let (ctl, cache, results) = (ctl.clone(), cache.clone(), results.clone());
            handles.push(std::thread::spawn(move || {
                WORKER.with(|w| *w.borrow_mut() = Some((ctl.clone(), tid)));
                let rt = tokio::runtime::Builder::new_current_thread().build().expect("rt");
                for op in &prog {
                    ctl.park(tid, 'S');
                    let r = catch(AssertUnwindSafe(|| rt.block_on(exec(&cache, op)))).unwrap_or_else(|_| "panic".into());
                    results.lock().unwrap_or_else(|e| e.into_inner())[tid].push(r);
                }
                WORKER.with(|w| *w.borrow_mut() = None);
                ctl.finish(tid);
            }));
        }
        let d = drive(&ctl, nt, choose);
        let mut out = Outcome {
            pre,
            results: vec![],
            sched: d.sched,
            trace: d.trace,
            drain: d.drain,
            steps: d.steps,
            alive: d.alive,
            n: 0,
            b: 0,
            contents: BTreeMap::new(),
            timeout: d.timeout,
        };
        if out.timeout {
            // stuck workers cannot be joined; leave them parked
            return out;
        }
        for h in handles {
            let _ = h.join();
        }
        out.results = results.lock().unwrap_or_else(|e| e.into_inner()).clone();
        // quiescence: read the books first, then probe the contents key by key
        let size = |c: &MemoryCache<RibbitKey>| rt.block_on(c.size()).unwrap_or(usize::MAX) as u64;
        let bytes = |c: &MemoryCache<RibbitKey>| c.cache_stats().memory_usage_bytes as u64;
        out.n = size(&cache);
        out.b = bytes(&cache);
        for k in 0..NKEYS {
            let (n0, b0) = (size(&cache), bytes(&cache));
            match rt.block_on(cache.get(&key(k))) {
                Ok(Some(v)) => {
                    out.contents.insert(k, Slot::Live(v.to_vec()));
                }
                _ => {
                    let (n1, b1) = (size(&cache), bytes(&cache));
                    if n1 != n0 {
                        out.contents.insert(k, Slot::Expired(b0.wrapping_sub(b1)));
                    }
                }
            }
        }
        out
    }

    // ------------------------------------------------------------------ oracle

    #[derive(Clone, Debug, PartialEq)]
    enum RefSlot {
        Live(Vec<u8>),
        Expired(u64),
    }

    struct Lin<'a> {
        case: &'a Case,
        out: &'a Outcome,
        /// (first step, last step) of every op of every thread
        iv: Vec<Vec<(usize, usize)>>,
        drops: bool,
        /// DiskCache semantics of an entry whose TTL has ended: `contains` leaves it in place;
        /// a `get` may still serve it (the not-indexed fallback path indexes a file it finds
        /// without a TTL; the put's own index step then stores the TTL)
        disk: bool,
    }

    impl Lin<'_> {
        fn apply(&self, r: &mut BTreeMap<usize, RefSlot>, op: &Op, res: &str) -> bool {
            match op {
                Op::Get(k) => match r.get(k).cloned() {
                    Some(RefSlot::Live(v)) => {
                        if res == format!("v{}", hex(&v)) {
                            true
                        } else if res == "none" && self.drops {
                            r.remove(k);
                            true
                        } else {
                            false
                        }
                    }
                    Some(RefSlot::Expired(sz)) => {
                        if self.disk && res.strip_prefix('v').and_then(unhex).is_some_and(|v| v.len() as u64 == sz) {
                            return true;
                        }
                        r.remove(k);
                        res == "none"
                    }
                    None => res == "none",
                },
                Op::Contains(k) => match r.get(k).cloned() {
                    Some(RefSlot::Live(_)) => {
                        if res == "t" {
                            true
                        } else if res == "f" && self.drops {
                            r.remove(k);
                            true
                        } else {
                            false
                        }
                    }
                    Some(RefSlot::Expired(_)) => {
                        if !self.disk {
                            r.remove(k);
                        }
                        // disk: `t` while only the fallback path's TTL-less index entry exists
                        res == "f" || (self.disk && res == "t")
                    }
                    None => res == "f",
                },
                Op::Remove(k) => match r.remove(k) {
                    Some(_) => res == "t" || (res == "f" && self.drops),
                    None => res == "f",
                },
                Op::Clear => {
                    r.clear();
                    res == "ok"
                }
                Op::Put(k, v, short) => {
                    r.insert(*k, if *short { RefSlot::Expired(v.len() as u64) } else { RefSlot::Live(v.clone()) });
                    res == "ok"
                }
            }
        }
        fn final_ok(&self, r: &BTreeMap<usize, RefSlot>) -> bool {
            let conv = |s: &Slot| match s {
                Slot::Live(v) => RefSlot::Live(v.clone()),
                Slot::Expired(n) => RefSlot::Expired(*n),
            };
            if self.drops {
                self.out.contents.iter().all(|(k, s)| r.get(k) == Some(&conv(s)))
            } else {
                r.len() == self.out.contents.len() && self.out.contents.iter().all(|(k, s)| r.get(k) == Some(&conv(s)))
            }
        }
        fn search(&self, next: &mut Vec<usize>, r: &BTreeMap<usize, RefSlot>) -> bool {
            let nt = self.case.progs.len();
            if (0..nt).all(|t| next[t] >= self.case.progs[t].len()) {
                return self.final_ok(r);
            }
            for t in 0..nt {
                let i = next[t];
                if i >= self.case.progs[t].len() {
                    continue;
                }
                let start = self.iv[t][i].0;
                // real-time order: nothing still pending may have finished before this op began
                let blocked = (0..nt).any(|u| u != t && next[u] < self.case.progs[u].len() && self.iv[u][next[u]].1 < start);
                if blocked {
                    continue;
                }
                let mut r2 = r.clone();
                if self.apply(&mut r2, &self.case.progs[t][i], &self.out.results[t][i]) {
                    next[t] += 1;
                    let ok = self.search(next, &r2);
                    next[t] -= 1;
                    if ok {
                        return true;
                    }
                }
            }
            false
        }
    }

    fn intervals(case: &Case, out: &Outcome) -> Vec<Vec<(usize, usize)>> {
        let mut iv: Vec<Vec<(usize, usize)>> = case.progs.iter().map(|p| vec![(usize::MAX, 0); p.len()]).collect();
        for (i, s) in out.steps.iter().enumerate() {
            if s.op < iv[s.tid].len() {
                let e = &mut iv[s.tid][s.op];
                e.0 = e.0.min(i);
                e.1 = e.1.max(i);
            }
        }
        iv
    }

    /// a put inserted on the same key between an expired-path reader's look and its removal,
    /// and the removal found something to delete
    fn expired_window_hits(case: &Case, out: &Outcome) -> usize {
        let mut hits = 0;
        for (i, s) in out.steps.iter().enumerate() {
            if s.after != 'a' && s.after != 'd' {
                continue;
            }
            let Some(k) = case.progs[s.tid].get(s.op).and_then(Op::key) else { continue };
            // the reader's next step
            let Some(j) = (i + 1..out.steps.len()).find(|j| out.steps[*j].tid == s.tid) else { continue };
            if out.steps[j].after != 'b' && out.steps[j].after != 'e' {
                continue;
            }
            for m in i + 1..j {
                let w = &out.steps[m];
                if w.before == 'h' && (w.after == 'i' || w.after == 'j') && case.progs[w.tid].get(w.op).and_then(Op::key) == Some(k) {
                    hits += 1;
                }
            }
        }
        hits
    }

    /// another thread's operation overlaps a clear in real time
    fn clear_overlaps(case: &Case, iv: &[Vec<(usize, usize)>]) -> bool {
        for (t, p) in case.progs.iter().enumerate() {
            for (i, op) in p.iter().enumerate() {
                if *op != Op::Clear {
                    continue;
                }
                let (s, e) = iv[t][i];
                for (u, q) in case.progs.iter().enumerate() {
                    if u == t {
                        continue;
                    }
                    for j in 0..q.len() {
                        let (s2, e2) = iv[u][j];
                        if s2 <= e && s <= e2 {
                            return true;
                        }
                    }
                }
            }
        }
        false
    }

    struct Verdict {
        window_hits: usize,
        fails: Vec<(String, String)>,
    }

    fn oracle(case: &Case, out: &Outcome) -> Verdict {
        let mut fails = vec![];
        if out.timeout {
            return Verdict { window_hits: 0, fails: vec![("mem-schedule-stuck".into(), "a worker neither parked nor finished within the watchdog time".into())] };
        }
        let iv = intervals(case, out);
        let hits = expired_window_hits(case, out);
        let clr = clear_overlaps(case, &iv);
        // no operation fails
        for (t, rs) in out.results.iter().enumerate() {
            for (i, r) in rs.iter().enumerate() {
                if r == "err" || r == "panic" {
                    fails.push(("mem-op-failed".into(), format!("thread {t} op {i} ({}) answered {r}", case.progs[t][i].tok())));
                }
            }
        }
        // a get returns a value some put wrote for that key
        let mut written: BTreeMap<usize, Vec<Vec<u8>>> = BTreeMap::new();
        for op in case.pre.iter().chain(case.progs.iter().flatten()) {
            if let Op::Put(k, v, _) = op {
                written.entry(*k).or_default().push(v.clone());
            }
        }
        for (t, rs) in out.results.iter().enumerate() {
            for (i, r) in rs.iter().enumerate() {
                if let (Op::Get(k), Some(h)) = (&case.progs[t][i], r.strip_prefix('v')) {
                    let ok = unhex(h).is_some_and(|v| written.get(k).is_some_and(|w| w.contains(&v)));
                    if !ok {
                        fails.push(("mem-get-unwritten-value".into(), format!("thread {t} get {k} answered {r}, which no put wrote for that key")));
                    }
                }
            }
        }
        // books at quiescence
        let present = out.contents.len() as u64;
        let total: u64 = out.contents.values().map(|s| match s { Slot::Live(v) => v.len() as u64, Slot::Expired(n) => *n }).sum();
        if out.n != present || out.b != total {
            let sig = if hits > 0 {
                "mem-counter-drift-expired-race"
            } else if clr {
                "mem-clear-races-put"
            } else {
                "mem-books-quiescent"
            };
            fails.push((sig.into(), format!("at quiescence entry_count={} memory_usage={} but {} entries of {} bytes are stored", out.n, out.b, present, total)));
        }
        // linearizability of answers and final contents
        let mut r0: BTreeMap<usize, RefSlot> = BTreeMap::new();
        {
            let pre_lin = Lin { case, out, iv: vec![], drops: false, disk: false };
            for (op, res) in case.pre.iter().zip(out.pre.iter()) {
                if !pre_lin.apply(&mut r0, op, res) && case.max >= 100 {
                    fails.push(("mem-sequential-answer".into(), format!("pre op {} answered {res}", op.tok())));
                }
            }
        }
        let evicted = out.steps.iter().any(|s| s.after == 's');
        // sequential pre-phase evictions (small max) also forget entries
        let lin = Lin { case, out, iv, drops: evicted || case.max < 100, disk: false };
        if out.results.iter().zip(case.progs.iter()).all(|(r, p)| r.len() == p.len()) {
            let mut next = vec![0usize; case.progs.len()];
            if !lin.search(&mut next, &r0) {
                let sig = if hits > 0 { "mem-expired-get-deletes-fresh-put" } else { "mem-not-linearizable" };
                fails.push((sig.into(), format!("no sequential order consistent with real-time order explains answers {:?} and final contents {:?}", out.results, out.contents)));
            }
        }
        Verdict { window_hits: hits, fails }
    }

    // ------------------------------------------------------------------ running cases

    struct Runner {
        s: Session,
        known_printed: BTreeMap<String, u64>,
    }

    impl Runner {
        fn emit(&mut self, case: &Case, out: &Outcome) {
            let line = case.line(&out.sched);
            self.s.line(&line, &out.response());
            let v = oracle(case, out);
            let switched = out.steps.windows(2).any(|w| w[0].tid != w[1].tid && w[0].after != 'S' && w[0].after != 'D');
            self.s.case(if switched { Some(line.as_str()) } else { None });
            self.s.tally(&format!("threads={}", case.progs.len()));
            self.s.tally_n("steps", out.steps.len() as u64);
            if switched {
                self.s.tally("schedules-with-a-switch-inside-an-operation");
            }
            if v.window_hits > 0 {
                self.s.tally("expired-window-hit");
            }
            if out.steps.iter().any(|s| s.after == 's') {
                self.s.tally("eviction-removed-an-entry");
                if case.max >= 100 {
                    self.s.tally("eviction-after-counter-underflow");
                }
            }
            for op in case.progs.iter().flatten() {
                self.s.tally(&format!("op:{}", &op.tok()[..1]));
            }
            for (sig, msg) in v.fails {
                *self.known_printed.entry(sig.clone()).or_insert(0) += 1;
                self.s.oracle_fail(&sig, &msg, &[line.clone()]);
            }
        }
    }

    fn run_exact(case: &Case, sched: &[usize]) -> Outcome {
        let mut ch = |i: usize, _alive: &[usize]| if i < sched.len() { Choice::Tid(sched[i]) } else { Choice::Drain };
        execute(case, &mut ch)
    }

    /// every schedule of a case (stateless depth-first search driven by the real execution);
    /// `run(choose)` executes + emits one schedule and returns (threads chosen, alive sets,
    /// timeout); returns (schedules run, truncated?)
    fn dfs(run: &mut dyn FnMut(&mut dyn FnMut(usize, &[usize]) -> Choice) -> (Vec<usize>, Vec<Vec<usize>>, bool), cap: usize) -> (usize, bool) {
        let mut prefix: Vec<usize> = vec![];
        let mut count = 0;
        loop {
            let p = prefix.clone();
            let mut ch = |i: usize, alive: &[usize]| Choice::Tid(if i < p.len() { p[i] } else { alive[0] });
            let (chosen, alive, timeout) = run(&mut ch);
            count += 1;
            if timeout {
                return (count, true);
            }
            if count >= cap {
                return (count, true);
            }
            // backtrack: last step where a higher-numbered live thread was available
            let mut i = chosen.len();
            let mut found = false;
            while i > 0 {
                i -= 1;
                if let Some(nx) = alive[i].iter().find(|t| **t > chosen[i]) {
                    prefix = chosen[..i].to_vec();
                    prefix.push(*nx);
                    found = true;
                    break;
                }
            }
            if !found {
                return (count, false);
            }
        }
    }

    fn run_all(r: &mut Runner, case: &Case, cap: usize) -> (usize, bool) {
        dfs(
            &mut |ch| {
                let out = execute(case, ch);
                r.emit(case, &out);
                (out.steps.iter().map(|s| s.tid).collect(), out.alive.clone(), out.timeout)
            },
            cap,
        )
    }

    fn run_random(r: &mut Runner, rng: &mut Rng, case: &Case) {
        // a random walk, biased to stay on one thread for a while with probability 1/3 so that
        // both tight interleavings and long runs occur
        let sticky = rng.chance(1, 3);
        let mut last = usize::MAX;
        let mut ch = |_i: usize, alive: &[usize]| {
            let t = if sticky && alive.contains(&last) && rng.chance(2, 3) { last } else { *rng.pick(alive) };
            last = t;
            Choice::Tid(t)
        };
        let out = execute(case, &mut ch);
        r.emit(case, &out);
    }

    // ------------------------------------------------------------------ DiskCache under the controller

    /// endpoints of the RibbitKeys used for the disk cache: cache key string = file name =
    /// "ribbit:us:<endpoint>"; keys 2 and 3 differ only after the last '.', so
    /// `path.with_extension("tmp")` gives both the temporary name "ribbit:us:e.tmp"
    const DISK_ENDPOINTS: [&str; NKEYS] = ["k0", "k1", "e.a", "e.b"];

    fn dkey(n: usize) -> RibbitKey {
        RibbitKey::new(DISK_ENDPOINTS[n], "us")
    }

    fn dname(n: usize) -> String {
        use cascette_cache::key::CacheKey;
        CacheKey::as_cache_key(&dkey(n)).to_string()
    }

    /// temporary file name of a key, by the library function the cache itself calls
    fn dtmp(n: usize) -> String {
        std::path::Path::new(&dname(n)).with_extension("tmp").to_string_lossy().into_owned()
    }

    #[derive(Clone, Debug)]
    pub struct DCase {
        pre: Vec<Op>,
        progs: Vec<Vec<Op>>,
    }

    impl DCase {
        fn line(&self, sched: &str) -> String {
            format!(
                "drun keys={} pre={} t={} s={}",
                (0..NKEYS).map(dname).collect::<Vec<_>>().join(","),
                ops_str(&self.pre),
                self.progs.iter().map(|p| ops_str(p)).collect::<Vec<_>>().join("|"),
                if sched.is_empty() { "-" } else { sched }
            )
        }
        fn parse(line: &str) -> Option<(DCase, Vec<usize>)> {
            let t: Vec<&str> = line.split(' ').filter(|x| !x.is_empty()).collect();
            if t.len() != 5 || t[0] != "drun" {
                return None;
            }
            // the key strings are fixed by the harness: a line naming others is not replayable
            if t[1].strip_prefix("keys=")? != (0..NKEYS).map(dname).collect::<Vec<_>>().join(",") {
                return None;
            }
            let pre = parse_ops(t[2].strip_prefix("pre=")?)?;
            let progs: Option<Vec<Vec<Op>>> = t[3].strip_prefix("t=")?.split('|').map(parse_ops).collect();
            let progs = progs?;
            let s = t[4].strip_prefix("s=")?;
            let sched: Option<Vec<usize>> =
                if s == "-" { Some(vec![]) } else { s.chars().map(|c| c.to_digit(10).map(|d| d as usize)).collect() };
            if progs.len() > 9 || pre.iter().chain(progs.iter().flatten()).any(|o| *o == Op::Clear) {
                return None;
            }
            Some((DCase { pre, progs }, sched?))
        }
    }

    async fn dexec(cache: &DiskCache<RibbitKey>, op: &Op) -> String {
        match op {
            Op::Get(k) => match cache.get(&dkey(*k)).await {
                Ok(Some(b)) => format!("v{}", hex(&b)),
                Ok(None) => "none".into(),
                Err(_) => "err".into(),
            },
            Op::Contains(k) => match cache.contains(&dkey(*k)).await {
                Ok(true) => "t".into(),
                Ok(false) => "f".into(),
                Err(_) => "err".into(),
            },
            Op::Remove(k) => match cache.remove(&dkey(*k)).await {
                Ok(true) => "t".into(),
                Ok(false) => "f".into(),
                Err(_) => "err".into(),
            },
            Op::Clear => "bad".into(),
            Op::Put(k, v, short) => {
                let ttl = if *short { Duration::ZERO } else { LONG };
                match cache.put_with_ttl(dkey(*k), Bytes::from(v.clone()), ttl).await {
                    Ok(()) => "ok".into(),
                    Err(_) => "err".into(),
                }
            }
        }
    }

    /// what the probe `get` of a key found at quiescence (classified with the counters read
    /// before and after it)
    #[derive(Clone, Debug, PartialEq)]
    pub enum DSlot {
        Absent,
        Live(Vec<u8>),
        /// served from a file the index did not know (entry_count went up)
        FileOnly(Vec<u8>),
        Expired(u64),
        /// indexed, file missing: the get failed and dropped the entry
        Broken(u64),
    }

    #[derive(Debug)]
    pub struct DOutcome {
        pre: Vec<String>,
        results: Vec<Vec<String>>,
        d: Drive,
        n: u64,
        b: u64,
        c: String,
        fs: Vec<(String, Vec<u8>)>,
        g: Vec<String>,
        slots: Vec<DSlot>,
        n2: u64,
        b2: u64,
    }

    impl DOutcome {
        fn response(&self) -> String {
            if self.d.timeout {
                return "timeout".into();
            }
            let j = |v: &Vec<String>| if v.is_empty() { "-".to_string() } else { v.join(",") };
            let fs = if self.fs.is_empty() {
                "-".to_string()
            } else {
                self.fs.iter().map(|(n, v)| format!("{n}={}", hex(v))).collect::<Vec<_>>().join(";")
            };
            format!(
                "pre={} r={} tr={}/{} n={} b={} c={} fs={} g={} n2={} b2={}",
                j(&self.pre),
                self.results.iter().map(j).collect::<Vec<_>>().join("|"),
                self.d.trace,
                self.d.drain,
                self.n,
                self.b,
                self.c,
                fs,
                j(&self.g),
                self.n2,
                self.b2
            )
        }
    }

    fn scratch_dir() -> tempfile::TempDir {
        // fsync on every put: keep the scratch directory in memory when the machine has /dev/shm
        let shm = std::path::Path::new("/dev/shm");
        if shm.is_dir() { tempfile::tempdir_in(shm).or_else(|_| tempfile::tempdir()) } else { tempfile::tempdir() }.expect("scratch dir")
    }

    pub fn dexecute(case: &DCase, choose: &mut dyn FnMut(usize, &[usize]) -> Choice) -> DOutcome {
        let dir = scratch_dir();
        let cfg = DiskCacheConfig::new(dir.path()).with_max_files(1000).with_subdirectories(false, 0);
        let cache: Arc<DiskCache<RibbitKey>> = Arc::new(DiskCache::new(cfg).expect("config"));
        let rt = tokio::runtime::Builder::new_current_thread().build().expect("rt");
        let mut pre = vec![];
        for op in &case.pre {
            advance_clocks();
            pre.push(rt.block_on(dexec(&cache, op)));
        }
        advance_clocks();
        let nt = case.progs.len();
        let ctl = Arc::new(Ctl::new(nt));
        let results: Arc<Mutex<Vec<Vec<String>>>> = Arc::new(Mutex::new(vec![vec![]; nt]));
        let mut handles = vec![];
        for (tid, prog) in case.progs.iter().cloned().enumerate() {
            let (ctl, cache, results) = (ctl.clone(), cache.clone(), results.clone());
            handles.push(std::thread::spawn(move || {
                WORKER.with(|w| *w.borrow_mut() = Some((ctl.clone(), tid)));
                let rt = tokio::runtime::Builder::new_current_thread().build().expect("rt");
                for op in &prog {
                    ctl.park(tid, 'S');
                    let r = catch(AssertUnwindSafe(|| rt.block_on(dexec(&cache, op)))).unwrap_or_else(|_| "panic".into());
                    results.lock().unwrap_or_else(|e| e.into_inner())[tid].push(r);
                }
                WORKER.with(|w| *w.borrow_mut() = None);
                ctl.finish(tid);
            }));
        }
        let d = drive(&ctl, nt, choose);
        let mut out = DOutcome { pre, results: vec![], d, n: 0, b: 0, c: String::new(), fs: vec![], g: vec![], slots: vec![], n2: 0, b2: 0 };
        if out.d.timeout {
            std::mem::forget(dir);
            return out;
        }
        for h in handles {
            let _ = h.join();
        }
        out.results = results.lock().unwrap_or_else(|e| e.into_inner()).clone();
        advance_clocks();
        let books = |c: &DiskCache<RibbitKey>| {
            let st = c.cache_stats();
            (st.entry_count as u64, st.memory_usage_bytes as u64)
        };
        (out.n, out.b) = books(&cache);
        for k in 0..NKEYS {
            out.c.push(if rt.block_on(cache.contains(&dkey(k))).unwrap_or(false) { 't' } else { 'f' });
        }
        if let Ok(rd) = std::fs::read_dir(dir.path()) {
            for e in rd.flatten() {
                let name = e.file_name().to_string_lossy().into_owned();
                out.fs.push((name, std::fs::read(e.path()).unwrap_or_default()));
            }
        }
        out.fs.sort();
        for k in 0..NKEYS {
            let (n0, b0) = books(&cache);
            let r = rt.block_on(dexec(&cache, &Op::Get(k)));
            let (n1, b1) = books(&cache);
            let slot = match r.as_str() {
                "none" if n1 == n0 => DSlot::Absent,
                "none" => DSlot::Expired(b0.wrapping_sub(b1)),
                "err" => DSlot::Broken(b0.wrapping_sub(b1)),
                v => {
                    let bytes = unhex(&v[1..]).unwrap_or_default();
                    if n1 == n0 { DSlot::Live(bytes) } else { DSlot::FileOnly(bytes) }
                }
            };
            out.g.push(r);
            out.slots.push(slot);
        }
        (out.n2, out.b2) = books(&cache);
        out
    }

    fn overlap(a: (usize, usize), b: (usize, usize)) -> bool {
        a.0 <= b.1 && b.0 <= a.1
    }

    /// every (thread, op index, op, interval)
    fn all_ops<'a>(progs: &'a [Vec<Op>], iv: &[Vec<(usize, usize)>]) -> Vec<(usize, usize, &'a Op, (usize, usize))> {
        let mut v = vec![];
        for (t, p) in progs.iter().enumerate() {
            for (i, op) in p.iter().enumerate() {
                v.push((t, i, op, iv[t][i]));
            }
        }
        v
    }

    /// Oracle for a DiskCache run (implementation only): no operation fails, every value served
    /// (to a thread, to the probes, and every file left under a key's name) is a value some put
    /// wrote for that key, books at quiescence (entry_count / disk_usage = the entries the
    /// probes found), no indexed entry without a file, answers + final contents linearizable.
    /// The sig of a failure names the race the run contains (computed from the programs, the
    /// real-time intervals and the sites reached), so a failure of another shape stays new.
    fn doracle(case: &DCase, out: &DOutcome) -> Vec<(String, String)> {
        let mut fails: Vec<(String, String)> = vec![];
        if out.d.timeout {
            return vec![("disk-schedule-stuck".into(), "a worker neither parked nor finished within the watchdog time".into())];
        }
        let mut iv: Vec<Vec<(usize, usize)>> = case.progs.iter().map(|p| vec![(usize::MAX, 0); p.len()]).collect();
        for (i, s) in out.d.steps.iter().enumerate() {
            if s.op < iv[s.tid].len() {
                let e = &mut iv[s.tid][s.op];
                e.0 = e.0.min(i);
                e.1 = e.1.max(i);
            }
        }
        let ops = all_ops(&case.progs, &iv);
        // the races the run contains
        // (1) two puts of different threads overlap and use the same temporary name
        let tmp_clash = |t: usize, i: usize| {
            let Some(Op::Put(k, _, _)) = case.progs[t].get(i) else { return false };
            ops.iter().any(|(u, _, o, jv)| *u != t && matches!(o, Op::Put(k2, _, _) if dtmp(*k2) == dtmp(*k)) && overlap(iv[t][i], *jv))
        };
        let any_tmp_clash = ops.iter().any(|(t, i, _, _)| tmp_clash(*t, *i));
        // (2) a get that went down a removal path (expired entry seen: site F; or read failed)
        //     while another thread's remove / put / removal-path get of the same key overlaps it
        let took_expired = |t: usize, i: usize| out.d.steps.iter().any(|s| s.tid == t && s.op == i && s.after == 'F');
        let removers_of = |k: usize, t: usize, i: usize| {
            ops.iter().any(|(u, j, o, jv)| {
                *u != t
                    && o.key() == Some(k)
                    && overlap(iv[t][i], *jv)
                    && (matches!(o, Op::Remove(_) | Op::Put(..)) || (matches!(o, Op::Get(_)) && (took_expired(*u, *j) || out.results[*u].get(*j).is_some_and(|r| r == "err"))))
            })
        };
        let stale_get = ops.iter().any(|(t, i, o, _)| match o {
            Op::Get(k) => (took_expired(*t, *i) || out.results[*t].get(*i).is_some_and(|r| r == "err")) && removers_of(*k, *t, *i),
            _ => false,
        });
        // (3) a put overlaps a remove / an expired-path get of the same key in another thread
        let put_vs_remove = |k: usize| {
            ops.iter().any(|(t, _, o, a)| {
                matches!(o, Op::Put(k1, _, _) if *k1 == k)
                    && ops.iter().any(|(u, j, o2, b)| u != t && o2.key() == Some(k) && overlap(*a, *b) && (matches!(o2, Op::Remove(_)) || (matches!(o2, Op::Get(_)) && took_expired(*u, *j))))
            })
        };
        // no operation fails
        for (t, rs) in out.results.iter().enumerate() {
            for (i, r) in rs.iter().enumerate() {
                if r != "err" && r != "panic" {
                    continue;
                }
                let op = &case.progs[t][i];
                let sig = match op {
                    Op::Put(..) if r == "err" && tmp_clash(t, i) => "disk-shared-tmp-rename-fails",
                    Op::Get(k) if r == "err" && removers_of(*k, t, i) => "disk-get-fails-racing-remove",
                    Op::Get(k) if r == "err" && put_vs_remove(*k) => "disk-put-remove-index-without-file",
                    _ => "disk-op-failed",
                };
                fails.push((sig.into(), format!("thread {t} op {i} ({}) answered {r}", op.tok())));
            }
        }
        // provenance
        let mut written: BTreeMap<usize, Vec<Vec<u8>>> = BTreeMap::new();
        for op in case.pre.iter().chain(case.progs.iter().flatten()) {
            if let Op::Put(k, v, _) = op {
                written.entry(*k).or_default().push(v.clone());
            }
        }
        let wrote = |k: usize, v: &[u8]| written.get(&k).is_some_and(|w| w.iter().any(|x| x == v));
        let prov_sig = if any_tmp_clash { "disk-shared-tmp-foreign-bytes" } else { "disk-get-unwritten-value" };
        for (t, rs) in out.results.iter().enumerate() {
            for (i, r) in rs.iter().enumerate() {
                if let (Op::Get(k), Some(h)) = (&case.progs[t][i], r.strip_prefix('v')) {
                    if !unhex(h).is_some_and(|v| wrote(*k, &v)) {
                        fails.push((prov_sig.into(), format!("thread {t} get {k} answered {r}, which no put wrote for that key")));
                    }
                }
            }
        }
        for k in 0..NKEYS {
            if let Some((_, v)) = out.fs.iter().find(|(n, _)| *n == dname(k)) {
                if !wrote(k, v) {
                    fails.push((prov_sig.into(), format!("at quiescence the file of key {k} holds {}, which no put wrote for that key", hex(v))));
                }
            }
        }
        // books at quiescence and index / directory agreement
        let (mut present, mut total) = (0u64, 0u64);
        for (k, s) in out.slots.iter().enumerate() {
            match s {
                DSlot::Absent => {}
                DSlot::Live(v) => {
                    present += 1;
                    total += v.len() as u64;
                }
                DSlot::Expired(n) => {
                    present += 1;
                    total += *n;
                }
                DSlot::Broken(n) => {
                    present += 1;
                    total += *n;
                    let sig = if put_vs_remove(k) { "disk-put-remove-index-without-file" } else { "disk-index-without-file" };
                    fails.push((sig.into(), format!("at quiescence key {k} is indexed ({n} bytes) but its file is gone: get fails")));
                }
                DSlot::FileOnly(v) => {
                    fails.push(("disk-file-not-indexed".into(), format!("at quiescence key {k} has a file ({}) the index does not know", hex(v))));
                }
            }
        }
        if out.n != present || out.b != total {
            let sig = if stale_get {
                "disk-counter-drift-stale-get"
            } else if any_tmp_clash {
                "disk-shared-tmp-foreign-bytes"
            } else {
                "disk-books-quiescent"
            };
            fails.push((sig.into(), format!("at quiescence entry_count={} disk_usage={} but {} entries of {} bytes are stored", out.n, out.b, present, total)));
        }
        // linearizability of the threads' answers and the final contents (skipped when an
        // operation failed: reported above)
        let failed = out.results.iter().flatten().any(|r| r == "err" || r == "panic");
        let complete = out.results.iter().zip(case.progs.iter()).all(|(r, p)| r.len() == p.len());
        let odd_slot = out.slots.iter().any(|s| matches!(s, DSlot::Broken(_) | DSlot::FileOnly(_)));
        if !failed && complete && !odd_slot {
            let mcase = Case { max: 1000, fifo: false, pre: case.pre.clone(), progs: case.progs.clone() };
            let mut contents = BTreeMap::new();
            for (k, s) in out.slots.iter().enumerate() {
                match s {
                    DSlot::Live(v) => {
                        contents.insert(k, Slot::Live(v.clone()));
                    }
                    DSlot::Expired(n) => {
                        contents.insert(k, Slot::Expired(*n));
                    }
                    _ => {}
                }
            }
            let mout = Outcome { pre: out.pre.clone(), results: out.results.clone(), sched: String::new(), trace: String::new(), drain: String::new(), steps: vec![], alive: vec![], n: 0, b: 0, contents, timeout: false };
            let mut r0: BTreeMap<usize, RefSlot> = BTreeMap::new();
            let pre_lin = Lin { case: &mcase, out: &mout, iv: vec![], drops: false, disk: true };
            for (op, res) in case.pre.iter().zip(out.pre.iter()) {
                if !pre_lin.apply(&mut r0, op, res) {
                    fails.push(("disk-sequential-answer".into(), format!("pre op {} answered {res}", op.tok())));
                }
            }
            let lin = Lin { case: &mcase, out: &mout, iv, drops: false, disk: true };
            let mut next = vec![0usize; case.progs.len()];
            if !lin.search(&mut next, &r0) {
                let sig = if any_tmp_clash {
                    "disk-shared-tmp-foreign-bytes"
                } else if stale_get {
                    "disk-expired-get-deletes-fresh-put"
                } else if (0..NKEYS).any(put_vs_remove) {
                    "disk-put-remove-index-without-file"
                } else {
                    "disk-not-linearizable"
                };
                fails.push((sig.into(), format!("no sequential order consistent with real-time order explains answers {:?} and final contents {:?}", out.results, out.slots)));
            }
        }
        fails
    }

    impl Runner {
        fn demit(&mut self, case: &DCase, out: &DOutcome) {
            self.demit_line(case, out, &case.line(&out.d.sched));
        }
        fn demit_line(&mut self, case: &DCase, out: &DOutcome, line: &str) {
            self.s.line(line, &out.response());
            let fails = doracle(case, out);
            let switched = out.d.steps.windows(2).any(|w| w[0].tid != w[1].tid && w[0].after != 'S' && w[0].after != 'D');
            self.s.case(if switched { Some(line) } else { None });
            self.s.tally(&format!("disk:threads={}", case.progs.len()));
            self.s.tally_n("disk:steps", out.d.steps.len() as u64);
            if switched {
                self.s.tally("disk:schedules-with-a-switch-inside-an-operation");
            }
            for op in case.progs.iter().flatten() {
                self.s.tally(&format!("disk:op:{}", &op.tok()[..1]));
            }
            if out.results.iter().flatten().any(|r| r == "err") {
                self.s.tally("disk:an-operation-answered-err");
            }
            for (sig, msg) in fails {
                *self.known_printed.entry(sig.clone()).or_insert(0) += 1;
                self.s.oracle_fail(&sig, &msg, &[line.to_string()]);
            }
        }
    }

    fn drun_all(r: &mut Runner, case: &DCase, cap: usize) -> (usize, bool) {
        dfs(
            &mut |ch| {
                let out = dexecute(case, ch);
                r.demit(case, &out);
                (out.d.steps.iter().map(|s| s.tid).collect(), out.d.alive.clone(), out.d.timeout)
            },
            cap,
        )
    }

    fn drun_random(r: &mut Runner, rng: &mut Rng, case: &DCase) {
        let sticky = rng.chance(1, 3);
        let mut last = usize::MAX;
        let mut ch = |_i: usize, alive: &[usize]| {
            let t = if sticky && alive.contains(&last) && rng.chance(2, 3) { last } else { *rng.pick(alive) };
            last = t;
            Choice::Tid(t)
        };
        let out = dexecute(case, &mut ch);
        r.demit(case, &out);
    }

    fn dalphabet() -> Vec<Op> {
        vec![
            Op::Get(0),
            Op::Contains(0),
            Op::Put(0, vec![0xa1], false),
            Op::Put(0, vec![0xb2, 0xb2, 0xb2], false),
            Op::Put(0, vec![0xc3, 0xc3], true),
            Op::Remove(0),
            Op::Put(1, vec![0xd4, 0xd4, 0xd4, 0xd4], false),
            Op::Get(2),
            Op::Put(2, vec![0x2a, 0x2a], false),
            Op::Put(3, vec![0x3b, 0x3b, 0x3b], false),
        ]
    }

    fn dpres() -> Vec<Vec<Op>> {
        vec![vec![], vec![Op::Put(0, vec![0xe5; 5], false), Op::Put(2, vec![0x97; 4], false)], vec![Op::Put(0, vec![0xf6; 6], true)]]
    }

    fn drandom_case(rng: &mut Rng, nt: usize, max_ops: usize) -> DCase {
        let npre = rng.below(3) as usize;
        let mut pre = vec![];
        for _ in 0..npre {
            let k = rng.below(NKEYS as u64) as usize;
            let n = rng.range(1, 6) as usize;
            pre.push(Op::Put(k, vec![rng.byte(); n], rng.chance(1, 3)));
        }
        let op = |rng: &mut Rng| {
            let k = if rng.chance(1, 2) { 0 } else { rng.below(NKEYS as u64) as usize };
            let val = |rng: &mut Rng| {
                let n = rng.below(5) as usize;
                vec![rng.byte(); n]
            };
            match rng.below(10) {
                0..=2 => Op::Get(k),
                3 => Op::Contains(k),
                4..=6 => Op::Put(k, val(rng), false),
                7 => Op::Put(k, val(rng), true),
                _ => Op::Remove(k),
            }
        };
        let progs = (0..nt).map(|_| (0..rng.range(1, max_ops as u64)).map(|_| op(rng)).collect()).collect();
        DCase { pre, progs }
    }

    // ------------------------------------------------------------------ DynamicContainer: free-running stress (oracle only)

    /// One round: a fresh DynamicContainer, `nt` OS threads released together by a barrier, each
    /// running its own list of write / read / remove / query over a shared pool of payloads, no
    /// schedule control (the container has no hooks). The container is content-addressed (index
    /// key = MD5 of the BLTE image of the data), so "a value some put wrote for that key" means:
    /// a read returns NotFound or exactly the pool payload with that key. Oracle only.
    fn dyn_round(r: &mut Runner, round_seed: u64, round: u64) {
        let rng = &mut Rng::new(round_seed);
        use cascette_client_storage::StorageError;
        use cascette_client_storage::container::{AccessMode, Container, DynamicContainer};
        #[derive(Clone, Copy, Debug)]
        enum D {
            W(usize),
            R(usize),
            X(usize),
            Q(usize),
        }
        let ekey = |data: &[u8]| {
            let mut v = Vec::with_capacity(9 + data.len());
            v.extend_from_slice(b"BLTE\0\0\0\0N");
            v.extend_from_slice(data);
            md5::compute(&v).0
        };
        let np = 5usize;
        let pool: Vec<Vec<u8>> = (0..np)
            .map(|i| {
                let n = *rng.pick(&[0usize, 1, 17, 300, 2000, 9000]);
                let mut v = vec![i as u8; 1];
                v.extend((0..n).map(|_| rng.byte()));
                v
            })
            .collect();
        let keys: Vec<[u8; 16]> = pool.iter().map(|p| ekey(p)).collect();
        let nt = rng.range(2, 4) as usize;
        let progs: Vec<Vec<D>> = (0..nt)
            .map(|_| {
                (0..rng.range(4, 14))
                    .map(|_| {
                        let p = rng.below(np as u64) as usize;
                        // every 4th round: writers only (every write re-saves the index files)
                        match if round % 4 == 3 { 0 } else { rng.below(10) } {
                            0..=3 => D::W(p),
                            4..=6 => D::R(p),
                            7..=8 => D::X(p),
                            _ => D::Q(p),
                        }
                    })
                    .collect()
            })
            .collect();
        let line = format!("dstress seed={round_seed} round={round} threads={nt} ops={}", progs.iter().map(Vec::len).sum::<usize>());
        r.s.line(&line, "oracle-only");
        r.s.case(Some(line.as_str()));
        r.s.tally("dyn:stress-rounds");
        let dir = scratch_dir();
        let c = match DynamicContainer::builder(dir.path().join("data")).access_mode(AccessMode::ReadWrite).segment_limit(100).max_segment_size(1 << 30).build() {
            Ok(c) => Arc::new(c),
            Err(e) => {
                r.s.oracle_fail("dyn-conc-setup", &format!("build: {e}"), &[line.clone()]);
                return;
            }
        };
        let rt = tokio::runtime::Builder::new_current_thread().build().expect("rt");
        if let Err(e) = rt.block_on(c.open()) {
            r.s.oracle_fail("dyn-conc-setup", &format!("open: {e}"), &[line.clone()]);
            return;
        }
        let class = |e: &StorageError| match e {
            StorageError::NotFound(_) => "notfound",
            StorageError::TruncatedRead(_) => "truncated",
            StorageError::Archive(_) => "archive",
            StorageError::Io(_) => "io",
            _ => "other",
        };
        let barrier = Arc::new(std::sync::Barrier::new(nt));
        let fails: Arc<Mutex<Vec<(String, String)>>> = Arc::new(Mutex::new(vec![]));
        let mut handles = vec![];
        for (tid, prog) in progs.iter().cloned().enumerate() {
            let (c, barrier, fails, pool, keys) = (c.clone(), barrier.clone(), fails.clone(), pool.clone(), keys.clone());
            handles.push(std::thread::spawn(move || {
                let rt = tokio::runtime::Builder::new_current_thread().build().expect("rt");
                let fail = |sig: &str, msg: String| fails.lock().unwrap_or_else(|e| e.into_inner()).push((sig.to_string(), msg));
                barrier.wait();
                for (i, op) in prog.iter().enumerate() {
                    let res = catch(AssertUnwindSafe(|| match *op {
                        D::W(p) => {
                            if let Err(e) = rt.block_on(c.write(&keys[p], &pool[p])) {
                                let save = e.to_string().contains("Failed to save index");
                                fail(&if save { "dyn-conc-save-index-fails".to_string() } else { format!("dyn-conc-write-{}", class(&e)) }, format!("thread {tid} op {i}: write of payload {p} ({} bytes) failed: {e}", pool[p].len()));
                            }
                        }
                        D::R(p) => {
                            let mut buf = vec![0u8; pool[p].len() + 64];
                            match rt.block_on(c.read(&keys[p], 0, 0, &mut buf)) {
                                Ok(n) => {
                                    if buf[..n] != pool[p][..] {
                                        fail("dyn-conc-read-wrong-bytes", format!("thread {tid} op {i}: read of payload {p} returned {n} bytes that are not the {} bytes written", pool[p].len()));
                                    }
                                }
                                Err(StorageError::NotFound(_)) => {}
                                Err(e) => fail(&format!("dyn-conc-read-{}", class(&e)), format!("thread {tid} op {i}: read of payload {p} failed: {e}")),
                            }
                        }
                        D::X(p) => {
                            if let Err(e) = rt.block_on(c.remove(&keys[p])) {
                                let save = e.to_string().contains("Failed to save index");
                                fail(&if save { "dyn-conc-save-index-fails".to_string() } else { format!("dyn-conc-remove-{}", class(&e)) }, format!("thread {tid} op {i}: remove of payload {p} failed: {e}"));
                            }
                        }
                        D::Q(p) => {
                            if let Err(e) = rt.block_on(c.query(&keys[p])) {
                                fail(&format!("dyn-conc-query-{}", class(&e)), format!("thread {tid} op {i}: query failed: {e}"));
                            }
                        }
                    }));
                    if res.is_err() {
                        fail("dyn-conc-panic", format!("thread {tid} op {i} ({op:?}) panicked"));
                    }
                }
            }));
        }
        for h in handles {
            let _ = h.join();
        }
        let mut fails = fails.lock().unwrap_or_else(|e| e.into_inner()).clone();
        // quiescence: counts settle, every key is absent or reads back exactly, nothing that was
        // written and never removed by anybody is lost, nothing never written is present
        let mut present = 0usize;
        for p in 0..np {
            let q = rt.block_on(c.query(&keys[p])).unwrap_or(false);
            let mut buf = vec![0u8; pool[p].len() + 64];
            let rd = rt.block_on(c.read(&keys[p], 0, 0, &mut buf));
            let written = progs.iter().flatten().any(|o| matches!(o, D::W(x) if *x == p));
            let removed = progs.iter().flatten().any(|o| matches!(o, D::X(x) if *x == p));
            match (&rd, q) {
                (Ok(n), true) => {
                    present += 1;
                    if buf[..*n] != pool[p][..] {
                        fails.push(("dyn-conc-read-wrong-bytes".into(), format!("at quiescence payload {p} reads back {n} bytes that are not the {} bytes written", pool[p].len())));
                    }
                    if !written {
                        fails.push(("dyn-conc-unwritten-present".into(), format!("at quiescence payload {p} is present although nobody wrote it")));
                    }
                }
                (Err(StorageError::NotFound(_)), false) => {
                    if written && !removed {
                        fails.push(("dyn-conc-lost-write".into(), format!("at quiescence payload {p} is absent although it was written and never removed")));
                    }
                }
                (Ok(_), false) | (Err(StorageError::NotFound(_)), true) => {
                    fails.push(("dyn-conc-query-read-disagree".into(), format!("at quiescence payload {p}: query = {q}, read = {}", if rd.is_ok() { "ok" } else { "notfound" })));
                }
                (Err(e), _) => {
                    if q {
                        present += 1;
                    }
                    fails.push((format!("dyn-conc-read-{}", class(e)), format!("at quiescence read of payload {p} failed: {e}")));
                }
            }
        }
        if c.entry_count() != present {
            fails.push(("dyn-conc-entry-count".into(), format!("at quiescence entry_count() = {} but {present} of the pool keys are present", c.entry_count())));
        }
        // the index files were saved by several threads (save_all under the index READ lock):
        // what a new process finds on disk must be the same contents
        let was_present: Vec<bool> = (0..np).map(|p| rt.block_on(c.query(&keys[p])).unwrap_or(false)).collect();
        drop(c);
        match DynamicContainer::builder(dir.path().join("data")).access_mode(AccessMode::ReadWrite).segment_limit(100).max_segment_size(1 << 30).build() {
            Ok(c2) => {
                if let Err(e) = rt.block_on(c2.open()) {
                    fails.push(("dyn-conc-reopen-fails".into(), format!("open after the run: {e}")));
                } else {
                    for p in 0..np {
                        let q = rt.block_on(c2.query(&keys[p])).unwrap_or(false);
                        if q != was_present[p] {
                            fails.push(("dyn-conc-reopen-differs".into(), format!("payload {p}: present = {} before drop, {q} after re-opening the directory", was_present[p])));
                        } else if q {
                            let mut buf = vec![0u8; pool[p].len() + 64];
                            match rt.block_on(c2.read(&keys[p], 0, 0, &mut buf)) {
                                Ok(n) if buf[..n] == pool[p][..] => {}
                                Ok(n) => fails.push(("dyn-conc-read-wrong-bytes".into(), format!("after re-opening, payload {p} reads back {n} wrong bytes"))),
                                Err(e) => fails.push((format!("dyn-conc-reopen-read-{}", class(&e)), format!("after re-opening, read of payload {p} failed: {e}"))),
                            }
                        }
                    }
                }
            }
            Err(e) => fails.push(("dyn-conc-reopen-fails".into(), format!("build after the run: {e}"))),
        }
        for o in progs.iter().flatten() {
            r.s.tally(match o {
                D::W(_) => "dyn:op:write",
                D::R(_) => "dyn:op:read",
                D::X(_) => "dyn:op:remove",
                D::Q(_) => "dyn:op:query",
            });
        }
        // one report per sig and round
        fails.sort();
        fails.dedup_by(|a, b| a.0 == b.0);
        for (sig, msg) in fails {
            r.s.oracle_fail(&sig, &format!("{msg}; programs {progs:?}"), &[line.clone()]);
        }
    }

    fn alphabet() -> Vec<Op> {
        vec![
            Op::Get(0),
            Op::Contains(0),
            Op::Put(0, vec![0xa1], false),
            Op::Put(0, vec![0xb2, 0xb2], false),
            Op::Put(0, vec![0xc3, 0xc3, 0xc3], true),
            Op::Remove(0),
            Op::Clear,
            Op::Get(1),
            Op::Put(1, vec![0xd4, 0xd4, 0xd4, 0xd4], false),
            Op::Remove(1),
        ]
    }

    fn pres() -> Vec<Vec<Op>> {
        vec![
            vec![],
            vec![Op::Put(0, vec![0xe5; 5], false)],
            vec![Op::Put(0, vec![0xf6; 6], true)],
            vec![Op::Put(0, vec![0xe5; 5], false), Op::Put(1, vec![0x97; 7], false)],
        ]
    }

    fn random_op(rng: &mut Rng) -> Op {
        let k = if rng.chance(2, 3) { 0 } else { rng.below(NKEYS as u64) as usize };
        let val = |rng: &mut Rng| {
            let n = rng.below(5) as usize;
            vec![rng.byte(); n]
        };
        match rng.below(12) {
            0..=2 => Op::Get(k),
            3 => Op::Contains(k),
            4..=5 => Op::Put(k, val(rng), false),
            6..=7 => Op::Put(k, val(rng), true),
            8..=9 => Op::Remove(k),
            10 => Op::Clear,
            _ => Op::Contains(k),
        }
    }

    fn random_case(rng: &mut Rng, nt: usize, max_ops: usize) -> Case {
        let max = *rng.pick(&[1000usize, 1000, 1000, 2, 3, 1]);
        let npre = rng.below(4) as usize;
        let mut pre = vec![];
        for _ in 0..npre {
            let k = rng.below(NKEYS as u64) as usize;
            let n = rng.range(1, 6) as usize;
            pre.push(Op::Put(k, vec![rng.byte(); n], rng.chance(1, 2)));
        }
        let progs = (0..nt).map(|_| (0..rng.range(1, max_ops as u64)).map(|_| random_op(rng)).collect()).collect();
        Case { max, fifo: rng.chance(1, 3), pre, progs }
    }

    pub fn main() {
        let args = Args::parse();
        quiet_panics();
        install_callback();
        let mut r = Runner { s: Session::new(&args.out), known_printed: BTreeMap::new() };
        r.s.rule = "one evaluation = one schedule replayed on the real MemoryCache or DiskCache by the controller, or one free-running DynamicContainer stress round (dstress); non-trivial = the schedule switches threads at least once inside an operation (between two of its shared-state accesses), every stress round counts; distinct = canonical request line (programs + executed schedule / round number)".into();
        if let Some(f) = &args.replay {
            for l in read_case(f) {
                match Case::parse(&l) {
                    Some((case, sched)) => {
                        let out = run_exact(&case, &sched);
                        // keep the request line exactly as given
                        let mut out = out;
                        out.sched = sched.iter().map(|d| char::from_digit(*d as u32, 10).unwrap_or('?')).collect();
                        r.emit(&case, &out);
                    }
                    None if l.starts_with("dstress ") => {
                        // same programs (from the round's seed), thread timing is free again
                        let field = |name: &str| l.split(' ').find_map(|t| t.strip_prefix(name)).and_then(|v| v.parse::<u64>().ok()).unwrap_or(0);
                        dyn_round(&mut r, field("seed="), field("round="));
                    }
                    None => match DCase::parse(&l) {
                        Some((case, sched)) => {
                            let mut ch = |i: usize, _alive: &[usize]| if i < sched.len() { Choice::Tid(sched[i]) } else { Choice::Drain };
                            let out = dexecute(&case, &mut ch);
                            // keep the request line exactly as given
                            let given: String = sched.iter().map(|d| char::from_digit(*d as u32, 10).unwrap_or('?')).collect();
                            r.demit_line(&case, &out, &case.line(&given));
                        }
                        None => {
                            r.s.line(&l, "bad-op");
                            r.s.case(None);
                        }
                    },
                }
            }
            r.s.finish();
            return;
        }
        let mut rng = Rng::new(args.seed);
        let t0 = Instant::now();
        // malformed request
        r.s.line("run max=0 pol=lru pre=- t=g0 s=-", "bad-op");
        // A. every schedule of every pair of single operations, over every start state
        let (alpha, pres) = (alphabet(), pres());
        let mut sets = 0u64;
        let mut truncated = 0u64;
        for pre in &pres {
            for a in &alpha {
                for b in &alpha {
                    let case = Case { max: 1000, fifo: false, pre: pre.clone(), progs: vec![vec![a.clone()], vec![b.clone()]] };
                    let (_, tr) = run_all(&mut r, &case, 100_000);
                    sets += 1;
                    truncated += tr as u64;
                }
            }
        }
        r.s.tally_n("A:program-sets-1x1-all-schedules", sets);
        // B. 2 threads x 2 operations: every schedule of sampled program sets
        let nb = if args.thorough() { 400 } else { 60 };
        let cap = if args.thorough() { 13_000 } else { 1_500 };
        for _ in 0..nb {
            let pre = rng.pick(&pres).clone();
            let prog = |rng: &mut Rng| vec![rng.pick(&alpha).clone(), rng.pick(&alpha).clone()];
            let case = Case { max: *rng.pick(&[1000usize, 1000, 2]), fifo: rng.chance(1, 4), pre, progs: vec![prog(&mut rng), prog(&mut rng)] };
            let (_, tr) = run_all(&mut r, &case, cap);
            truncated += tr as u64;
        }
        r.s.tally_n("B:program-sets-2x2-all-schedules", nb);
        r.s.tally_n("enumerations-cut-at-cap", truncated);
        // C. random programs, random schedules: 2-3 threads, 1-3 operations
        let nc = if args.thorough() { 60_000 } else { 4_000 };
        for i in 0..nc {
            let nt = if i % 2 == 0 { 2 } else { 3 };
            let case = random_case(&mut rng, nt, 3);
            run_random(&mut r, &mut rng, &case);
        }
        r.s.tally_n("C:random-cases", nc);
        // ---- DiskCache under the controller
        r.s.line("drun keys=a,b pre=- t=g5 s=-", "bad-op");
        let t1 = Instant::now();
        // D. every schedule of every pair of single operations, over every start state
        let (dalpha, dpres) = (dalphabet(), dpres());
        let (mut dsets, mut dtrunc) = (0u64, 0u64);
        for pre in &dpres {
            for a in &dalpha {
                for b in &dalpha {
                    let case = DCase { pre: pre.clone(), progs: vec![vec![a.clone()], vec![b.clone()]] };
                    let (_, tr) = drun_all(&mut r, &case, 100_000);
                    dsets += 1;
                    dtrunc += tr as u64;
                }
            }
        }
        r.s.tally_n("D:disk-program-sets-1x1-all-schedules", dsets);
        // E. 2 threads x 2 operations: every schedule (up to a cap) of sampled program sets
        let ne = if args.thorough() { 100 } else { 6 };
        let ecap = if args.thorough() { 3_000 } else { 300 };
        for _ in 0..ne {
            let pre = rng.pick(&dpres).clone();
            let prog = |rng: &mut Rng| vec![rng.pick(&dalpha).clone(), rng.pick(&dalpha).clone()];
            let case = DCase { pre, progs: vec![prog(&mut rng), prog(&mut rng)] };
            let (_, tr) = drun_all(&mut r, &case, ecap);
            dtrunc += tr as u64;
        }
        r.s.tally_n("E:disk-program-sets-2x2-all-schedules", ne);
        r.s.tally_n("disk:enumerations-cut-at-cap", dtrunc);
        // F. random programs, random schedules: 2-3 threads, 1-3 operations
        let nf = if args.thorough() { 40_000 } else { 1_500 };
        for i in 0..nf {
            let nt = if i % 2 == 0 { 2 } else { 3 };
            let case = drandom_case(&mut rng, nt, 3);
            drun_random(&mut r, &mut rng, &case);
        }
        r.s.tally_n("F:disk-random-cases", nf);
        r.s.extra.insert("wall_ms_disk".into(), serde_json::json!(t1.elapsed().as_millis() as u64));
        // ---- DynamicContainer: concurrent write / read / remove, real threads, oracle only
        let t2 = Instant::now();
        let ng = if args.thorough() { 8_000 } else { 800 };
        for i in 0..ng {
            let rs = rng.next();
            dyn_round(&mut r, rs, i);
        }
        r.s.extra.insert("wall_ms_dyn".into(), serde_json::json!(t2.elapsed().as_millis() as u64));
        r.s.extra.insert("wall_ms_generate".into(), serde_json::json!(t0.elapsed().as_millis() as u64));
        r.s.finish();
    }
}
