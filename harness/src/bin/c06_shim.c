/* C06 write-side call recorder (LD_PRELOAD). One text record per call, appended to the file
   named by C06_TRACE_LOG with raw write system calls. Needs no privileges. */
#define _GNU_SOURCE
#include <dlfcn.h>
#include <errno.h>
#include <fcntl.h>
#include <stdarg.h>
#include <stddef.h>
#include <stdlib.h>
#include <string.h>
#include <sys/syscall.h>
#include <sys/types.h>
#include <sys/uio.h>
#include <unistd.h>

static int logfd = -1;
static int inited = 0;
static volatile int lk = 0;
static char buf[1 << 16];
static size_t bn = 0;

static void c06_init(void) {
  if (inited) return;
  inited = 1;
  const char *p = getenv("C06_TRACE_LOG");
  if (!p || !*p) return;
  long fd = syscall(SYS_openat, AT_FDCWD, p, O_WRONLY | O_APPEND | O_CREAT | O_CLOEXEC, 0644);
  if (fd < 0) return;
  long hi = syscall(SYS_fcntl, (int)fd, F_DUPFD_CLOEXEC, 700);
  if (hi >= 0) { syscall(SYS_close, (int)fd); fd = hi; }
  logfd = (int)fd;
}
__attribute__((constructor)) static void c06_ctor(void) { c06_init(); }

/* the worker may run with a small RLIMIT_FSIZE (induced write failures): the log is not part of
   the experiment, so the soft limit is lifted around the log write and put back */
struct c06_rl { unsigned long long cur, max; };
static void fl(void) {
  size_t o = 0;
  struct c06_rl old, hi; int changed = 0;
  if (syscall(SYS_prlimit64, 0, 1 /* RLIMIT_FSIZE */, (void *)0, &old) == 0 && old.cur != ~0ULL) {
    hi = old; hi.cur = old.max;
    if (syscall(SYS_prlimit64, 0, 1, &hi, (void *)0) == 0) changed = 1;
  }
  while (o < bn) {
    long r = syscall(SYS_write, logfd, buf + o, bn - o);
    if (r <= 0) { if (r < 0 && errno == EINTR) continue; break; }
    o += (size_t)r;
  }
  if (changed) syscall(SYS_prlimit64, 0, 1, &old, (void *)0);
  bn = 0;
}
static void pc(char c) { if (bn == sizeof buf) fl(); buf[bn++] = c; }
static void ps(const char *s) { if (!s) s = "?"; while (*s) { char c = *s++; if (c == '\t' || c == '\n') c = '?'; pc(c); } }
static void pn(long long v) {
  char t[24]; int i = 0; unsigned long long u;
  if (v < 0) { pc('-'); u = (unsigned long long)(-(v + 1)) + 1ULL; } else u = (unsigned long long)v;
  do { t[i++] = (char)('0' + u % 10); u /= 10; } while (u);
  while (i) pc(t[--i]);
}
static void ph(const unsigned char *p, size_t n) {
  static const char hx[] = "0123456789abcdef";
  for (size_t i = 0; i < n; i++) { pc(hx[p[i] >> 4]); pc(hx[p[i] & 15]); }
}
static int enter(void) {
  c06_init();
  if (logfd < 0) return 0;
  while (__sync_lock_test_and_set(&lk, 1)) syscall(SYS_sched_yield);
  return 1;
}
static void leave(void) { pc('\n'); fl(); __sync_lock_release(&lk); }
/* path of an *at call: absolute and AT_FDCWD paths as they are, others as @<dirfd>/<path> */
static void ppath(int dirfd, const char *p) {
  if (p && p[0] != '/' && dirfd != AT_FDCWD) { pc('@'); pn(dirfd); pc('/'); }
  ps(p);
}

#define REAL(name) static __typeof__(name) *real; if (!real) real = (__typeof__(name) *)dlsym(RTLD_NEXT, #name)

static void log_open(int dirfd, const char *path, int flags, long ret, int err) {
  if (!enter()) return;
  pc('O'); pc('\t'); pn(ret); pc('\t'); pn(ret < 0 ? err : 0); pc('\t'); pn(flags); pc('\t'); ppath(dirfd, path);
  leave();
}
static int need_mode(int flags) { return (flags & O_CREAT) || ((flags & O_TMPFILE) == O_TMPFILE); }

int open(const char *path, int flags, ...) {
  REAL(open);
  mode_t m = 0;
  if (need_mode(flags)) { va_list a; va_start(a, flags); m = (mode_t)va_arg(a, int); va_end(a); }
  int r = real(path, flags, m); int e = errno;
  log_open(AT_FDCWD, path, flags, r, e); errno = e; return r;
}
int open64(const char *path, int flags, ...) {
  REAL(open64);
  mode_t m = 0;
  if (need_mode(flags)) { va_list a; va_start(a, flags); m = (mode_t)va_arg(a, int); va_end(a); }
  int r = real(path, flags, m); int e = errno;
  log_open(AT_FDCWD, path, flags, r, e); errno = e; return r;
}
int openat(int dirfd, const char *path, int flags, ...) {
  REAL(openat);
  mode_t m = 0;
  if (need_mode(flags)) { va_list a; va_start(a, flags); m = (mode_t)va_arg(a, int); va_end(a); }
  int r = real(dirfd, path, flags, m); int e = errno;
  log_open(dirfd, path, flags, r, e); errno = e; return r;
}
int openat64(int dirfd, const char *path, int flags, ...) {
  REAL(openat64);
  mode_t m = 0;
  if (need_mode(flags)) { va_list a; va_start(a, flags); m = (mode_t)va_arg(a, int); va_end(a); }
  int r = real(dirfd, path, flags, m); int e = errno;
  log_open(dirfd, path, flags, r, e); errno = e; return r;
}
int creat(const char *path, mode_t m) {
  REAL(creat);
  int r = real(path, m); int e = errno;
  log_open(AT_FDCWD, path, O_WRONLY | O_CREAT | O_TRUNC, r, e); errno = e; return r;
}
int creat64(const char *path, mode_t m) {
  REAL(creat64);
  int r = real(path, m); int e = errno;
  log_open(AT_FDCWD, path, O_WRONLY | O_CREAT | O_TRUNC, r, e); errno = e; return r;
}
int close(int fd) {
  REAL(close);
  if (fd == logfd && logfd >= 0) { errno = EBADF; return -1; }
  int r = real(fd); int e = errno;
  if (enter()) { pc('C'); pc('\t'); pn(fd); leave(); }
  errno = e; return r;
}

ssize_t write(int fd, const void *p, size_t n) {
  REAL(write);
  ssize_t r = real(fd, p, n); int e = errno;
  if (enter()) {
    pc('W'); pc('\t'); pn(fd); pc('\t'); pn(r); pc('\t'); pn(r < 0 ? e : 0); pc('\t');
    if (r > 0) ph((const unsigned char *)p, (size_t)r);
    leave();
  }
  errno = e; return r;
}
ssize_t writev(int fd, const struct iovec *iov, int cnt) {
  REAL(writev);
  ssize_t r = real(fd, iov, cnt); int e = errno;
  if (enter()) {
    pc('W'); pc('\t'); pn(fd); pc('\t'); pn(r); pc('\t'); pn(r < 0 ? e : 0); pc('\t');
    size_t left = r > 0 ? (size_t)r : 0;
    for (int i = 0; i < cnt && left; i++) {
      size_t k = iov[i].iov_len < left ? iov[i].iov_len : left;
      ph((const unsigned char *)iov[i].iov_base, k); left -= k;
    }
    leave();
  }
  errno = e; return r;
}
static void log_x(const char *what, int fd, long long ret) {
  if (!enter()) return;
  pc('X'); pc('\t'); ps(what); pc('\t'); pn(fd); pc('\t'); pn(ret);
  leave();
}
ssize_t pwrite(int fd, const void *p, size_t n, off_t o) {
  REAL(pwrite);
  ssize_t r = real(fd, p, n, o); int e = errno; log_x("pwrite", fd, r); errno = e; return r;
}
ssize_t pwrite64(int fd, const void *p, size_t n, off64_t o) {
  REAL(pwrite64);
  ssize_t r = real(fd, p, n, o); int e = errno; log_x("pwrite", fd, r); errno = e; return r;
}
ssize_t pwritev(int fd, const struct iovec *iov, int cnt, off_t o) {
  REAL(pwritev);
  ssize_t r = real(fd, iov, cnt, o); int e = errno; log_x("pwritev", fd, r); errno = e; return r;
}
ssize_t pwritev64(int fd, const struct iovec *iov, int cnt, off64_t o) {
  REAL(pwritev64);
  ssize_t r = real(fd, iov, cnt, o); int e = errno; log_x("pwritev", fd, r); errno = e; return r;
}
int ftruncate(int fd, off_t len) {
  REAL(ftruncate);
  int r = real(fd, len); int e = errno; log_x("ftruncate", fd, r); errno = e; return r;
}
int ftruncate64(int fd, off64_t len) {
  REAL(ftruncate64);
  int r = real(fd, len); int e = errno; log_x("ftruncate", fd, r); errno = e; return r;
}
ssize_t copy_file_range(int fi, off64_t *oi, int fo, off64_t *oo, size_t n, unsigned fl_) {
  REAL(copy_file_range);
  ssize_t r = real(fi, oi, fo, oo, n, fl_); int e = errno; log_x("copy_file_range", fo, r); errno = e; return r;
}
ssize_t sendfile(int fo, int fi, off_t *o, size_t n) {
  static ssize_t (*real)(int, int, off_t *, size_t);
  if (!real) real = (ssize_t(*)(int, int, off_t *, size_t))dlsym(RTLD_NEXT, "sendfile");
  ssize_t r = real(fo, fi, o, n); int e = errno; log_x("sendfile", fo, r); errno = e; return r;
}
ssize_t sendfile64(int fo, int fi, off64_t *o, size_t n) {
  static ssize_t (*real)(int, int, off64_t *, size_t);
  if (!real) real = (ssize_t(*)(int, int, off64_t *, size_t))dlsym(RTLD_NEXT, "sendfile64");
  ssize_t r = real(fo, fi, o, n); int e = errno; log_x("sendfile", fo, r); errno = e; return r;
}
static void log_sync(int fd, int r) {
  if (!enter()) return;
  pc('S'); pc('\t'); pn(fd); pc('\t'); pn(r);
  leave();
}
int fsync(int fd) { REAL(fsync); int r = real(fd); int e = errno; log_sync(fd, r); errno = e; return r; }
int fdatasync(int fd) { REAL(fdatasync); int r = real(fd); int e = errno; log_sync(fd, r); errno = e; return r; }

static void log_ren(int d1, const char *a, int d2, const char *b, int r) {
  if (!enter()) return;
  pc('R'); pc('\t'); pn(r); pc('\t'); ppath(d1, a); pc('\t'); ppath(d2, b);
  leave();
}
int rename(const char *a, const char *b) {
  REAL(rename);
  int r = real(a, b); int e = errno; log_ren(AT_FDCWD, a, AT_FDCWD, b, r); errno = e; return r;
}
int renameat(int d1, const char *a, int d2, const char *b) {
  REAL(renameat);
  int r = real(d1, a, d2, b); int e = errno; log_ren(d1, a, d2, b, r); errno = e; return r;
}
int renameat2(int d1, const char *a, int d2, const char *b, unsigned f) {
  static int (*real)(int, const char *, int, const char *, unsigned);
  if (!real) real = (int (*)(int, const char *, int, const char *, unsigned))dlsym(RTLD_NEXT, "renameat2");
  int r = real(d1, a, d2, b, f); int e = errno; log_ren(d1, a, d2, b, r); errno = e; return r;
}
static void log_unl(int d, const char *p, int r) {
  if (!enter()) return;
  pc('U'); pc('\t'); pn(r); pc('\t'); ppath(d, p);
  leave();
}
int unlink(const char *p) { REAL(unlink); int r = real(p); int e = errno; log_unl(AT_FDCWD, p, r); errno = e; return r; }
int unlinkat(int d, const char *p, int f) {
  REAL(unlinkat);
  int r = real(d, p, f); int e = errno; log_unl(d, p, r); errno = e; return r;
}
static void log_path_x(const char *what, const char *p, int r) {
  if (!enter()) return;
  pc('Y'); pc('\t'); ps(what); pc('\t'); pn(r); pc('\t'); ps(p);
  leave();
}
int truncate(const char *p, off_t len) {
  REAL(truncate);
  int r = real(p, len); int e = errno; log_path_x("truncate", p, r); errno = e; return r;
}
int truncate64(const char *p, off64_t len) {
  REAL(truncate64);
  int r = real(p, len); int e = errno; log_path_x("truncate", p, r); errno = e; return r;
}
int link(const char *a, const char *b) {
  REAL(link);
  int r = real(a, b); int e = errno; log_path_x("link", b, r); errno = e; return r;
}
int linkat(int d1, const char *a, int d2, const char *b, int f) {
  REAL(linkat);
  int r = real(d1, a, d2, b, f); int e = errno; log_path_x("link", b, r); errno = e; return r;
}
int symlink(const char *a, const char *b) {
  REAL(symlink);
  int r = real(a, b); int e = errno; log_path_x("symlink", b, r); errno = e; return r;
}
