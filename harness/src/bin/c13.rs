//! C13 — version-service queries: fallback order, error classification, caching of good answers
//! only, TCP read-loop independence of the packet split.
//!
//! Real code driven: `RibbitTactClient::{new, query, cache}`, `RibbitClient::{query_raw, query}`,
//! `ProtocolError::should_retry`, `mime_parser::is_v1_mime_response`, `ProtocolCache::get`
//! against loopback mock servers (two HTTP/1.1, one Ribbit TCP) whose behaviour per query comes
//! from the request line. Every group of request lines (`begin` … ) runs on its own OS thread
//! with its own current-thread tokio runtime, its own servers and its own cache directory.
//!
//! Request lines (one canonical response line each; the Lean driver `drv_c13` answers the same):
//!   begin mode=disk|mem https=0|1 http=0|1 down=<0..7> ttl=<ribbit>,<cdn>,<config>   -> ok
//!   q <client> <t_ms> <endpoint> <b_https> <b_http> <b_tcp>
//!        -> trace=<-|https,http,tcp…> res=<ok:id:rows|err:class> cache=<hit:id:rows|junk|miss|err>
//!   new                       (another client on the same cache dir / a fresh memory cache) -> ok:<n>
//!   corrupt <endpoint>        (disk mode: overwrite the cache file with junk)              -> ok|nofile
//!   retry <class> [code]      ProtocolError::should_retry                                 -> true|false
//!   ismime <hex>              is_v1_mime_response                                         -> true|false
//!   tcp <seg-hex>…            RibbitClient::query_raw with the response sent in these segments
//!        -> ok:<hex>|err:<class>
//!   dl <client> <t_ms> <path> <config|data|patch> <keyhex> <script>   CdnClient::download on the
//!        client's own ProtocolCache against a fourth (CDN) mock server; script = steps for the
//!        successive requests, comma separated: s<code>:<bodyhex> close mid:<bodyhex> stall refuse
//!        -> reqs=<n> url=<requested path|-> res=<ok:hex|err:class> cache=<hit:hex|miss|err|->
//!   corruptdl <path> <type> <keyhex>   (disk mode: overwrite the object's cache file)   -> ok|nofile
//!   httperr <peer behaviour>  one request of the real TactClient; the reqwest::Error predicates
//!        -> http t= c= r= b= d= class=<..> retry=<bool> | err:<class> retry=<bool> | ok:<seqn>:<rows>
//! Behaviours b: doc:<id> mime:<id> bad s<code> s<code>ra close mid trunc stall refuse
//!   r<status>:<bodyhex>:<g<seqn>.<rows>|m>   these very bytes (tag = the generator's label, oracle only)
//! (`refuse` is fixed per group by the `down` mask: bit0 https, bit1 http, bit2 tcp).
use cascette_protocol::mime_parser::is_v1_mime_response;
use cascette_protocol::{CacheConfig, CdnClient, CdnConfig, CdnEndpoint, ClientConfig, ContentType, ProtocolError, RibbitClient, RibbitTactClient, TactClient};
use std::collections::{BTreeMap, BTreeSet};
use std::path::PathBuf;
use std::sync::{Arc, Mutex};
use std::time::{Duration, Instant};
use tokio::io::{AsyncReadExt, AsyncWriteExt};
use tokio::net::{TcpListener, TcpSocket, TcpStream};
use verif_harness::*;

// ---------------------------------------------------------------------------------------------
// small SHA-256 (for the V1 MIME checksum epilogue; keeps the harness free of extra crates)
// ---------------------------------------------------------------------------------------------
fn sha256(data: &[u8]) -> [u8; 32] {
    const K: [u32; 64] = [
        0x428a2f98, 0x71374491, 0xb5c0fbcf, 0xe9b5dba5, 0x3956c25b, 0x59f111f1, 0x923f82a4, 0xab1c5ed5, 0xd807aa98,
        0x12835b01, 0x243185be, 0x550c7dc3, 0x72be5d74, 0x80deb1fe, 0x9bdc06a7, 0xc19bf174, 0xe49b69c1, 0xefbe4786,
        0x0fc19dc6, 0x240ca1cc, 0x2de92c6f, 0x4a7484aa, 0x5cb0a9dc, 0x76f988da, 0x983e5152, 0xa831c66d, 0xb00327c8,
        0xbf597fc7, 0xc6e00bf3, 0xd5a79147, 0x06ca6351, 0x14292967, 0x27b70a85, 0x2e1b2138, 0x4d2c6dfc, 0x53380d13,
        0x650a7354, 0x766a0abb, 0x81c2c92e, 0x92722c85, 0xa2bfe8a1, 0xa81a664b, 0xc24b8b70, 0xc76c51a3, 0xd192e819,
        0xd6990624, 0xf40e3585, 0x106aa070, 0x19a4c116, 0x1e376c08, 0x2748774c, 0x34b0bcb5, 0x391c0cb3, 0x4ed8aa4a,
        0x5b9cca4f, 0x682e6ff3, 0x748f82ee, 0x78a5636f, 0x84c87814, 0x8cc70208, 0x90befffa, 0xa4506ceb, 0xbef9a3f7,
        0xc67178f2,
    ];
    let mut h: [u32; 8] =
        [0x6a09e667, 0xbb67ae85, 0x3c6ef372, 0xa54ff53a, 0x510e527f, 0x9b05688c, 0x1f83d9ab, 0x5be0cd19];
    let mut m = data.to_vec();
    let bitlen = (data.len() as u64) * 8;
    m.push(0x80);
    while m.len() % 64 != 56 {
        m.push(0);
    }
    m.extend_from_slice(&bitlen.to_be_bytes());
    for chunk in m.chunks(64) {
        let mut w = [0u32; 64];
        for i in 0..16 {
            w[i] = u32::from_be_bytes([chunk[4 * i], chunk[4 * i + 1], chunk[4 * i + 2], chunk[4 * i + 3]]);
        }
        for i in 16..64 {
            let s0 = w[i - 15].rotate_right(7) ^ w[i - 15].rotate_right(18) ^ (w[i - 15] >> 3);
            let s1 = w[i - 2].rotate_right(17) ^ w[i - 2].rotate_right(19) ^ (w[i - 2] >> 10);
            w[i] = w[i - 16].wrapping_add(s0).wrapping_add(w[i - 7]).wrapping_add(s1);
        }
        let mut v = h;
        for i in 0..64 {
            let s1 = v[4].rotate_right(6) ^ v[4].rotate_right(11) ^ v[4].rotate_right(25);
            let ch = (v[4] & v[5]) ^ (!v[4] & v[6]);
            let t1 = v[7].wrapping_add(s1).wrapping_add(ch).wrapping_add(K[i]).wrapping_add(w[i]);
            let s0 = v[0].rotate_right(2) ^ v[0].rotate_right(13) ^ v[0].rotate_right(22);
            let maj = (v[0] & v[1]) ^ (v[0] & v[2]) ^ (v[1] & v[2]);
            let t2 = s0.wrapping_add(maj);
            v = [t1.wrapping_add(t2), v[0], v[1], v[2], v[3].wrapping_add(t1), v[4], v[5], v[6]];
        }
        for i in 0..8 {
            h[i] = h[i].wrapping_add(v[i]);
        }
    }
    let mut out = [0u8; 32];
    for i in 0..8 {
        out[4 * i..4 * i + 4].copy_from_slice(&h[i].to_be_bytes());
    }
    out
}

// ---------------------------------------------------------------------------------------------
// documents served by the mock servers
// ---------------------------------------------------------------------------------------------
/// a valid BPSV document carrying `id` as its sequence number, two rows
fn bpsv_doc(id: u32) -> String {
    format!("Region!STRING:0|BuildId!DEC:4|Tag!STRING:0\n## seqn = {id}\nus|{id}|a\neu|{id}|b\n")
}
/// the same document cut after its first row (what a connection closed at a row boundary leaves)
fn bpsv_doc_trunc(id: u32) -> String {
    format!("Region!STRING:0|BuildId!DEC:4|Tag!STRING:0\n## seqn = {id}\nus|{id}|a\n")
}
/// cut in the middle of the first row: not a valid document
fn bpsv_doc_midrow(id: u32) -> String {
    format!("Region!STRING:0|BuildId!DEC:4|Tag!STRING:0\n## seqn = {id}\nus|{id}")
}
/// V1 MIME wrapping as the Ribbit server crate emits it (multipart/alternative + checksum epilogue)
fn mime_doc(id: u32) -> Vec<u8> {
    let body = [
        "MIME-Version: 1.0\r\n",
        "Content-Type: multipart/alternative; boundary=\"RibbitBoundary\"\r\n",
        "\r\n",
        "--RibbitBoundary\r\n",
        "Content-Type: text/plain\r\n",
        "Content-Disposition: data\r\n",
        "\r\n",
        &bpsv_doc(id),
        "\r\n",
        "--RibbitBoundary--\r\n",
    ]
    .join("");
    let mut out = body.clone().into_bytes();
    out.extend_from_slice(format!("Checksum: {}\r\n", hex::encode(sha256(body.as_bytes()))).as_bytes());
    out
}

#[derive(Clone, Debug, PartialEq)]
enum Beh {
    Doc(u32),
    Mime(u32),
    Bad,
    Status(u16, bool),
    Close,
    Mid,
    Trunc,
    Stall,
    Refuse,
    Segs(Vec<Vec<u8>>),
    /// serve exactly these bytes (HTTP: with this status; TCP: the bytes, then close); the tag is
    /// the generator's own label of the body: Some((seqn, rows)) = well-formed by construction,
    /// None = malformed by construction (read by the oracle only, never by the model)
    Raw(u16, Vec<u8>, Option<(u32, u32)>),
}

fn parse_beh(s: &str) -> Option<Beh> {
    Some(match s {
        "bad" => Beh::Bad,
        "close" => Beh::Close,
        "mid" => Beh::Mid,
        "trunc" => Beh::Trunc,
        "stall" => Beh::Stall,
        "refuse" => Beh::Refuse,
        _ => {
            if let Some(r) = s.strip_prefix("doc:") {
                Beh::Doc(r.parse().ok()?)
            } else if let Some(r) = s.strip_prefix("mime:") {
                Beh::Mime(r.parse().ok()?)
            } else if let Some(r) = s.strip_prefix('r') {
                let p: Vec<&str> = r.split(':').collect();
                if p.len() != 3 { return None; }
                let code: u16 = p[0].parse().ok()?;
                if !(200..=599).contains(&code) { return None; }
                let tag = if p[2] == "m" {
                    None
                } else {
                    let (a, b) = p[2].strip_prefix('g')?.split_once('.')?;
                    Some((a.parse().ok()?, b.parse().ok()?))
                };
                Beh::Raw(code, unhex(p[1])?, tag)
            } else if let Some(r) = s.strip_prefix('s') {
                let (num, ra) = match r.strip_suffix("ra") {
                    Some(n) => (n, true),
                    None => (r, false),
                };
                let code: u16 = num.parse().ok()?;
                if !(200..=599).contains(&code) {
                    return None;
                }
                Beh::Status(code, ra)
            } else {
                return None;
            }
        }
    })
}

fn err_class(e: &ProtocolError) -> String {
    match e {
        ProtocolError::Network(_) => "network".into(),
        ProtocolError::Http(e) => {
            if std::env::var_os("C13_DEBUG").is_some() {
                eprintln!("http error: request={} body={} decode={} connect={} timeout={} :: {e:?}", e.is_request(), e.is_body(), e.is_decode(), e.is_connect(), e.is_timeout());
            }
            if e.is_timeout() {
                "http-timeout".into()
            } else if e.is_connect() {
                "http-connect".into()
            } else if e.is_request() || e.is_body() || e.is_decode() {
                "http-dropped".into()
            } else {
                "http-other".into()
            }
        }
        ProtocolError::Parse(_) => "parse".into(),
        ProtocolError::Cache(_) => "cache".into(),
        ProtocolError::AllHostsFailed => "all-hosts-failed".into(),
        ProtocolError::RateLimited { retry_after } => {
            if retry_after.is_some() { "ratelimited:hint".into() } else { "ratelimited".into() }
        }
        ProtocolError::ServiceUnavailable => "unavailable".into(),
        ProtocolError::HttpStatus(s) => format!("status:{}", s.as_u16()),
        ProtocolError::ServerError(s) => format!("server:{}", s.as_u16()),
        ProtocolError::InvalidKey => "invalid-key".into(),
        ProtocolError::InvalidEndpoint(_) => "invalid-endpoint".into(),
        ProtocolError::RangeNotSupported => "range".into(),
        ProtocolError::Timeout => "timeout".into(),
        ProtocolError::Other(_) => "other".into(),
        ProtocolError::Utf8(_) => "utf8".into(),
        ProtocolError::UnsupportedOnWasm(_) => "wasm".into(),
    }
}

fn doc_class(d: &cascette_formats::bpsv::BpsvDocument) -> String {
    format!("ok:{}:{}", d.sequence_number().map_or("none".to_string(), |n| n.to_string()), d.row_count())
}

// ---------------------------------------------------------------------------------------------
// mock servers
// ---------------------------------------------------------------------------------------------
struct Shared {
    beh: [Beh; 3],
    log: Vec<usize>,
}
type Sh = Arc<Mutex<Shared>>;
const NAMES: [&str; 3] = ["https", "http", "tcp"];

/// make the client's pending timeout (30 s in TactClient / RibbitClient) elapse without waiting:
/// the runtime is current-thread, so its clock can be paused, advanced and resumed.
async fn jump_clock() {
    jump_clock_by(31).await;
}
async fn jump_clock_by(secs: u64) {
    tokio::time::sleep(Duration::from_millis(5)).await;
    tokio::time::pause();
    tokio::time::advance(Duration::from_secs(secs)).await;
    tokio::time::resume();
}

async fn hold_until_peer_closes(s: &mut TcpStream) {
    let mut tmp = [0u8; 256];
    let _ = tokio::time::timeout(Duration::from_secs(3), async {
        loop {
            match s.read(&mut tmp).await {
                Ok(0) | Err(_) => break,
                Ok(_) => {}
            }
        }
    })
    .await;
}

async fn handle_http(mut s: TcpStream, which: usize, sh: Sh) {
    let _ = s.set_nodelay(true);
    let mut buf = Vec::new();
    let mut tmp = [0u8; 2048];
    loop {
        match s.read(&mut tmp).await {
            Ok(0) | Err(_) => return,
            Ok(n) => {
                buf.extend_from_slice(&tmp[..n]);
                if buf.windows(4).any(|w| w == b"\r\n\r\n") {
                    break;
                }
            }
        }
    }
    let beh = {
        let mut g = sh.lock().unwrap();
        g.log.push(which);
        g.beh[which].clone()
    };
    let resp = |code: u16, extra: &str, body: &[u8]| -> Vec<u8> {
        let mut v = format!(
            "HTTP/1.1 {code} X\r\nContent-Type: text/plain\r\nContent-Length: {}\r\nConnection: close\r\n{extra}\r\n",
            body.len()
        )
        .into_bytes();
        v.extend_from_slice(body);
        v
    };
    match beh {
        Beh::Doc(id) => {
            let _ = s.write_all(&resp(200, "", bpsv_doc(id).as_bytes())).await;
        }
        Beh::Mime(id) => {
            let _ = s.write_all(&resp(200, "", &mime_doc(id))).await;
        }
        Beh::Bad => {
            let _ = s.write_all(&resp(200, "", b"<html>this is not a BPSV table</html>\n")).await;
        }
        Beh::Status(code, ra) => {
            let body: &[u8] = if code == 204 || code == 304 { b"" } else { b"status\n" };
            let _ = s.write_all(&resp(code, if ra { "Retry-After: 1\r\n" } else { "" }, body)).await;
        }
        Beh::Raw(code, body, _) => {
            let _ = s.write_all(&resp(code, "", &body)).await;
        }
        Beh::Close => {}
        Beh::Mid | Beh::Trunc => {
            let full = bpsv_doc(7);
            let head = format!(
                "HTTP/1.1 200 X\r\nContent-Type: text/plain\r\nContent-Length: {}\r\nConnection: close\r\n\r\n",
                full.len()
            );
            let _ = s.write_all(head.as_bytes()).await;
            let _ = s.write_all(&full.as_bytes()[..full.len() / 2]).await;
            let _ = s.flush().await;
            tokio::time::sleep(Duration::from_millis(3)).await;
        }
        Beh::Stall => {
            jump_clock().await;
            hold_until_peer_closes(&mut s).await;
        }
        Beh::Refuse | Beh::Segs(_) => {}
    }
    let _ = s.shutdown().await;
}

async fn handle_tcp(mut s: TcpStream, sh: Sh) {
    let _ = s.set_nodelay(true);
    let mut buf = Vec::new();
    let mut tmp = [0u8; 2048];
    loop {
        match s.read(&mut tmp).await {
            Ok(0) | Err(_) => break,
            Ok(n) => {
                buf.extend_from_slice(&tmp[..n]);
                if buf.contains(&b'\n') {
                    break;
                }
            }
        }
    }
    let beh = {
        let mut g = sh.lock().unwrap();
        g.log.push(2);
        g.beh[2].clone()
    };
    match beh {
        Beh::Doc(id) => {
            let _ = s.write_all(bpsv_doc(id).as_bytes()).await;
        }
        Beh::Mime(id) => {
            let _ = s.write_all(&mime_doc(id)).await;
        }
        Beh::Bad | Beh::Status(..) => {
            let _ = s.write_all(b"<html>this is not a BPSV table</html>\n").await;
        }
        Beh::Raw(_, body, _) => {
            let _ = s.write_all(&body).await;
        }
        Beh::Close => {}
        Beh::Mid => {
            let _ = s.write_all(bpsv_doc_midrow(7).as_bytes()).await;
        }
        Beh::Trunc => {
            let _ = s.write_all(bpsv_doc_trunc(7).as_bytes()).await;
        }
        Beh::Stall => {
            jump_clock().await;
            hold_until_peer_closes(&mut s).await;
        }
        Beh::Segs(segs) => {
            for (i, seg) in segs.iter().enumerate() {
                if i > 0 {
                    // the client task runs (and drains the socket) before this timer fires:
                    // single-threaded runtime, I/O events are dispatched before timers
                    tokio::time::sleep(Duration::from_millis(2)).await;
                }
                if s.write_all(seg).await.is_err() {
                    break;
                }
                let _ = s.flush().await;
            }
        }
        Beh::Refuse => {}
    }
    let _ = s.shutdown().await;
}

/// a port that refuses connections for as long as the returned socket lives (bound, not listening)
fn reserved_port() -> (TcpSocket, u16) {
    let s = TcpSocket::new_v4().expect("socket");
    s.bind("127.0.0.1:0".parse().unwrap()).expect("bind");
    let p = s.local_addr().unwrap().port();
    (s, p)
}

struct Net {
    sh: Sh,
    ports: [u16; 3],
    _reserved: Vec<TcpSocket>,
}

async fn start_net(down: u8) -> Net {
    let sh: Sh = Arc::new(Mutex::new(Shared { beh: [Beh::Close, Beh::Close, Beh::Close], log: vec![] }));
    let mut ports = [0u16; 3];
    let mut reserved = vec![];
    for which in 0..3 {
        if down & (1 << which) != 0 {
            let (s, p) = reserved_port();
            ports[which] = p;
            reserved.push(s);
            continue;
        }
        let l = TcpListener::bind("127.0.0.1:0").await.expect("bind");
        ports[which] = l.local_addr().unwrap().port();
        let sh2 = sh.clone();
        tokio::spawn(async move {
            loop {
                let Ok((s, _)) = l.accept().await else { break };
                let sh3 = sh2.clone();
                if which == 2 {
                    tokio::spawn(handle_tcp(s, sh3));
                } else {
                    tokio::spawn(handle_http(s, which, sh3));
                }
            }
        });
    }
    Net { sh, ports, _reserved: reserved }
}


// ---------------------------------------------------------------------------------------------
// CDN mock server (fourth loopback server of a group): the k-th request of the current `dl` line
// is answered by the k-th step of the line's script (the last step repeats)
// ---------------------------------------------------------------------------------------------
#[derive(Clone, Debug, PartialEq)]
enum CdnStep {
    Resp(u16, Vec<u8>),
    Close,
    /// 200 with Content-Length = len, half of the body, then the connection is dropped
    Mid(Vec<u8>),
    Stall,
    Refuse,
}

fn parse_script(s: &str) -> Option<Vec<CdnStep>> {
    let mut v = vec![];
    for t in s.split(',') {
        v.push(match t {
            "close" => CdnStep::Close,
            "stall" => CdnStep::Stall,
            "refuse" => CdnStep::Refuse,
            _ => {
                if let Some(h) = t.strip_prefix("mid:") {
                    let b = unhex(h)?;
                    if b.len() < 2 { return None; }
                    CdnStep::Mid(b)
                } else {
                    let (c, h) = t.strip_prefix('s')?.split_once(':')?;
                    let code: u16 = c.parse().ok()?;
                    if !(200..=599).contains(&code) { return None; }
                    CdnStep::Resp(code, unhex(h)?)
                }
            }
        });
    }
    // `refuse` needs its own port: only as the whole script
    if v.is_empty() || v.len() > 6 || (v.contains(&CdnStep::Refuse) && v.len() != 1) { return None; }
    Some(v)
}

struct CdnShared {
    script: Vec<CdnStep>,
    served: usize,
    paths: Vec<String>,
}
type CdnSh = Arc<Mutex<CdnShared>>;

async fn handle_cdn(mut s: TcpStream, sh: CdnSh) {
    let _ = s.set_nodelay(true);
    let mut buf = Vec::new();
    let mut tmp = [0u8; 2048];
    loop {
        match s.read(&mut tmp).await {
            Ok(0) | Err(_) => return,
            Ok(n) => {
                buf.extend_from_slice(&tmp[..n]);
                if buf.windows(4).any(|w| w == b"\r\n\r\n") { break; }
            }
        }
    }
    let head = String::from_utf8_lossy(&buf).to_string();
    let path = head.split(' ').nth(1).unwrap_or("?").to_string();
    let step = {
        let mut g = sh.lock().unwrap();
        g.paths.push(path);
        let k = g.served.min(g.script.len().saturating_sub(1));
        g.served += 1;
        g.script.get(k).cloned().unwrap_or(CdnStep::Close)
    };
    match step {
        CdnStep::Resp(code, body) => {
            let mut v = format!(
                "HTTP/1.1 {code} X\r\nContent-Type: application/octet-stream\r\nContent-Length: {}\r\nConnection: close\r\n\r\n",
                body.len()
            )
            .into_bytes();
            v.extend_from_slice(&body);
            let _ = s.write_all(&v).await;
        }
        CdnStep::Close | CdnStep::Refuse => {}
        CdnStep::Mid(body) => {
            let head = format!(
                "HTTP/1.1 200 X\r\nContent-Type: application/octet-stream\r\nContent-Length: {}\r\nConnection: close\r\n\r\n",
                body.len()
            );
            let _ = s.write_all(head.as_bytes()).await;
            let _ = s.write_all(&body[..body.len() / 2]).await;
            let _ = s.flush().await;
            tokio::time::sleep(Duration::from_millis(3)).await;
        }
        CdnStep::Stall => {
            jump_clock_by(46).await; // HttpClient: 45 s total timeout
            hold_until_peer_closes(&mut s).await;
        }
    }
    let _ = s.shutdown().await;
}

struct CdnNet {
    sh: CdnSh,
    port: u16,
    refuse_port: u16,
    _reserved: TcpSocket,
}

async fn start_cdn() -> CdnNet {
    let sh: CdnSh = Arc::new(Mutex::new(CdnShared { script: vec![], served: 0, paths: vec![] }));
    let l = TcpListener::bind("127.0.0.1:0").await.expect("bind");
    let port = l.local_addr().unwrap().port();
    let sh2 = sh.clone();
    tokio::spawn(async move {
        loop {
            let Ok((s, _)) = l.accept().await else { break };
            tokio::spawn(handle_cdn(s, sh2.clone()));
        }
    });
    let (r, refuse_port) = reserved_port();
    CdnNet { sh, port, refuse_port, _reserved: r }
}

fn parse_ct(s: &str) -> Option<ContentType> {
    Some(match s { "config" => ContentType::Config, "data" => ContentType::Data, "patch" => ContentType::Patch, _ => return None })
}
fn cdn_path_ok(p: &str) -> bool {
    !p.is_empty() && p.len() <= 64 && p.bytes().all(|b| b.is_ascii_lowercase() || b.is_ascii_digit() || b == b'/') && !p.starts_with('/') && !p.contains("//")
}
/// the key under which the property expects the object (documented layout cdn/{path}/{type}/{xx}/{yy}/{hex})
fn cdn_cache_key(path: &str, ct: &str, key: &[u8]) -> String {
    let h = hex::encode(key);
    format!("cdn/{}/{}/{}/{}/{}", path.trim_end_matches('/'), ct, &h[..2], &h[2..4], h)
}
const JUNK: &[u8] = b"\xff\xfe junk without a schema line\n";

// ---------------------------------------------------------------------------------------------
// reqwest error classes: one request of the real TactClient against a one-shot server
// ---------------------------------------------------------------------------------------------
const HTTPERR_BEH: [&str; 13] = [
    "refuse", "close", "midhead", "mid", "garbage", "stallhead", "stallbody", "badchunk", "badgzip", "redirloop",
    "redirnoloc", "badurl", "ok",
];

async fn http_err_probe(beh: &str) -> Option<String> {
    if !HTTPERR_BEH.contains(&beh) { return None; }
    let l = TcpListener::bind("127.0.0.1:0").await.ok()?;
    let port = l.local_addr().ok()?.port();
    let (_keep, refuse_port) = reserved_port();
    let b = beh.to_string();
    tokio::spawn(async move {
        loop {
            let Ok((mut s, _)) = l.accept().await else { break };
            let b = b.clone();
            tokio::spawn(async move {
                let mut buf = Vec::new();
                let mut tmp = [0u8; 2048];
                loop {
                    match s.read(&mut tmp).await {
                        Ok(0) | Err(_) => return,
                        Ok(n) => {
                            buf.extend_from_slice(&tmp[..n]);
                            if buf.windows(4).any(|w| w == b"\r\n\r\n") { break; }
                        }
                    }
                }
                let doc = bpsv_doc(9);
                match b.as_str() {
                    "ok" => {
                        let _ = s.write_all(format!("HTTP/1.1 200 OK\r\nContent-Length: {}\r\nConnection: close\r\n\r\n{doc}", doc.len()).as_bytes()).await;
                    }
                    "midhead" => {
                        let _ = s.write_all(b"HTTP/1.1 200 OK\r\nContent-Le").await;
                    }
                    "mid" => {
                        let _ = s.write_all(format!("HTTP/1.1 200 OK\r\nContent-Length: {}\r\nConnection: close\r\n\r\n{}", doc.len(), &doc[..doc.len() / 2]).as_bytes()).await;
                        let _ = s.flush().await;
                        tokio::time::sleep(Duration::from_millis(3)).await;
                    }
                    "garbage" => {
                        let _ = s.write_all(b"\x00\x01\x02 this is not HTTP\r\n\r\n").await;
                    }
                    "stallhead" => {
                        jump_clock().await;
                        hold_until_peer_closes(&mut s).await;
                    }
                    "stallbody" => {
                        let _ = s.write_all(format!("HTTP/1.1 200 OK\r\nContent-Length: {}\r\nConnection: close\r\n\r\n{}", doc.len(), &doc[..doc.len() / 2]).as_bytes()).await;
                        let _ = s.flush().await;
                        jump_clock().await;
                        hold_until_peer_closes(&mut s).await;
                    }
                    "badchunk" => {
                        let _ = s.write_all(b"HTTP/1.1 200 OK\r\nTransfer-Encoding: chunked\r\nConnection: close\r\n\r\nzz\r\nnot a chunk\r\n").await;
                    }
                    "badgzip" => {
                        let _ = s.write_all(b"HTTP/1.1 200 OK\r\nContent-Encoding: gzip\r\nContent-Length: 12\r\nConnection: close\r\n\r\nnot gzip at!").await;
                    }
                    "redirloop" => {
                        let _ = s.write_all(b"HTTP/1.1 302 Found\r\nLocation: /x/versions\r\nContent-Length: 0\r\nConnection: close\r\n\r\n").await;
                    }
                    "redirnoloc" => {
                        let _ = s.write_all(b"HTTP/1.1 302 Found\r\nContent-Length: 0\r\nConnection: close\r\n\r\n").await;
                    }
                    _ => {} // close
                }
                let _ = s.shutdown().await;
            });
        }
    });
    let base = match beh {
        "refuse" => format!("http://127.0.0.1:{refuse_port}"),
        "badurl" => "http://127.0.0.1:99999".to_string(),
        _ => format!("http://127.0.0.1:{port}"),
    };
    let c = TactClient::new(base, false).ok()?;
    Some(match c.query("v1/products/x/versions").await {
        Ok(d) => doc_class(&d),
        Err(e) => {
            let retry = e.should_retry();
            let class = err_class(&e);
            match &e {
                ProtocolError::Http(h) => format!(
                    "http t={} c={} r={} b={} d={} class={class} retry={retry}",
                    h.is_timeout() as u8, h.is_connect() as u8, h.is_request() as u8, h.is_body() as u8, h.is_decode() as u8
                ),
                _ => format!("err:{class} retry={retry}"),
            }
        }
    })
}

// ---------------------------------------------------------------------------------------------
// one group of request lines
// ---------------------------------------------------------------------------------------------
#[derive(Clone, Debug)]
struct Cfg {
    disk: bool,
    https: bool,
    http: bool,
    down: u8,
    ttl: [u64; 3],
}

fn parse_begin(toks: &[&str]) -> Option<Cfg> {
    let mut c = Cfg { disk: true, https: true, http: true, down: 0, ttl: [60000, 60000, 60000] };
    let mut seen = 0;
    for t in &toks[1..] {
        let (k, v) = t.split_once('=')?;
        seen += 1;
        match k {
            "mode" => c.disk = match v { "disk" => true, "mem" => false, _ => return None },
            "https" => c.https = match v { "1" => true, "0" => false, _ => return None },
            "http" => c.http = match v { "1" => true, "0" => false, _ => return None },
            "down" => {
                c.down = v.parse().ok()?;
                if c.down > 7 { return None; }
            }
            "ttl" => {
                let p: Vec<u64> = v.split(',').map(|x| x.parse().ok()).collect::<Option<_>>()?;
                if p.len() != 3 { return None; }
                c.ttl = [p[0], p[1], p[2]];
            }
            _ => return None,
        }
    }
    if seen != 5 { return None; }
    Some(c)
}

struct GroupState {
    cfg: Cfg,
    net: Net,
    dir: Option<tempfile::TempDir>,
    clients: Vec<RibbitTactClient>,
    t0: Instant,
    cdn: CdnNet,
}

fn mk_client(cfg: &Cfg, net: &Net, dir: Option<PathBuf>) -> Option<RibbitTactClient> {
    let cc = ClientConfig {
        tact_https_url: if cfg.https { format!("http://127.0.0.1:{}", net.ports[0]) } else { String::new() },
        tact_http_url: if cfg.http { format!("http://127.0.0.1:{}", net.ports[1]) } else { String::new() },
        ribbit_url: format!("tcp://127.0.0.1:{}", net.ports[2]),
        cache_config: CacheConfig {
            cache_dir: dir,
            ribbit_ttl: Duration::from_millis(cfg.ttl[0]),
            cdn_ttl: Duration::from_millis(cfg.ttl[1]),
            config_ttl: Duration::from_millis(cfg.ttl[2]),
            ..CacheConfig::default()
        },
        ..ClientConfig::default()
    };
    RibbitTactClient::new(cc).ok()
}

fn cache_key(ep: &str) -> String {
    format!("api/ribbit/{ep}")
}

/// what the cache of this client holds for the endpoint right now (through the public API)
fn cache_obs(c: &RibbitTactClient, ep: &str) -> String {
    match c.cache().get(&cache_key(ep)) {
        Err(_) => "err".into(),
        Ok(None) => "miss".into(),
        Ok(Some(b)) => match <cascette_formats::bpsv::BpsvDocument as cascette_formats::CascFormat>::parse(&b) {
            Ok(d) => format!("hit{}", &doc_class(&d)[2..]),
            Err(_) => "junk".into(),
        },
    }
}

struct QInfo {
    late_ms: u64,
    dur_ms: u64,
}

/// runs the lines of one group; returns (response, timing) per line
async fn run_group(lines: &[String]) -> Vec<(String, Option<QInfo>)> {
    let mut out = vec![];
    let mut st: Option<GroupState> = None;
    for line in lines {
        let toks: Vec<&str> = line.split(' ').collect();
        let mut info = None;
        let resp: Option<String> = async {
            match toks[0] {
                "begin" => {
                    let cfg = parse_begin(&toks)?;
                    let net = start_net(cfg.down).await;
                    let dir = if cfg.disk { Some(tempfile::tempdir().ok()?) } else { None };
                    let c = mk_client(&cfg, &net, dir.as_ref().map(|d| d.path().join("cache")))?;
                    let cdn = start_cdn().await;
                    st = Some(GroupState { cfg, net, dir, clients: vec![c], t0: Instant::now(), cdn });
                    Some("ok".to_string())
                }
                "new" if toks.len() == 1 => {
                    let g = st.as_mut()?;
                    let c = mk_client(&g.cfg, &g.net, g.dir.as_ref().map(|d| d.path().join("cache")))?;
                    g.clients.push(c);
                    Some(format!("ok:{}", g.clients.len() - 1))
                }
                "corrupt" if toks.len() == 2 => {
                    let g = st.as_mut()?;
                    let d = g.dir.as_ref()?;
                    let p = d.path().join("cache").join(cache_key(toks[1]));
                    if p.is_file() {
                        std::fs::write(&p, b"\xff\xfe junk without a schema line\n").ok()?;
                        Some("ok".into())
                    } else {
                        Some("nofile".into())
                    }
                }
                "corruptdl" if toks.len() == 4 => {
                    let g = st.as_mut()?;
                    let d = g.dir.as_ref()?;
                    parse_ct(toks[2])?;
                    if !cdn_path_ok(toks[1]) { return None; }
                    let key = unhex(toks[3])?;
                    if key.len() < 2 || key.len() > 32 { return None; }
                    let p = d.path().join("cache").join(cdn_cache_key(toks[1], toks[2], &key));
                    if p.is_file() {
                        std::fs::write(&p, JUNK).ok()?;
                        Some("ok".into())
                    } else {
                        Some("nofile".into())
                    }
                }
                "dl" if toks.len() == 7 => {
                    let g = st.as_mut()?;
                    let ci: usize = toks[1].parse().ok()?;
                    let t: u64 = toks[2].parse().ok()?;
                    let (path, cts) = (toks[3], toks[4]);
                    let ct = parse_ct(cts)?;
                    if !cdn_path_ok(path) { return None; }
                    let key = unhex(toks[5])?;
                    if key.len() > 32 { return None; }
                    let script = parse_script(toks[6])?;
                    if ci >= g.clients.len() { return None; }
                    let el = g.t0.elapsed().as_millis() as u64;
                    if t > el {
                        tokio::time::sleep(Duration::from_millis(t - el)).await;
                    }
                    let refuse = script[0] == CdnStep::Refuse;
                    {
                        let mut s = g.cdn.sh.lock().unwrap();
                        s.script = script;
                        s.served = 0;
                        s.paths.clear();
                    }
                    let cdn = CdnClient::new(g.clients[ci].cache().clone(), CdnConfig::default()).ok()?;
                    let ep = CdnEndpoint {
                        host: format!("127.0.0.1:{}", if refuse { g.cdn.refuse_port } else { g.cdn.port }),
                        path: path.to_string(),
                        product_path: None,
                        scheme: Some("http".to_string()),
                        is_fallback: false,
                        strict: false,
                        max_hosts: None,
                    };
                    let start = g.t0.elapsed().as_millis() as u64;
                    let r = cdn.download(&ep, ct, &key).await;
                    let end = g.t0.elapsed().as_millis() as u64;
                    info = Some(QInfo { late_ms: start.saturating_sub(t), dur_ms: end - start });
                    tokio::task::yield_now().await;
                    let (reqs, url) = {
                        let s = g.cdn.sh.lock().unwrap();
                        let mut ps = s.paths.clone();
                        ps.dedup();
                        (s.paths.len(), if ps.is_empty() { "-".to_string() } else { ps.join(",") })
                    };
                    let res = match &r {
                        Ok(b) => format!("ok:{}", hex(b)),
                        Err(e) => format!("err:{}", err_class(e)),
                    };
                    let cache = if key.len() < 2 {
                        "-".to_string()
                    } else {
                        match g.clients[ci].cache().get_bytes(&cdn_cache_key(path, cts, &key)) {
                            Err(_) => "err".into(),
                            Ok(None) => "miss".into(),
                            Ok(Some(b)) => format!("hit:{}", hex(&b)),
                        }
                    };
                    Some(format!("reqs={reqs} url={url} res={res} cache={cache}"))
                }
                "httperr" if toks.len() == 2 => http_err_probe(toks[1]).await,
                "q" if toks.len() == 7 => {
                    let g = st.as_mut()?;
                    let ci: usize = toks[1].parse().ok()?;
                    let t: u64 = toks[2].parse().ok()?;
                    let ep = toks[3];
                    let mut b = [parse_beh(toks[4])?, parse_beh(toks[5])?, parse_beh(toks[6])?];
                    if ci >= g.clients.len() { return None; }
                    for (i, x) in b.iter_mut().enumerate() {
                        if g.cfg.down & (1 << i) != 0 { *x = Beh::Refuse; }
                    }
                    let el = g.t0.elapsed().as_millis() as u64;
                    if t > el {
                        tokio::time::sleep(Duration::from_millis(t - el)).await;
                    }
                    {
                        let mut s = g.net.sh.lock().unwrap();
                        s.beh = b;
                        s.log.clear();
                    }
                    let start = g.t0.elapsed().as_millis() as u64;
                    let r = g.clients[ci].query(ep).await;
                    let end = g.t0.elapsed().as_millis() as u64;
                    info = Some(QInfo { late_ms: start.saturating_sub(t), dur_ms: end - start });
                    // let handler tasks finish logging (they log before answering, so this is
                    // only for contacts the client abandoned)
                    tokio::task::yield_now().await;
                    let log: Vec<&str> = g.net.sh.lock().unwrap().log.iter().map(|&i| NAMES[i]).collect();
                    let trace = if log.is_empty() { "-".to_string() } else { log.join(",") };
                    let res = match &r {
                        Ok(d) => doc_class(d),
                        Err(e) => format!("err:{}", err_class(e)),
                    };
                    let cache = cache_obs(&g.clients[ci], ep);
                    Some(format!("trace={trace} res={res} cache={cache}"))
                }
                "tcp" if toks.len() >= 2 => {
                    let segs: Vec<Vec<u8>> = toks[1..].iter().map(|h| unhex(h)).collect::<Option<_>>()?;
                    if segs.iter().any(|s| s.len() > 8192) || (segs.len() > 1 && segs.iter().any(|s| s.is_empty())) { return None; }
                    Some(match tcp_raw(segs).await {
                        Ok(b) => format!("ok:{}", hex(&b)),
                        Err(e) => format!("err:{}", err_class(&e)),
                    })
                }
                "retry" => retry_line(&toks),
                "ismime" if toks.len() == 2 => {
                    let b = unhex(toks[1])?;
                    match catch(std::panic::AssertUnwindSafe(|| is_v1_mime_response(&b))) {
                        Ok(v) => Some(v.to_string()),
                        Err(_) => Some("panic".into()),
                    }
                }
                _ => None,
            }
        }
        .await;
        out.push((resp.unwrap_or_else(|| "bad-op".into()), info));
    }
    out
}

async fn tcp_server_once(segs: Vec<Vec<u8>>) -> (u16, Sh) {
    let sh: Sh = Arc::new(Mutex::new(Shared { beh: [Beh::Close, Beh::Close, Beh::Segs(segs)], log: vec![] }));
    let l = TcpListener::bind("127.0.0.1:0").await.expect("bind");
    let port = l.local_addr().unwrap().port();
    let sh2 = sh.clone();
    tokio::spawn(async move {
        if let Ok((s, _)) = l.accept().await {
            handle_tcp(s, sh2).await;
        }
    });
    (port, sh)
}

async fn tcp_raw(segs: Vec<Vec<u8>>) -> Result<Vec<u8>, ProtocolError> {
    let (port, _sh) = tcp_server_once(segs).await;
    let c = RibbitClient::new(format!("127.0.0.1:{port}"))?;
    c.query_raw("v1/products/wow/versions").await
}

async fn tcp_parsed(segs: Vec<Vec<u8>>) -> String {
    let (port, _sh) = tcp_server_once(segs).await;
    let Ok(c) = RibbitClient::new(format!("127.0.0.1:{port}")) else { return "err:new".into() };
    match c.query("v1/products/wow/versions").await {
        Ok(d) => {
            let rows: Vec<String> = d
                .rows()
                .iter()
                .map(|r| (0..d.schema().field_count()).map(|i| r.get_raw(i).unwrap_or("")).collect::<Vec<_>>().join("|"))
                .collect();
            format!("{} [{}]", doc_class(&d), rows.join(";"))
        }
        Err(e) => format!("err:{}", err_class(&e)),
    }
}

fn retry_line(toks: &[&str]) -> Option<String> {
    use http::StatusCode;
    let code = |i: usize| -> Option<StatusCode> { StatusCode::from_u16(toks.get(i)?.parse().ok()?).ok() };
    let e = match (toks.get(1).copied()?, toks.len()) {
        ("network", 2) => ProtocolError::Network(std::io::Error::new(std::io::ErrorKind::ConnectionReset, "x")),
        ("parse", 2) => ProtocolError::Parse("x".into()),
        ("cache", 2) => ProtocolError::Cache(cascette_protocol::cache::CacheError::Other("x".into())),
        ("all-hosts-failed", 2) => ProtocolError::AllHostsFailed,
        ("ratelimited", 2) => ProtocolError::RateLimited { retry_after: None },
        ("ratelimited:hint", 2) => ProtocolError::RateLimited { retry_after: Some(Duration::from_secs(1)) },
        ("unavailable", 2) => ProtocolError::ServiceUnavailable,
        ("status", 3) => ProtocolError::HttpStatus(code(2)?),
        ("server", 3) => ProtocolError::ServerError(code(2)?),
        ("invalid-key", 2) => ProtocolError::InvalidKey,
        ("invalid-endpoint", 2) => ProtocolError::InvalidEndpoint("x".into()),
        ("range", 2) => ProtocolError::RangeNotSupported,
        ("timeout", 2) => ProtocolError::Timeout,
        ("other", 2) => ProtocolError::Other("x".into()),
        ("utf8", 2) => ProtocolError::Utf8(String::from_utf8(vec![0xff]).unwrap_err()),
        ("wasm", 2) => ProtocolError::UnsupportedOnWasm("x".into()),
        _ => return None,
    };
    Some(e.should_retry().to_string())
}

fn run_group_blocking(lines: Vec<String>) -> Vec<(String, Option<QInfo>)> {
    let rt = tokio::runtime::Builder::new_current_thread().enable_all().build().expect("runtime");
    let r = rt.block_on(run_group(&lines));
    rt.shutdown_timeout(Duration::from_millis(50));
    r
}

// ---------------------------------------------------------------------------------------------
// oracle: the property as stated, evaluated on the implementation's responses only
// ---------------------------------------------------------------------------------------------
#[derive(Clone, Copy, PartialEq, Debug)]
enum Class {
    Good(u32, u32), // id, rows
    Transient,
    Definitive,
}

/// the property's reading of a behaviour on transport `which` (0,1 = HTTP; 2 = TCP)
fn classify(which: usize, b: &Beh) -> Class {
    match (which, b) {
        (_, Beh::Doc(id)) => Class::Good(*id, 2),
        (2, Beh::Mime(id)) => Class::Good(*id, 2),
        (_, Beh::Mime(_)) => Class::Definitive, // TACT HTTP serves plain BPSV; MIME there is a malformed body
        (_, Beh::Bad) => Class::Definitive,     // malformed body: not transient
        (2, Beh::Status(..)) => Class::Definitive,
        (_, Beh::Status(c, _)) => {
            if *c == 429 || (500..600).contains(c) { Class::Transient } else { Class::Definitive }
        }
        // a connection that is refused, dropped before/inside the response, or stalls is a
        // transient transport failure
        (_, Beh::Close | Beh::Mid | Beh::Trunc | Beh::Stall | Beh::Refuse) => Class::Transient,
        (_, Beh::Segs(_)) => Class::Definitive,
        (2, Beh::Raw(_, _, tag)) | (_, Beh::Raw(200, _, tag)) => match tag {
            Some((id, rows)) => Class::Good(*id, *rows),
            None => Class::Definitive, // malformed body: not transient
        },
        (_, Beh::Raw(c, _, _)) => {
            if *c == 429 || (500..600).contains(c) { Class::Transient } else { Class::Definitive }
        }
    }
}

fn is_tcp_only(ep: &str) -> bool {
    ep.starts_with("v1/summary") || ep.starts_with("v1/certs/") || ep.starts_with("v1/ocsp/")
}
fn ttl_of(cfg: &Cfg, ep: &str) -> u64 {
    if ep.contains("versions") || ep.contains("bgdl") { cfg.ttl[0] } else if ep.contains("cdns") { cfg.ttl[1] } else { cfg.ttl[2] }
}
const TTL_NAMES: [&str; 3] = ["version-service (ribbit)", "cdn", "config"];
fn ttl_name_of(ep: &str) -> &'static str {
    if ep.contains("versions") || ep.contains("bgdl") { TTL_NAMES[0] } else if ep.contains("cdns") { TTL_NAMES[1] } else { TTL_NAMES[2] }
}
fn endpoint_ok(ep: &str) -> bool {
    !ep.is_empty() && ep.len() <= 1000 && ep.chars().all(|c| c.is_alphanumeric() || matches!(c, '/' | '_' | '-' | '.'))
}

struct RefEntry {
    id: u32,
    rows: u32,
    expires: u64,
    by: usize,
}

/// evaluates the oracle over the lines of one group; reports through `fail(sig, msg, upto_line)`
fn oracle_group(lines: &[String], resps: &[String], mut fail: impl FnMut(&str, String, usize)) {
    let mut cfg: Option<Cfg> = None;
    // reference cache the property describes: per directory (disk) or per client (mem)
    let mut refc: BTreeMap<(usize, String), RefEntry> = BTreeMap::new();
    let mut corrupted: BTreeSet<String> = BTreeSet::new();
    // when each client's own stored entry (if any) expires: (client, endpoint) -> instant
    let mut own_exp: BTreeMap<(usize, String), u64> = BTreeMap::new();
    // CDN objects the property expects in the cache: (slot, cache key) -> (bytes, stored at, by)
    let mut cdn_ref: BTreeMap<(usize, String), (Vec<u8>, u64, usize)> = BTreeMap::new();
    let mut cdn_corrupted: BTreeSet<String> = BTreeSet::new();
    for (i, (line, resp)) in lines.iter().zip(resps).enumerate() {
        let toks: Vec<&str> = line.split(' ').collect();
        match toks[0] {
            "begin" => {
                cfg = parse_begin(&toks);
                refc.clear();
                corrupted.clear();
                own_exp.clear();
                cdn_ref.clear();
                cdn_corrupted.clear();
            }
            "corruptdl" => {
                if resp == "ok" {
                    if let Some(k) = unhex(toks[3]) { cdn_corrupted.insert(cdn_cache_key(toks[1], toks[2], &k)); }
                }
            }
            "dl" if resp != "bad-op" => {
                let Some(c) = cfg.as_ref() else { continue };
                let ci: usize = toks[1].parse().unwrap();
                let t: u64 = toks[2].parse().unwrap();
                let key = unhex(toks[5]).unwrap();
                let script = parse_script(toks[6]).unwrap();
                let f: BTreeMap<&str, &str> = resp.split(' ').filter_map(|kv| kv.split_once('=')).collect();
                let (reqs, url, res, cache) = (f["reqs"].parse::<usize>().unwrap_or(99), f["url"], f["res"], f["cache"]);
                if key.len() < 2 {
                    // a key too short for the two directory levels is refused before cache and network
                    if reqs != 0 || res != "err:invalid-key" {
                        fail("cdn-short-key-not-refused", format!("{line} -> {resp}"), i);
                    }
                    continue;
                }
                let ck = cdn_cache_key(toks[3], toks[4], &key);
                let slot = if c.disk { 0 } else { ci };
                let rk = (slot, ck.clone());
                let cdn_ttl = c.ttl[1];
                if cdn_corrupted.contains(&ck) {
                    // the file was overwritten from outside: what comes back is not judged; resynchronise
                    // (the junk stays in the file until a fetched object overwrites it)
                    if reqs > 0 {
                        cdn_corrupted.remove(&ck);
                        match res.strip_prefix("ok:") {
                            Some(h) => { cdn_ref.insert(rk, (unhex(h).unwrap_or_default(), t, ci)); }
                            None => { cdn_ref.remove(&rk); }
                        }
                    } else {
                        cdn_ref.remove(&rk);
                    }
                    continue;
                }
                let fresh = cdn_ref.get(&rk).filter(|e| t < e.1 + cdn_ttl).cloned();
                if let Some((bytes, stored, by)) = fresh {
                    // served from the cache, no traffic
                    if reqs != 0 {
                        if by == ci && t >= stored + c.ttl[2] {
                            fail("cdn-object-ttl-is-config-ttl", format!("object stored at {stored} is fetched again before the CDN time-to-live ({cdn_ttl} ms) ended, at the config time-to-live ({} ms): {line} -> {resp}", c.ttl[2]), i);
                        } else {
                            fail("cdn-hit-with-traffic", format!("fresh cached object but the CDN was contacted: {line} -> {resp}"), i);
                        }
                        match res.strip_prefix("ok:") {
                            Some(h) => { cdn_ref.insert(rk, (unhex(h).unwrap_or_default(), t, ci)); }
                            None => { cdn_ref.remove(&rk); }
                        }
                    } else if res != format!("ok:{}", hex(&bytes)) {
                        fail("cdn-hit-wrong-bytes", format!("want ok:{}: {line} -> {resp}", hex(&bytes)), i);
                    }
                    continue;
                }
                // not cached: the network must be used; at most 4 requests, stop at the first
                // success or definitive failure
                let stale = cdn_ref.get(&rk).cloned();
                let mut want_reqs = 0usize;
                let mut want: Option<Vec<u8>> = None;
                for k in 0..4 {
                    let st = &script[k.min(script.len() - 1)];
                    if *st != CdnStep::Refuse { want_reqs += 1; }
                    match st {
                        CdnStep::Resp(code, body) if (200..300).contains(code) => { want = Some(body.clone()); break; }
                        CdnStep::Resp(code, _) if *code == 429 || (500..600).contains(code) => {}
                        CdnStep::Resp(..) => break,
                        _ => {} // refused, dropped, stalled: transient
                    }
                }
                let all_refused = script[0] == CdnStep::Refuse;
                if reqs == 0 && !all_refused {
                    if let (Some(h), Some((_, stored, by))) = (res.strip_prefix("ok:"), stale.as_ref()) {
                        let _ = h;
                        if c.disk && *by != ci {
                            fail("cache-ttl-lost-new-client", format!("object stored by client {by} is served by client {ci} after its time-to-live ended, without traffic: {line} -> {resp}"), i);
                        } else if t < stored + c.ttl[2] {
                            fail("cdn-object-ttl-is-config-ttl", format!("object stored at {stored} is served without traffic after the CDN time-to-live ({cdn_ttl} ms) ended, until the config time-to-live ({} ms): {line} -> {resp}", c.ttl[2]), i);
                        } else {
                            fail("cdn-served-after-ttl", format!("{line} -> {resp}"), i);
                        }
                    } else {
                        fail("cdn-no-traffic-without-cached-object", format!("{line} -> {resp}"), i);
                    }
                    continue;
                }
                if reqs != want_reqs {
                    fail("cdn-request-count", format!("want {want_reqs} requests: {line} -> {resp}"), i);
                }
                if reqs > 0 {
                    let want_url = format!("/{}", &ck[4..]);
                    if url != want_url {
                        fail("cdn-url", format!("want {want_url}: {line} -> {resp}"), i);
                    }
                }
                match want {
                    Some(body) => {
                        let w = format!("ok:{}", hex(&body));
                        if res != w {
                            fail("cdn-wrong-bytes", format!("want {w}: {line} -> {resp}"), i);
                        } else if cache != format!("hit:{}", hex(&body)) {
                            fail("cdn-fetched-object-not-cached", format!("{line} -> {resp}"), i);
                        }
                        match res.strip_prefix("ok:") {
                            Some(h) => { cdn_ref.insert(rk, (unhex(h).unwrap_or_default(), t, ci)); }
                            None => { cdn_ref.remove(&rk); }
                        }
                    }
                    None => {
                        if res.starts_with("ok:") {
                            fail("cdn-failed-fetch-returned", format!("every request failed or was answered non-2xx, yet bytes are returned: {line} -> {resp}"), i);
                        }
                        if cache != "miss" {
                            fail("cdn-failure-cached", format!("a failed or non-2xx fetch is in the cache: {line} -> {resp}"), i);
                        }
                        match res.strip_prefix("ok:") {
                            Some(h) => { cdn_ref.insert(rk, (unhex(h).unwrap_or_default(), t, ci)); }
                            None => { cdn_ref.remove(&rk); }
                        }
                    }
                }
            }
            "httperr" if resp != "bad-op" => {
                // the property's reading: refused / dropped / stalled connections are transient,
                // a redirect without end and an unusable URL are not; a good answer is an answer
                let want = match toks[1] {
                    "refuse" | "close" | "midhead" | "mid" | "garbage" | "stallhead" | "stallbody" | "badchunk" | "badgzip" => Some("retry=true"),
                    "redirloop" | "redirnoloc" | "badurl" => Some("retry=false"),
                    _ => None,
                };
                match want {
                    Some(w) => {
                        if !resp.ends_with(w) {
                            fail("http-error-class", format!("want {w}: {line} -> {resp}"), i);
                        }
                    }
                    None => {
                        if resp != "ok:9:2" { fail("http-error-class", format!("want the document: {line} -> {resp}"), i); }
                    }
                }
            }
            "corrupt" => {
                if resp == "ok" { corrupted.insert(toks[1].to_string()); }
            }
            "retry" if resp != "bad-op" => {
                // the part of the classification the property fixes (and that is reachable):
                // transport failures, 429, 5xx are transient; 4xx, malformed, bad endpoint are not
                let code: u32 = toks.get(2).and_then(|c| c.parse().ok()).unwrap_or(0);
                let want = match toks[1] {
                    "network" | "timeout" | "ratelimited" | "ratelimited:hint" | "unavailable" => Some(true),
                    "server" if (500..600).contains(&code) => Some(true),
                    "status" if (400..500).contains(&code) && code != 429 => Some(false),
                    "parse" | "invalid-endpoint" => Some(false),
                    _ => None,
                };
                if let Some(w) = want {
                    if *resp != w.to_string() {
                        fail("retry-table", format!("should_retry: want {w}: {line} -> {resp}"), i);
                    }
                }
            }
            "q" if resp != "bad-op" => {
                let Some(c) = cfg.as_ref() else { continue };
                let ci: usize = toks[1].parse().unwrap();
                let t: u64 = toks[2].parse().unwrap();
                let ep = toks[3];
                let mut b: Vec<Beh> = toks[4..7].iter().map(|x| parse_beh(x).unwrap()).collect();
                for (k, x) in b.iter_mut().enumerate() {
                    if c.down & (1 << k) != 0 { *x = Beh::Refuse; }
                }
                let f: BTreeMap<&str, &str> = resp.split(' ').filter_map(|kv| kv.split_once('=')).collect();
                let (trace, res, cache) = (f["trace"], f["res"], f["cache"]);
                let slot = if c.disk { 0 } else { ci };
                let rk = (slot, ep.to_string());
                if !endpoint_ok(ep) {
                    if trace != "-" || !res.starts_with("err:") {
                        fail("invalid-endpoint-contacted", format!("{line} -> {resp}"), i);
                    }
                    continue;
                }
                let was_corrupt = corrupted.contains(ep);
                let fresh: Option<(u32, u32, usize)> = refc.get(&rk).filter(|e| t < e.expires).map(|e| (e.id, e.rows, e.by));
                if let (Some((e_id, e_rows, e_by)), false) = (fresh, was_corrupt) {
                    // served from the cache, no traffic
                    let want = format!("ok:{e_id}:{e_rows}");
                    if trace != "-" && c.disk && e_by != ci && own_exp.get(&(ci, ep.to_string())).is_some_and(|&x| t >= x) {
                        // the querying client's own, expired index entry made it delete the
                        // file another client had refreshed
                        fail("cache-fresh-entry-dropped-by-other-client", format!("answer stored by client {} at a later time is deleted by client {ci}'s own expired entry: {line} -> {resp}", e_by), i);
                        if let Some(r) = res.strip_prefix("ok:") {
                            let p: Vec<&str> = r.split(':').collect();
                            own_exp.insert((ci, ep.to_string()), t + ttl_of(c, ep));
                            refc.insert(rk, RefEntry { id: p[0].parse().unwrap_or(0), rows: p[1].parse().unwrap_or(0), expires: t + ttl_of(c, ep), by: ci });
                        } else {
                            refc.remove(&rk);
                        }
                    } else if trace != "-" {
                        let own = ttl_of(c, ep);
                        let stored = refc.get(&rk).map_or(0, |e| e.expires - own);
                        let as_if: Vec<String> = (0..3).filter(|&k| c.ttl[k] != own && t >= stored + c.ttl[k]).map(|k| format!("{} {} ms", TTL_NAMES[k], c.ttl[k])).collect();
                        fail("hit-with-traffic", format!("fresh cached answer (stored at {stored}, {} time-to-live {own} ms) but servers were contacted{}: {line} -> {resp}", ttl_name_of(ep), if as_if.is_empty() { String::new() } else { format!(" (as if stored with: {})", as_if.join(" / ")) }), i);
                    } else if res != want {
                        if res == "err:cache" {
                            fail("cache-file-deleted-under-other-client", format!("query fails with a cache error although an unexpired answer was stored: {line} -> {resp}"), i);
                        } else {
                            fail("hit-wrong-answer", format!("want {want}: {line} -> {resp}"), i);
                        }
                    }
                    continue;
                }
                // not (validly) cached: the network must be used
                let stale_by = refc.get(&rk).map(|e| e.by);
                let permitted: Vec<usize> = if is_tcp_only(ep) {
                    vec![2]
                } else {
                    [(0, c.https), (1, c.http), (2, true)].iter().filter(|x| x.1).map(|x| x.0).collect()
                };
                let mut want_trace = vec![];
                let mut want: Option<Class> = None;
                for &w in &permitted {
                    want_trace.push(w);
                    let cl = classify(w, &b[w]);
                    if cl != Class::Transient {
                        want = Some(cl);
                        break;
                    }
                }
                let visible: Vec<&str> = want_trace.iter().filter(|&&w| b[w] != Beh::Refuse).map(|&w| NAMES[w]).collect();
                let want_trace_s = if visible.is_empty() { "-".to_string() } else { visible.join(",") };
                if trace == "-" && (want_trace_s != "-" || res.starts_with("ok:")) {
                    if res == "err:cache" {
                        fail("cache-file-deleted-under-other-client", format!("query fails with a cache error and no protocol was tried: {line} -> {resp}"), i);
                    } else if res.starts_with("ok:") && c.disk && stale_by.is_some() && stale_by != Some(ci) {
                        fail("cache-ttl-lost-new-client", format!("answer stored by client {} is served by client {ci} after its time-to-live ended, without traffic: {line} -> {resp}", stale_by.unwrap()), i);
                    } else if res.starts_with("ok:") && stale_by == Some(ci) {
                        // the storing client itself serves the answer past the TTL of the endpoint's class
                        let own = ttl_of(c, ep);
                        let stored = refc.get(&rk).map_or(0, |e| e.expires - own);
                        let as_if: Vec<String> = (0..3).filter(|&k| c.ttl[k] != own && t < stored + c.ttl[k]).map(|k| format!("{} {} ms", TTL_NAMES[k], c.ttl[k])).collect();
                        fail("answer-served-after-ttl", format!("answer stored at {stored} with the {} time-to-live ({own} ms) is served without traffic after it ended{}: {line} -> {resp}", ttl_name_of(ep), if as_if.is_empty() { String::new() } else { format!(" (as if stored with: {})", as_if.join(" / ")) }), i);
                    } else {
                        fail("no-traffic-without-cached-answer", format!("{line} -> {resp}"), i);
                    }
                    continue;
                }
                corrupted.remove(ep);
                let last = *want_trace.last().unwrap();
                let got_trace: Vec<&str> = trace.split(',').collect();
                if trace != want_trace_s {
                    // classify the shape of the disagreement
                    let stopped_at = got_trace.last().and_then(|n| NAMES.iter().position(|x| x == n)).unwrap_or(9);
                    let shorter = want_trace_s.starts_with(trace) && trace.len() < want_trace_s.len();
                    if shorter && stopped_at < 2 && matches!(b[stopped_at], Beh::Close | Beh::Mid | Beh::Trunc) {
                        fail("http-dropped-connection-stops-chain", format!("connection dropped by {} ends the chain (want contacts {want_trace_s}): {line} -> {resp}", NAMES[stopped_at]), i);
                    } else {
                        fail("contact-order", format!("want contacts {want_trace_s}: {line} -> {resp}"), i);
                    }
                    // the cache must still not hold a failed answer
                    if res.starts_with("err:") && cache != "miss" && !(cache == "junk" && was_corrupt) {
                        fail("failure-cached", format!("{line} -> {resp}"), i);
                    }
                    continue;
                }
                match want {
                    Some(Class::Good(id, rows)) => {
                        let w = format!("ok:{id}:{rows}");
                        if res != w {
                            fail("first-good-answer", format!("want {w}: {line} -> {resp}"), i);
                        } else if cache != format!("hit:{id}:{rows}") {
                            fail("good-answer-not-cached", format!("{line} -> {resp}"), i);
                        }
                        if res.starts_with("ok:") {
                            own_exp.insert((ci, ep.to_string()), t + ttl_of(c, ep));
                            refc.insert(rk, RefEntry { id, rows, expires: t + ttl_of(c, ep), by: ci });
                        }
                    }
                    _ => {
                        // every permitted protocol failed, or one refused definitively
                        if res.starts_with("ok:") {
                            if last == 2 && b[2] == Beh::Trunc {
                                fail("tcp-truncated-response-accepted", format!("TCP response cut at a row boundary is returned as a well-formed answer: {line} -> {resp}"), i);
                            } else {
                                fail("failed-answer-returned", format!("{line} -> {resp}"), i);
                            }
                        }
                        if cache == "junk" && was_corrupt {
                            // the junk is what `corrupt` wrote from outside, not an answer the client cached
                            corrupted.insert(ep.to_string());
                        } else if cache != "miss" {
                            if last == 2 && b[2] == Beh::Trunc && res.starts_with("ok:") {
                                fail("tcp-truncated-response-cached", format!("{line} -> {resp}"), i);
                            } else {
                                fail("failure-cached", format!("a failed or malformed answer is in the cache: {line} -> {resp}"), i);
                            }
                        }
                        if res.starts_with("ok:") {
                            // keep the reference in step with what is really there so that later
                            // lines of the case are judged on their own
                            let p: Vec<&str> = res.split(':').collect();
                            own_exp.insert((ci, ep.to_string()), t + ttl_of(c, ep));
                            refc.insert(rk, RefEntry { id: p[1].parse().unwrap_or(0), rows: p[2].parse().unwrap_or(0), expires: t + ttl_of(c, ep), by: ci });
                        } else {
                            refc.remove(&rk);
                        }
                    }
                }
            }
            _ => {}
        }
    }
}

// ---------------------------------------------------------------------------------------------
// generators
// ---------------------------------------------------------------------------------------------
const HTTP_BEH: [&str; 18] = [
    "doc", "mime", "bad", "s500", "s502", "s503", "s504", "s429", "s429ra", "s404", "s400", "s403", "s408", "s501",
    "close", "mid", "stall", "refuse",
];
const TCP_BEH: [&str; 8] = ["doc", "mime", "bad", "close", "mid", "trunc", "stall", "refuse"];
/// the nine behaviour classes of the quantifier, one representative each (HTTP / TCP spelling)
const NINE_HTTP: [&str; 9] = ["doc", "mime", "s500", "s429", "s429ra", "s404", "bad", "refuse", "mid"];
const NINE_TCP: [&str; 9] = ["doc", "mime", "bad", "close", "trunc", "mid", "bad", "refuse", "stall"];
const EP_KINDS: [&str; 6] = ["versions", "cdns", "bgdl", "summary", "certs", "ocsp"];

fn endpoint(kind: &str, n: usize) -> String {
    match kind {
        "summary" => if n == 0 { "v1/summary".to_string() } else { format!("v1/summary/p{n}") },
        "certs" => format!("v1/certs/c{n}"),
        "ocsp" => format!("v1/ocsp/o{n}"),
        k => format!("v1/products/p{n}/{k}"),
    }
}

fn with_id(b: &str, id: &mut u32) -> String {
    if b == "doc" || b == "mime" {
        *id += 1;
        format!("{b}:{id}")
    } else {
        b.to_string()
    }
}

/// chain groups: one `begin` per (config, down mask), many queries on distinct endpoints at t=0
fn gen_chain_groups(rng: &mut Rng, thorough: bool) -> Vec<Vec<String>> {
    // assignments, bucketed by down mask
    let mut by_key: BTreeMap<(bool, bool, u8, bool), Vec<(String, [String; 3])>> = BTreeMap::new();
    let mut push = |https: bool, http: bool, mem: bool, kind: &str, b: [&str; 3]| {
        let mut down = 0u8;
        for i in 0..3 {
            if b[i] == "refuse" { down |= 1 << i; }
        }
        by_key.entry((https, http, down, mem)).or_default().push((kind.to_string(), [b[0].into(), b[1].into(), b[2].into()]));
    };
    if thorough {
        // all 9^3 assignments of the quantifier's classes, every endpoint class, both HTTP slots on
        for kind in EP_KINDS {
            for a in 0..9 { for b in 0..9 { for c in 0..9 {
                push(true, true, false, kind, [NINE_HTTP[a], NINE_HTTP[b], NINE_TCP[c]]);
            } } }
        }
        // other configurations: all pairs on the two remaining transports
        for (https, http) in [(false, true), (true, false), (false, false)] {
            for kind in ["versions", "cdns", "summary"] {
                for a in 0..9 { for c in 0..9 {
                    let h = NINE_HTTP[a];
                    push(https, http, true, kind, [h, h, NINE_TCP[c]]);
                } }
            }
        }
        for _ in 0..1500 {
            let kind = *rng.pick(&EP_KINDS);
            push(rng.chance(3, 4), rng.chance(3, 4), rng.chance(1, 2), kind, [*rng.pick(&HTTP_BEH), *rng.pick(&HTTP_BEH), *rng.pick(&TCP_BEH)]);
        }
    } else {
        // covering sample: every HTTP behaviour in the first slot against every class in the
        // second/third slot that can be reached; every pair (https, tcp) with http transient
        for a in HTTP_BEH {
            for b in ["doc", "s503", "s404", "mid"] {
                push(true, true, false, "versions", [a, b, "doc"]);
            }
        }
        for a in ["s500", "s429ra", "refuse", "stall"] {
            for b in HTTP_BEH {
                push(true, true, false, "cdns", [a, b, *rng.pick(&TCP_BEH)]);
            }
        }
        for a in ["s502", "refuse"] {
            for b in ["s504", "s429", "refuse", "stall"] {
                for c in TCP_BEH {
                    push(true, true, false, "bgdl", [a, b, c]);
                }
            }
        }
        for c in TCP_BEH {
            push(true, true, rng.chance(1, 2), "summary", ["doc", "doc", c]);
            push(true, true, rng.chance(1, 2), "certs", [*rng.pick(&HTTP_BEH), *rng.pick(&HTTP_BEH), c]);
        }
        for (https, http) in [(false, true), (true, false), (false, false)] {
            for a in ["doc", "s500", "s404", "bad", "mid", "stall"] {
                for c in ["doc", "mime", "bad", "trunc"] {
                    push(https, http, true, "versions", [a, a, c]);
                }
            }
        }
        for _ in 0..150 {
            let kind = *rng.pick(&EP_KINDS);
            push(rng.chance(3, 4), rng.chance(3, 4), rng.chance(1, 2), kind, [*rng.pick(&HTTP_BEH), *rng.pick(&HTTP_BEH), *rng.pick(&TCP_BEH)]);
        }
    }
    let mut groups = vec![];
    for ((https, http, down, mem), items) in by_key {
        for chunk in items.chunks(40) {
            let mut g = vec![format!(
                "begin mode={} https={} http={} down={down} ttl=60000,60000,60000",
                if mem { "mem" } else { "disk" }, https as u8, http as u8
            )];
            let mut id = (groups.len() as u32) * 1000;
            for (n, (kind, b)) in chunk.iter().enumerate() {
                let ep = endpoint(kind, n + 1);
                g.push(format!("q 0 0 {ep} {} {} {}", with_id(&b[0], &mut id), with_id(&b[1], &mut id), with_id(&b[2], &mut id)));
            }
            groups.push(g);
        }
    }
    groups
}

/// cache histories: short TTLs, queries placed at least 250 ms away from every expiry instant,
/// up to three clients on the same cache directory (disk) or separate memory caches
fn gen_ttl_groups(rng: &mut Rng, n: usize) -> Vec<Vec<String>> {
    let mut groups = vec![];
    for gi in 0..n {
        let disk = gi % 3 != 2;
        let ttl = [600u64, 1100, 1600];
        let mut g = vec![format!("begin mode={} https=1 http=1 down=0 ttl={},{},{}", if disk { "disk" } else { "mem" }, ttl[0], ttl[1], ttl[2])];
        let kinds = ["versions", "cdns", "summary", "bgdl"];
        let nk = 1 + rng.below(2) as usize;
        let eps: Vec<String> = (0..nk).map(|k| endpoint(kinds[(gi + k) % 4], 1)).collect();
        let mut clients = 1usize;
        let mut id = (gi as u32 + 1) * 100;
        // boundaries (times at which some client's view of an entry may change)
        let mut bounds: Vec<u64> = vec![];
        let mut t = 0u64;
        let steps = 4 + rng.below(4);
        for step in 0..steps {
            // choose next time: small step (inside TTL) or jump over an expiry
            let mut cand = t + *rng.pick(&[0u64, 0, 30, 300, 700, 1200]);
            if step == 0 { cand = 0; }
            // push away from boundaries
            loop {
                let near = bounds.iter().any(|&b| cand + 250 > b && cand < b + 250);
                if !near { break; }
                cand += 100;
            }
            t = cand;
            if t > 4000 { break; }
            if clients < 3 && rng.chance(1, 4) {
                g.push("new".into());
                clients += 1;
            }
            let ep = rng.pick(&eps).clone();
            if disk && rng.chance(1, 10) {
                g.push(format!("corrupt {ep}"));
            }
            let ci = rng.below(clients as u64) as usize;
            let fail = rng.chance(1, 4);
            let (a, b, c) = if fail {
                (*rng.pick(&["s500", "s404", "bad", "close"]), *rng.pick(&["s503", "s429"]), *rng.pick(&["bad", "close", "mid"]))
            } else {
                (*rng.pick(&["doc", "s500", "s429ra"]), *rng.pick(&["doc", "s502"]), *rng.pick(&["doc", "mime"]))
            };
            g.push(format!("q {ci} {t} {ep} {} {} {}", with_id(a, &mut id), with_id(b, &mut id), with_id(c, &mut id)));
            for x in ttl { bounds.push(t + x); }
        }
        groups.push(g);
    }
    groups
}

/// TTL classes told apart: every endpoint class x the three TTLs (three pairwise different
/// values) in every order x memory / disk cache x a re-query 300 ms before and 300 ms after EACH
/// of the three TTL values (not only the class's own), one client. Every probe has its own
/// endpoint of the class (fetched at t=0), so each probe alone says "hit strictly before the
/// class's own TTL, refetch with a fresh answer after it" and a class that is stored with one of
/// the two other TTLs is seen whichever of them is the larger.
fn gen_ttl_class_groups(rng: &mut Rng, reps: usize) -> Vec<Vec<String>> {
    const VALS: [u64; 3] = [600, 1200, 1800];
    const PERMS: [[usize; 3]; 6] = [[0, 1, 2], [0, 2, 1], [1, 0, 2], [1, 2, 0], [2, 0, 1], [2, 1, 0]];
    const HALVES: [[&str; 3]; 2] = [["versions", "cdns", "summary"], ["bgdl", "certs", "ocsp"]];
    // 300 ms before / after 600, 1200, 1800 (the values are evenly spaced, so 6 probes fall on 4 instants)
    const PROBES: [u64; 4] = [300, 900, 1500, 2100];
    // answered by the first, second, third transport (TCP-only classes: always by the third)
    const GOOD: [[&str; 3]; 4] = [["doc", "doc", "doc"], ["s503", "doc", "mime"], ["s500", "s429ra", "doc"], ["doc", "s404", "mime"]];
    let mut groups = vec![];
    for rep in 0..reps {
        for perm in PERMS {
            for disk in [false, true] {
                for half in HALVES {
                    let ttl = [VALS[perm[0]], VALS[perm[1]], VALS[perm[2]]];
                    let mut id = 900_000 + (groups.len() as u32) * 100;
                    let mut g = vec![format!("begin mode={} https=1 http=1 down=0 ttl={},{},{}", if disk { "disk" } else { "mem" }, ttl[0], ttl[1], ttl[2])];
                    let n0 = 1 + rep * PROBES.len();
                    // the 12 fetches are 70 ms apart (no two lines of a group share an instant) (a fetch takes up to ~25 ms when all groups
                    // start together; the timing rule allows a line to start 120 ms late), and
                    // every probe is placed relative to the fetch of its own endpoint
                    let mut timed: Vec<(u64, String)> = vec![];
                    for (i, kind) in half.iter().enumerate() {
                        for (k, p) in PROBES.iter().enumerate() {
                            let f = 70 * (i * PROBES.len() + k) as u64;
                            let ep = endpoint(kind, n0 + k);
                            let b = rng.pick(&GOOD);
                            timed.push((f, format!("q 0 {f} {ep} {} {} {}", with_id(b[0], &mut id), with_id(b[1], &mut id), with_id(b[2], &mut id))));
                            let b = rng.pick(&GOOD);
                            timed.push((f + p, format!("q 0 {} {ep} {} {} {}", f + p, with_id(b[0], &mut id), with_id(b[1], &mut id), with_id(b[2], &mut id))));
                        }
                    }
                    timed.sort_by_key(|x| x.0);
                    g.extend(timed.into_iter().map(|x| x.1));
                    groups.push(g);
                }
            }
        }
    }
    groups
}

// ---------------------------------------------------------------------------------------------
// raw bodies: well-formed / malformed BY CONSTRUCTION (the tag travels on the request line for the
// oracle; the model decides with its parser on the bytes alone)
// ---------------------------------------------------------------------------------------------
fn wrap_mime(body: &str, good_checksum: bool) -> Vec<u8> {
    let before = format!(
        "MIME-Version: 1.0\r\nContent-Type: multipart/alternative; boundary=\"RibbitBoundary\"\r\n\r\n--RibbitBoundary\r\nContent-Type: text/plain\r\nContent-Disposition: data\r\n\r\n{body}\r\n--RibbitBoundary--\r\n"
    );
    let mut sum = sha256(before.as_bytes());
    if !good_checksum { sum[0] ^= 0x5a; }
    format!("{before}Checksum: {}\r\n", hex::encode(sum)).into_bytes()
}

/// (body text, Some((seqn, rows)) if well-formed)
fn raw_bodies(id: u32) -> Vec<(String, Option<(u32, u32)>)> {
    let h = "Region!STRING:0|BuildId!DEC:4|Key!HEX:2";
    vec![
        // well-formed variants of the same table
        (format!("{h}\n## seqn = {id}\nus|{id}|abcd\neu|{id}|0123\n"), Some((id, 2))),
        (format!("{h}\r\n## seqn = {id}\r\nus|{id}|abcd\r\n"), Some((id, 1))),
        (format!("{h}\n\n# a comment\n## seqn: {id}\nus|{id}|abcd\n\neu||\nkr|-5|\n"), Some((id, 3))),
        (format!("region!string:0|buildid!dec:4|key!hex:2\n## seqn = {id}\nus|{id}|ABCD"), Some((id, 1))),
        (format!("{h}\n## seqn = {id}\n"), Some((id, 0))),
        (format!("{h}  \n## seqn = {id}\n  us|{id}|abcd  \n"), Some((id, 1))),
        // malformed: every way the reader rejects a table
        (String::new(), None),
        ("\n\n".to_string(), None),
        ("<html>moved</html>\n".to_string(), None),
        (format!("Region|BuildId\nus|{id}\n"), None),
        (format!("Region!STRONG:0|BuildId!DEC:4\nus|{id}\n"), None),
        (format!("Region!STRING|BuildId!DEC:4\nus|{id}\n"), None),
        (format!("Region!STRING:x|BuildId!DEC:4\nus|{id}\n"), None),
        (format!("Region!STRING:0!y|BuildId!DEC:4\nus|{id}\n"), None),
        (format!("{h}\n## seqn = {id}\nus|{id}\n"), None),
        (format!("{h}\n## seqn = {id}\nus|{id}|abcd|extra\n"), None),
        (format!("{h}\n## seqn = {id}\nus|x{id}|abcd\n"), None),
        (format!("{h}\n## seqn = {id}\nus|{id}|abc\n"), None),
        (format!("{h}\n## seqn = {id}\nus|{id}|abcg\n"), None),
        (format!("{h}\n## seqn = abc\nus|{id}|abcd\n"), None),
        (format!("{h}\n## seqn =\nus|{id}|abcd\n"), None),
        (format!("{h}\n## seqn = 99999999999\nus|{id}|abcd\n"), None),
        (format!("{h}\n## seqn = {id}\nus|{id}|abcd\neu|{id}"), None),
        (format!("{h}\n## seqn = {id}\nus|99999999999999999999|abcd\n"), None),
    ]
}

fn raw_tok(code: u16, body: &[u8], tag: Option<(u32, u32)>) -> String {
    format!("r{code}:{}:{}", hex(body), match tag { Some((a, b)) => format!("g{a}.{b}"), None => "m".into() })
}

/// queries whose endpoints deliver raw bodies: plain on HTTP, plain or MIME-wrapped (good / bad
/// checksum) on TCP, in every position of the chain
fn gen_wire_groups(rng: &mut Rng, thorough: bool) -> Vec<Vec<String>> {
    let mut groups = vec![];
    let mut id = 50_000u32;
    let rounds = if thorough { 12 } else { 3 };
    for round in 0..rounds {
        let mut g = vec![format!("begin mode={} https=1 http=1 down=0 ttl=60000,60000,60000", if round % 2 == 0 { "disk" } else { "mem" })];
        let mut n = 0;
        id += 1;
        let bodies = raw_bodies(id);
        for (bi, (text, tag)) in bodies.iter().enumerate() {
            n += 1;
            let ep = endpoint(EP_KINDS[(bi + round) % 3], n);
            // position in the chain: 0 https, 1 http (https transient), 2 tcp (both transient)
            let pos = (bi + round) % 3;
            let tcp_body: (Vec<u8>, Option<(u32, u32)>) = match rng.below(4) {
                0 => (wrap_mime(text, true), *tag),
                1 => (wrap_mime(text, false), None), // checksum mismatch: malformed whatever is inside
                _ => (text.clone().into_bytes(), *tag),
            };
            let good_other = |k: usize| raw_tok(200, bodies[k].0.as_bytes(), bodies[k].1);
            let line = match pos {
                0 => format!("q 0 0 {ep} {} {} {}", raw_tok(200, text.as_bytes(), *tag), good_other(0), good_other(1)),
                1 => format!("q 0 0 {ep} {} {} {}", *rng.pick(&["s503", "close", "s429"]), raw_tok(200, text.as_bytes(), *tag), good_other(2)),
                _ => format!("q 0 0 {ep} {} {} {}", *rng.pick(&["s500", "mid", "stall"]), *rng.pick(&["s502", "close"]), raw_tok(200, &tcp_body.0, tcp_body.1)),
            };
            g.push(line);
            // the same endpoint again: a good answer is now served from the cache, a malformed one is not
            if rng.chance(1, 2) {
                g.push(format!("q 0 10 {ep} {} close close", raw_tok(404, b"gone\n", None)));
            }
        }
        // a non-200 status with a perfectly good table is not an answer
        n += 1;
        g.push(format!("q 0 0 {} {} {} {}", endpoint("versions", n), raw_tok(404, bodies[0].0.as_bytes(), None), good_other_static(&bodies, 0), good_other_static(&bodies, 1)));
        n += 1;
        g.push(format!("q 0 0 {} {} {} {}", endpoint("cdns", n), raw_tok(500, bodies[0].0.as_bytes(), None), raw_tok(201, bodies[0].0.as_bytes(), None), good_other_static(&bodies, 1)));
        // TCP-only endpoint with MIME / plain / malformed
        for (text, tag) in bodies.iter().take(8) {
            n += 1;
            let (b, tg) = if rng.chance(1, 2) { (wrap_mime(text, true), *tag) } else { (text.clone().into_bytes(), *tag) };
            g.push(format!("q 0 0 v1/summary/p{n} doc:1 doc:2 {}", raw_tok(200, &b, tg)));
        }
        groups.push(g);
    }
    groups
}
fn good_other_static(bodies: &[(String, Option<(u32, u32)>)], k: usize) -> String {
    raw_tok(200, bodies[k].0.as_bytes(), bodies[k].1)
}

// ---------------------------------------------------------------------------------------------
// CDN download groups
// ---------------------------------------------------------------------------------------------
fn rand_body(rng: &mut Rng) -> Vec<u8> {
    let n = *rng.pick(&[0usize, 1, 2, 5, 17, 40]);
    rng.bytes(n)
}
fn step_tok(rng: &mut Rng, kind: &str) -> String {
    match kind {
        "ok" => format!("s{}:{}", *rng.pick(&[200u16, 200, 200, 206, 203]), hex(&rand_body(rng))),
        "retry" => match rng.below(5) {
            0 => "close".to_string(),
            1 => { let mut b = rand_body(rng); while b.len() < 2 { b.push(rng.byte()); } format!("mid:{}", hex(&b)) }
            2 => format!("s429:{}", hex(&rand_body(rng))),
            _ => format!("s{}:{}", *rng.pick(&[500u16, 502, 503, 504, 599]), hex(&rand_body(rng))),
        },
        _ => format!("s{}:{}", *rng.pick(&[404u16, 403, 400, 410, 301, 416]), hex(&rand_body(rng))),
    }
}
fn rand_script(rng: &mut Rng) -> String {
    // shapes: immediate success / k retryable then success / k retryable then definitive /
    // only retryable (4 requests) / definitive at once / refused / one stall then success
    match rng.below(12) {
        0..=2 => step_tok(rng, "ok"),
        3 | 4 => { let k = 1 + rng.below(3); let mut v: Vec<String> = (0..k).map(|_| step_tok(rng, "retry")).collect(); v.push(step_tok(rng, "ok")); v.join(",") }
        5 => { let k = 1 + rng.below(2); let mut v: Vec<String> = (0..k).map(|_| step_tok(rng, "retry")).collect(); v.push(step_tok(rng, "fatal")); v.push(step_tok(rng, "ok")); v.join(",") }
        6 => { let k = 1 + rng.below(4); (0..k).map(|_| step_tok(rng, "retry")).collect::<Vec<_>>().join(",") }
        7 => { let mut v: Vec<String> = (0..4).map(|_| step_tok(rng, "retry")).collect(); v.push(step_tok(rng, "ok")); v.join(",") }
        8 | 9 => { let a = step_tok(rng, "fatal"); let b = step_tok(rng, "ok"); format!("{a},{b}") }
        10 => "refuse".to_string(),
        _ => format!("stall,{}", step_tok(rng, "ok")),
    }
}

/// long TTLs: every script shape, repeated downloads of the same object (by the same client, by
/// another client on the directory, with a trailing slash on the path), invalid keys, corruption
fn gen_cdn_groups(rng: &mut Rng, n: usize) -> Vec<Vec<String>> {
    let mut groups = vec![];
    for gi in 0..n {
        let disk = gi % 3 != 2;
        let mut g = vec![format!("begin mode={} https=1 http=1 down=0 ttl=60000,60000,60000", if disk { "disk" } else { "mem" })];
        let mut clients = 1usize;
        let mut objs: Vec<(String, &str, Vec<u8>)> = vec![];
        let steps = 6 + rng.below(6);
        for _ in 0..steps {
            if clients < 2 && rng.chance(1, 5) { g.push("new".into()); clients += 1; }
            let ci = rng.below(clients as u64) as usize;
            let (path, ct, key) = if !objs.is_empty() && rng.chance(1, 2) {
                let o = rng.pick(&objs).clone();
                // the same object, sometimes spelled with trailing slashes
                (if rng.chance(1, 3) { format!("{}/", o.0) } else { o.0 }, o.1, o.2)
            } else {
                let p = rng.pick(&["tpr/wow", "tpr/configs/data", "x"]).to_string();
                let ct = *rng.pick(&["config", "data", "patch"]);
                let klen = *rng.pick(&[2usize, 3, 16, 16, 16, 1, 0]);
                let k = rng.bytes(klen);
                if klen >= 2 { objs.push((p.clone(), ct, k.clone())); }
                (p, ct, k)
            };
            if disk && key.len() >= 2 && rng.chance(1, 12) {
                g.push(format!("corruptdl {} {ct} {}", path.trim_end_matches('/'), hex(&key)));
            }
            g.push(format!("dl {ci} 0 {path} {ct} {} {}", hex(&key), rand_script(rng)));
            if rng.chance(1, 6) {
                // an answer of the version service through the same client and cache in between
                g.push(format!("q {ci} 0 v1/products/p{gi}/versions doc:{} doc:2 doc:3", 70_000 + gi));
            }
        }
        groups.push(g);
    }
    groups
}

/// short TTLs (ribbit, cdn, config all different, in both orders of cdn/config): one client,
/// scripts decided by their first request, downloads placed ≥ 250 ms away from every expiry
fn gen_cdn_ttl_groups(rng: &mut Rng, n: usize) -> Vec<Vec<String>> {
    let mut groups = vec![];
    for gi in 0..n {
        let disk = gi % 2 == 0;
        let ttl: [u64; 3] = if gi % 4 < 2 { [600, 1100, 1700] } else { [600, 1700, 1100] };
        let mut g = vec![format!("begin mode={} https=1 http=1 down=0 ttl={},{},{}", if disk { "disk" } else { "mem" }, ttl[0], ttl[1], ttl[2])];
        let key = rng.bytes(16);
        let ct = *rng.pick(&["config", "data", "patch"]);
        let mut bounds: Vec<u64> = vec![];
        let mut t = 0u64;
        for step in 0..(4 + rng.below(3)) {
            let mut cand = t + *rng.pick(&[0u64, 40, 300, 800, 1300, 1900]);
            if step == 0 { cand = 0; }
            loop {
                let near = bounds.iter().any(|&b| cand + 250 > b && cand < b + 250);
                if !near { break; }
                cand += 100;
            }
            t = cand;
            if t > 5000 { break; }
            let script = if rng.chance(1, 4) { step_tok(rng, "fatal") } else { step_tok(rng, "ok") };
            g.push(format!("dl 0 {t} tpr/wow {ct} {} {script}", hex(&key)));
            for x in ttl { bounds.push(t + x); }
        }
        groups.push(g);
    }
    groups
}

fn compositions(total: usize, parts: usize, out: &mut Vec<Vec<usize>>, cur: &mut Vec<usize>) {
    if parts == 1 {
        cur.push(total);
        out.push(cur.clone());
        cur.pop();
        return;
    }
    for first in 1..=(total - (parts - 1)) {
        cur.push(first);
        compositions(total - first, parts - 1, out, cur);
        cur.pop();
    }
}

fn split_by(data: &[u8], comp: &[usize]) -> Vec<Vec<u8>> {
    let mut v = vec![];
    let mut p = 0;
    for &c in comp {
        v.push(data[p..p + c].to_vec());
        p += c;
    }
    v
}

fn tcp_bodies() -> Vec<(&'static str, Vec<u8>)> {
    vec![
        ("v2-terminated", b"a!DEC:1\n1\n\n".to_vec()),
        ("v2-interior-blank", b"a!DEC:1\n1\n\n2\n3\n\n".to_vec()),
        ("v2-unterminated", b"a!DEC:1\n1\n2\n".to_vec()),
        ("v2-crlf", b"a!DEC:1\r\n1\r\n\r\n2\r\n".to_vec()),
        ("only-newlines", b"\n\n\n\n".to_vec()),
        ("mime-short", b"Content-Type: multipart/mixed\n\nx\n\ny\n".to_vec()),
        ("mime-late-marker", b"X: y\n\nContent-Type: multipart/alternative\n\nz\n\n".to_vec()),
        ("mime-upper", b"CONTENT-TYPE: MULTIPART/MIXED\n\nq\n\n".to_vec()),
    ]
}

fn gen_tcp_lines(rng: &mut Rng, thorough: bool) -> Vec<String> {
    let mut lines = vec![];
    for (_, body) in tcp_bodies() {
        let n = body.len();
        let maxparts = if thorough { 4 } else { 3 };
        for parts in 1..=maxparts.min(n) {
            let mut comps = vec![];
            compositions(n, parts, &mut comps, &mut vec![]);
            let cap = if thorough { 1200 } else if parts == 3 { 40 } else { 64 };
            if comps.len() > cap {
                // keep a seeded sample
                let mut keep = vec![];
                for _ in 0..cap {
                    keep.push(comps[rng.below(comps.len() as u64) as usize].clone());
                }
                comps = keep;
            }
            for c in comps {
                let segs = split_by(&body, &c);
                lines.push(format!("tcp {}", segs.iter().map(|s| hex(s)).collect::<Vec<_>>().join(" ")));
            }
        }
    }
    // real documents (V2 with terminator, V1 MIME with checksum): splits at random places
    let docs: Vec<Vec<u8>> = vec![format!("{}\n", bpsv_doc(5)).into_bytes(), mime_doc(6), bpsv_doc(8).into_bytes()];
    for d in &docs {
        for _ in 0..(if thorough { 60 } else { 8 }) {
            let parts = 1 + rng.below(4) as usize;
            let mut cuts: BTreeSet<usize> = BTreeSet::new();
            while cuts.len() < parts - 1 {
                cuts.insert(1 + rng.below(d.len() as u64 - 1) as usize);
            }
            let mut comp = vec![];
            let mut prev = 0;
            for c in cuts { comp.push(c - prev); prev = c; }
            comp.push(d.len() - prev);
            let segs = split_by(d, &comp);
            lines.push(format!("tcp {}", segs.iter().map(|s| hex(s)).collect::<Vec<_>>().join(" ")));
        }
    }
    // zero-length response, single newline pairs at the very end
    lines.push("tcp -".into());
    lines
}

fn gen_ismime_lines(rng: &mut Rng, thorough: bool) -> Vec<String> {
    let mut v: Vec<Vec<u8>> = vec![
        b"".to_vec(),
        b"Content-Type: multipart/alternative; boundary=x\r\n\r\n".to_vec(),
        b"content-type: multipart/mixed".to_vec(),
        b"CONTENT-TYPE: MULTIPART/MIXED".to_vec(),
        b"Content-Type: text/plain\r\n\r\nmultipart/related".to_vec(),
        b"multipart/mixed and later Content-Type:".to_vec(),
        b"Content-Type multipart/mixed".to_vec(),
        b"Region!STRING:0|BuildConfig!HEX:16\nus|abc\n\n".to_vec(),
        bpsv_doc(3).into_bytes(),
        mime_doc(4),
    ];
    // markers straddling the 512-byte window
    for pad in [470usize, 480, 483, 484, 485, 490, 498, 499, 500, 511, 512, 600] {
        let mut b = vec![b'x'; pad];
        b.extend_from_slice(b"Content-Type: multipart/mixed\n");
        v.push(b.clone());
        let mut c = b"Content-Type: a\n".to_vec();
        c.extend(vec![b'y'; pad.saturating_sub(16)]);
        c.extend_from_slice(b"multipart/alternative");
        v.push(c);
    }
    let words: [&[u8]; 8] = [b"content-type:", b"Content-Type:", b"multipart/alternative", b"multipart/mixed", b"MULTIPART/", b"mixed", b"\n\n", b"x"];
    for _ in 0..(if thorough { 400 } else { 60 }) {
        let mut b = vec![];
        for _ in 0..rng.range(1, 6) {
            b.extend_from_slice(*rng.pick(&words[..]));
            if rng.chance(1, 3) { b.extend(vec![b' '; rng.below(300) as usize]); }
        }
        v.push(b);
    }
    v.iter().map(|b| format!("ismime {}", hex(b))).collect()
}

fn gen_retry_lines() -> Vec<String> {
    let mut v: Vec<String> = [
        "network", "parse", "cache", "all-hosts-failed", "ratelimited", "ratelimited:hint", "unavailable", "invalid-key",
        "invalid-endpoint", "range", "timeout", "other", "utf8", "wasm",
    ]
    .iter()
    .map(|c| format!("retry {c}"))
    .collect();
    for code in 100..=599 {
        v.push(format!("retry status {code}"));
        v.push(format!("retry server {code}"));
    }
    v
}

// ---------------------------------------------------------------------------------------------
// main
// ---------------------------------------------------------------------------------------------
fn split_groups(lines: &[String]) -> Vec<Vec<String>> {
    let mut groups: Vec<Vec<String>> = vec![];
    for l in lines {
        if l.starts_with("begin") || groups.is_empty() {
            groups.push(vec![]);
        }
        groups.last_mut().unwrap().push(l.clone());
    }
    groups
}

/// timing rule for groups with short TTLs: a query must start within 120 ms of its nominal time
/// and take at most 120 ms (every nominal time is ≥ 250 ms away from every expiry instant)
fn timing_ok(lines: &[String], res: &[(String, Option<QInfo>)]) -> bool {
    let short_ttl = lines[0].starts_with("begin") && !lines[0].contains("ttl=60000");
    if !short_ttl { return true; }
    if std::env::var_os("C13_DEBUG").is_some() {
        for (l, (_, i)) in lines.iter().zip(res) {
            if let Some(q) = i.as_ref().filter(|q| q.late_ms > 120 || q.dur_ms > 120) {
                eprintln!("timing: late={} dur={} :: {} :: {}", q.late_ms, q.dur_ms, lines[0], l);
            }
        }
    }
    res.iter().all(|(_, i)| i.as_ref().is_none_or(|q| q.late_ms <= 120 && q.dur_ms <= 120))
}

fn run_groups_parallel(groups: Vec<Vec<String>>, threads: usize, retimed: &mut u64, dropped: &mut u64) -> Vec<Option<Vec<String>>> {
    let n = groups.len();
    let groups = Arc::new(groups);
    let next = Arc::new(Mutex::new(0usize));
    let results: Arc<Mutex<Vec<Option<(Vec<String>, u64)>>>> = Arc::new(Mutex::new((0..n).map(|_| None).collect()));
    let mut hs = vec![];
    for _ in 0..threads.min(n.max(1)) {
        let (groups, next, results) = (groups.clone(), next.clone(), results.clone());
        hs.push(std::thread::spawn(move || loop {
            let i = {
                let mut g = next.lock().unwrap();
                if *g >= groups.len() { break; }
                *g += 1;
                *g - 1
            };
            let mut tries = 0u64;
            let r = loop {
                let r = run_group_blocking(groups[i].clone());
                if timing_ok(&groups[i], &r) { break Some(r); }
                tries += 1;
                if tries >= 3 { break None; }
            };
            results.lock().unwrap()[i] = Some((r.map(|v| v.into_iter().map(|x| x.0).collect()).unwrap_or_default(), tries));
        }));
    }
    for h in hs { let _ = h.join(); }
    let res = Arc::try_unwrap(results).ok().unwrap().into_inner().unwrap();
    res.into_iter()
        .map(|x| {
            let (v, tries) = x.unwrap_or_default();
            *retimed += tries.min(2);
            if v.is_empty() { *dropped += 1; None } else { Some(v) }
        })
        .collect()
}

fn emit_groups(s: &mut Session, groups: &[Vec<String>], results: &[Option<Vec<String>>], kind: &str) {
    for (g, r) in groups.iter().zip(results) {
        let Some(r) = r else { continue };
        for (l, resp) in g.iter().zip(r) {
            s.line(l, resp);
            let op = l.split(' ').next().unwrap_or("");
            s.tally(&format!("op.{op}"));
            if op == "q" {
                let toks: Vec<&str> = l.split(' ').collect();
                for (i, b) in toks[4..7].iter().enumerate() {
                    let b = b.split(':').next().unwrap();
                    s.tally(&format!("beh.{}.{}", NAMES[i], b));
                }
                let f: BTreeMap<&str, &str> = resp.split(' ').filter_map(|kv| kv.split_once('=')).collect();
                if let (Some(tr), Some(res)) = (f.get("trace"), f.get("res")) {
                    s.tally(&format!("trace.{tr}"));
                    let rc = if res.starts_with("ok") { "ok".to_string() } else { res.to_string() };
                    s.tally(&format!("res.{rc}"));
                    // non-trivial: the mechanism was reached past endpoint validation
                    let nontrivial = *res != "err:invalid-endpoint";
                    let key = format!("{} {} {} {} {} -> {resp}", g[0], toks[3].split('/').next_back().unwrap_or(""), toks[4].split(':').next().unwrap(), toks[5].split(':').next().unwrap(), toks[6].split(':').next().unwrap());
                    s.case(if nontrivial { Some(&key) } else { None });
                }
            } else if op == "tcp" || op == "ismime" || op == "retry" || op == "httperr" {
                s.case(Some(l));
            } else if op == "dl" {
                let toks: Vec<&str> = l.split(' ').collect();
                let shape: Vec<&str> = toks[6].split(',').map(|t| t.split(':').next().unwrap()).collect();
                let f: BTreeMap<&str, &str> = resp.split(' ').filter_map(|kv| kv.split_once('=')).collect();
                if let (Some(rq), Some(res)) = (f.get("reqs"), f.get("res")) {
                    s.tally(&format!("dl.reqs.{rq}"));
                    let rc = if res.starts_with("ok") { "ok".to_string() } else { res.to_string() };
                    s.tally(&format!("dl.res.{rc}"));
                    for sh in &shape { s.tally(&format!("dl.step.{sh}")); }
                    // non-trivial: the call passed check_key and reached the cache lookup
                    let nontrivial = *res != "err:invalid-key";
                    let key = format!("{} dl {} {} reqs={rq} res={rc} cache={}", g[0], toks[4], shape.join(","), f.get("cache").map_or("?", |c| c.split(':').next().unwrap()));
                    s.case(if nontrivial { Some(&key) } else { None });
                }
            }
        }
        let mut fails: Vec<(String, String, usize)> = vec![];
        oracle_group(g, r, |sig, msg, upto| fails.push((sig.to_string(), msg, upto)));
        for (sig, msg, upto) in fails {
            s.tally(&format!("oracle.{sig}"));
            let ep = g[upto].split(' ').nth(3).unwrap_or("").to_string();
            let rep: Vec<String> = g[..=upto]
                .iter()
                .enumerate()
                .filter(|(k, l)| {
                    let t: Vec<&str> = l.split(' ').collect();
                    *k == upto || t[0] == "begin" || t[0] == "new" || (t[0] == "corrupt" && t.get(1) == Some(&ep.as_str())) || (t[0] == "q" && t.get(3) == Some(&ep.as_str()))
                        || ((t[0] == "dl" || t[0] == "corruptdl") && g[upto].starts_with("dl "))
                })
                .map(|(_, l)| l.clone())
                .collect();
            s.oracle_fail(&sig, &format!("[{kind}] {msg}"), &rep);
        }
    }
}

/// O for the split lines: the raw bytes and the parsed answer must not depend on the split
fn tcp_oracle(s: &mut Session, lines: &[String], resps: &[String]) {
    let rt = tokio::runtime::Builder::new_current_thread().enable_all().build().expect("runtime");
    let mut whole_cache: BTreeMap<Vec<u8>, (String, String)> = BTreeMap::new();
    for (l, resp) in lines.iter().zip(resps) {
        let toks: Vec<&str> = l.split(' ').collect();
        if toks[0] != "tcp" { continue; }
        let Some(segs) = toks[1..].iter().map(|h| unhex(h)).collect::<Option<Vec<Vec<u8>>>>() else { continue };
        let whole: Vec<u8> = segs.concat();
        if whole.len() > 8192 { continue; }
        let (raw_whole, parsed_whole) = whole_cache
            .entry(whole.clone())
            .or_insert_with(|| {
                rt.block_on(async {
                    let one = if whole.is_empty() { vec![] } else { vec![whole.clone()] };
                    let raw = match tcp_raw(one.clone()).await {
                        Ok(b) => format!("ok:{}", hex(&b)),
                        Err(e) => format!("err:{}", err_class(&e)),
                    };
                    (raw, tcp_parsed(one).await)
                })
            })
            .clone();
        let mime = is_v1_mime_response(&whole);
        if *resp != raw_whole {
            // shape of the failing case: where did the read loop stop?
            let got_len = resp.strip_prefix("ok:").map(|h| unhex(h).map_or(0, |b| b.len()));
            let mut boundary = false;
            let mut acc = 0;
            for sg in &segs[..segs.len() - 1] {
                acc += sg.len();
                if Some(acc) == got_len { boundary = true; }
            }
            let at_blank = got_len.is_some_and(|n| n >= 2 && n < whole.len() && &whole[n - 2..n] == b"\n\n");
            let sig = if boundary && at_blank && !is_v1_mime_response(&whole[..got_len.unwrap()]) {
                "tcp-split-interior-blank-line"
            } else {
                "tcp-split-dependent"
            };
            s.tally(&format!("oracle.{sig}"));
            s.oracle_fail(sig, &format!("raw response depends on the split (mime={mime}): whole -> {} bytes, split -> {resp}", whole.len()), &[l.clone()]);
            // parsed answer too?
            let parsed_split = rt.block_on(tcp_parsed(segs.clone()));
            if parsed_split != parsed_whole {
                let sig2 = if sig == "tcp-split-interior-blank-line" { "tcp-split-interior-blank-line-parsed" } else { "tcp-split-dependent-parsed" };
                s.tally(&format!("oracle.{sig2}"));
                s.oracle_fail(sig2, &format!("parsed answer depends on the split: whole -> {parsed_whole}, split -> {parsed_split}"), &[l.clone()]);
            }
        }
    }
}

fn main() {
    let args = Args::parse();
    quiet_panics();
    let mut s = Session::new(&args.out);
    s.rule = "groups of queries against loopback mock servers (2 HTTP, 1 Ribbit TCP) with per-query behaviour assignments; non-trivial = query passed endpoint validation and reached the cache/fallback mechanism, download passed check_key and reached the cache lookup (or a tcp/ismime/retry/httperr line); distinct = configuration + endpoint class + behaviour classes (dl: content type + script shape + requests + result class + cache class) + canonical response".into();
    let threads = 12;
    let (mut retimed, mut dropped) = (0u64, 0u64);

    if let Some(p) = &args.replay {
        let lines = read_case(p);
        let groups = split_groups(&lines);
        let results = run_groups_parallel(groups.clone(), 1, &mut retimed, &mut dropped);
        // replay never drops a case: rerun without the timing rule if needed
        let results: Vec<Option<Vec<String>>> = groups
            .iter()
            .zip(results)
            .map(|(g, r)| r.or_else(|| Some(run_group_blocking(g.clone()).into_iter().map(|x| x.0).collect())))
            .collect();
        emit_groups(&mut s, &groups, &results, "replay");
        let flat_l: Vec<String> = groups.concat();
        let flat_r: Vec<String> = results.into_iter().flatten().flatten().collect();
        tcp_oracle(&mut s, &flat_l, &flat_r);
        s.finish();
        return;
    }

    let mut rng = Rng::new(args.seed);
    let th = args.thorough();
    // 1. classification table, MIME detection: pure calls
    let mut pure = gen_retry_lines();
    pure.extend(gen_ismime_lines(&mut rng, th));
    let pure_groups = vec![pure];
    let r = run_groups_parallel(pure_groups.clone(), 1, &mut retimed, &mut dropped);
    emit_groups(&mut s, &pure_groups, &r, "pure");
    // 2. TCP read loop under every split
    let tcp_lines = gen_tcp_lines(&mut rng, th);
    let tcp_groups: Vec<Vec<String>> = tcp_lines.chunks(64).map(|c| c.to_vec()).collect();
    let r = run_groups_parallel(tcp_groups.clone(), threads, &mut retimed, &mut dropped);
    emit_groups(&mut s, &tcp_groups, &r, "tcp");
    let flat_r: Vec<String> = r.into_iter().flatten().flatten().collect();
    tcp_oracle(&mut s, &tcp_lines, &flat_r);
    // 3. fallback chain under behaviour assignments
    let chain = gen_chain_groups(&mut rng, th);
    let r = run_groups_parallel(chain.clone(), threads, &mut retimed, &mut dropped);
    emit_groups(&mut s, &chain, &r, "chain");
    // 4. cache histories around expiry, several clients
    let ttl = gen_ttl_groups(&mut rng, if th { 240 } else { 36 });
    let r = run_groups_parallel(ttl.clone(), 24, &mut retimed, &mut dropped);
    emit_groups(&mut s, &ttl, &r, "ttl");
    // 5. endpoint validation (no traffic for a rejected endpoint)
    let bad_eps = vec![vec![
        "begin mode=mem https=1 http=1 down=0 ttl=60000,60000,60000".to_string(),
        "q 0 0 v1/products/wow/versions?x=1 doc:1 doc:2 doc:3".to_string(),
        "q 0 0 v1/products/wow%20/cdns doc:1 doc:2 doc:3".to_string(),
        format!("q 0 0 {} doc:1 doc:2 doc:3", "a".repeat(1001)),
        format!("q 0 0 {} doc:4 doc:5 doc:6", "a".repeat(1000)),
    ]];
    let r = run_groups_parallel(bad_eps.clone(), 1, &mut retimed, &mut dropped);
    emit_groups(&mut s, &bad_eps, &r, "endpoint");

    // 6. raw bodies: the parser decides what is malformed
    let wire = gen_wire_groups(&mut rng, th);
    let r = run_groups_parallel(wire.clone(), threads, &mut retimed, &mut dropped);
    emit_groups(&mut s, &wire, &r, "wire");
    // 7. reqwest error classes, one probe each
    let probes: Vec<Vec<String>> = HTTPERR_BEH.iter().map(|b| vec![format!("httperr {b}")]).collect();
    let r = run_groups_parallel(probes.clone(), threads, &mut retimed, &mut dropped);
    emit_groups(&mut s, &probes, &r, "httperr");
    // 8. CDN downloads: cache, then fetch (with retries), then store
    let cdn = gen_cdn_groups(&mut rng, if th { 160 } else { 30 });
    let r = run_groups_parallel(cdn.clone(), 24, &mut retimed, &mut dropped);
    emit_groups(&mut s, &cdn, &r, "cdn");
    let cdn_ttl = gen_cdn_ttl_groups(&mut rng, if th { 120 } else { 24 });
    let r = run_groups_parallel(cdn_ttl.clone(), 24, &mut retimed, &mut dropped);
    emit_groups(&mut s, &cdn_ttl, &r, "cdn-ttl");
    // 9. TTL classes: every endpoint class x every order of three different TTLs x a re-query
    //    just before / just after each TTL value, memory and disk cache
    let ttl_class = gen_ttl_class_groups(&mut rng, if th { 3 } else { 1 });
    let (before, before_rt) = (dropped, retimed);
    let r = run_groups_parallel(ttl_class.clone(), 24, &mut retimed, &mut dropped);
    emit_groups(&mut s, &ttl_class, &r, "ttl-class");
    for (g, r) in ttl_class.iter().zip(&r) {
        let Some(r) = r else { continue };
        let mut seen: BTreeSet<&str> = BTreeSet::new();
        for (l, resp) in g.iter().zip(r) {
            let t: Vec<&str> = l.split(' ').collect();
            if t[0] != "q" || seen.insert(t[3]) { continue; }
            let kind = EP_KINDS.iter().find(|k| t[3].contains(*k)).copied().unwrap_or("?");
            s.tally(&format!("ttlclass.{kind}.{}", if resp.starts_with("trace=- ") { "hit" } else { "refetch" }));
        }
    }
    s.extra.insert("ttl_class_groups".into(), serde_json::json!(ttl_class.len()));
    s.extra.insert("ttl_class_groups_dropped_for_timing".into(), serde_json::json!(dropped - before));
    s.extra.insert("ttl_class_groups_rerun_for_timing".into(), serde_json::json!(retimed - before_rt));

    s.extra.insert("groups_rerun_for_timing".into(), serde_json::json!(retimed));
    s.extra.insert("groups_dropped_for_timing".into(), serde_json::json!(dropped));
    s.finish();
}
