use cascette_formats::zbsdiff::*;
use std::io::Cursor;
fn main() {
    let good = ZbsdiffBuilder::new(b"hello".to_vec(), b"hello world".to_vec()).build().unwrap();
    println!("good len {} {:02x?}", good.len(), &good);
    for n in [0usize, 3, 7, 8, 9, 31, 32, 33] {
        let p = &good[..n.min(good.len())];
        println!("trunc {n}: mem {:?}", apply_patch_memory(b"hello", p).map(|v| v.len()));
        println!("trunc {n}: parse_from_patch {:?}", ZbsdiffHeader::parse_from_patch(p).map(|_| ()));
        let mut bad = p.to_vec(); if !bad.is_empty() { bad[0] ^= 1; }
        println!("badsig {n}: mem {:?}", apply_patch_memory(b"hello", &bad).map(|v| v.len()));
    }
    // negative / large sizes
    for (c, d, o) in [(-1i64, 0i64, 0i64), (0, -1, 0), (0, 0, -1), (1_000_000_001, 0, 0), (600_000_000, 600_000_000, 0), (i64::MAX, i64::MAX, 0), (5,5,5), (i64::MIN, 0, 0)] {
        let mut p = vec![]; p.extend_from_slice(b"ZBSDIFF1"); p.extend_from_slice(&c.to_le_bytes()); p.extend_from_slice(&d.to_le_bytes()); p.extend_from_slice(&o.to_le_bytes());
        println!("hdr {c} {d} {o}: {:?}", apply_patch_memory(b"hello", &p).map(|v| v.len()));
    }
    // zlib
    for z in [vec![], vec![0u8], vec![0x78], vec![0x78, 0x9c], compress_zlib(b"abc").unwrap()[..5].to_vec(), { let mut v = compress_zlib(b"abc").unwrap(); v.extend_from_slice(b"junk"); v }, vec![1,2,3,4,5,6]] {
        println!("z {:02x?}: {:?}", z, decompress_zlib(&z));
    }
    // offtout at limits
    for v in [i64::MIN, i64::MIN + 1, i64::MAX, 0, -1, 1 << 56, -(1 << 56)] {
        let cb = ControlBlock { entries: vec![ControlEntry::new(0, 0, v)] };
        let raw = decompress_zlib(&cb.to_compressed().unwrap()).unwrap();
        let back = ControlBlock::from_compressed(&cb.to_compressed().unwrap()).map(|c| c.entries[0].seek_offset);
        println!("offtout {v}: {:02x?} back {:?}", &raw[16..], back);
    }
    let _ = Cursor::new(vec![0u8]);
}
